//! Shared generators.
