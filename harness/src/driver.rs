#![allow(dead_code)]
//! Shared driver: proptest `TestRunner` wrapper with fixed seeds, sharded execution, class
//! histograms, distinct non-trivial counting, known-finding tolerance by signature, replay files,
//! corpus replay, evidence writing.
//!
//! How a property module uses it (see `props/c15.rs` for a full example):
//!
//! ```ignore
//! pub fn run(r: &mut Run) {
//!     r.subcheck("bitpack_roundtrip", r.cases(20_000, 2_000_000), || vec_u64_strategy(), |v: &Vec<u64>| {
//!         // call grafeo under `guard(|| ...)` so that panics become Failures
//!         let dec = guard("bitpack", || BitPackedInts::pack(v).unpack())?;
//!         if dec != *v { return fail("c15/bitpack/mismatch", format!("{v:?} -> {dec:?}")); }
//!         ok(v.len() >= 2, "random", hash_of(v))
//!     });
//! }
//! ```
//!
//! * The closure must be a pure function of the case (no RNG, no clock, no shared state).
//! * `Err(Failure)` whose signature is listed as an *open* finding in `known_findings.json` is
//!   counted under that finding and treated as a pass for search purposes; any other failure is
//!   shrunk by proptest, written to `/verif/replays/<id>/...json` and reported as a VIOLATION.
//! * In replay mode (`--replay file`) only the sub-check named in the file runs, once, on the saved
//!   case, bypassing proptest.

use std::collections::{BTreeMap, HashSet};
use std::fmt::Debug;
use std::hash::{Hash, Hasher};
use std::path::{Path, PathBuf};
use std::sync::Mutex;
use std::sync::atomic::{AtomicBool, AtomicU64, Ordering};
use std::time::Instant;

use proptest::strategy::Strategy;
use proptest::test_runner::{Config, RngSeed, TestCaseError, TestError, TestRunner};
use serde::Serialize;
use serde::de::DeserializeOwned;

/// Root of the verification tree (`/verif`; overridable with `VERIF_ROOT` for development worktrees).
pub fn verif_root() -> PathBuf {
    PathBuf::from(std::env::var("VERIF_ROOT").unwrap_or_else(|_| "/verif".to_string()))
}

#[derive(Clone, Copy, PartialEq, Eq, Debug)]
pub enum Tier {
    Quick,
    Thorough,
}

/// A passing case.
#[derive(Clone, Debug)]
pub struct CaseOk {
    pub nontrivial: bool,
    pub class: String,
    pub key: u64,
    /// Signatures of known-finding observations made inside an otherwise passing case (e.g. reads of a
    /// history that fall into a defective region). Each must be listed by an open finding, otherwise the
    /// case is a failure with that signature. Counted per finding in the evidence.
    pub known: Vec<String>,
}

/// A failing case: `signature` identifies the *kind* of failure (used for known-finding lookup and
/// for de-duplicating violations); `what` is the human-readable detail.
#[derive(Clone, Debug)]
pub struct Failure {
    pub signature: String,
    pub what: String,
}

pub type CaseResult = Result<CaseOk, Failure>;

pub fn ok(nontrivial: bool, class: impl Into<String>, key: u64) -> CaseResult {
    Ok(CaseOk { nontrivial, class: class.into(), key, known: Vec::new() })
}

pub fn ok_with_known(nontrivial: bool, class: impl Into<String>, key: u64, known: Vec<String>) -> CaseResult {
    Ok(CaseOk { nontrivial, class: class.into(), key, known })
}

pub fn fail<T>(signature: impl Into<String>, what: impl Into<String>) -> Result<T, Failure> {
    Err(Failure { signature: signature.into(), what: what.into() })
}

pub fn hash_of<T: Hash + ?Sized>(t: &T) -> u64 {
    let mut h = Fnv(0xcbf29ce484222325);
    t.hash(&mut h);
    h.finish()
}

/// Hash of the Debug rendering (for types that are not `Hash`, e.g. containing floats).
pub fn hash_dbg<T: Debug + ?Sized>(t: &T) -> u64 {
    hash_of(&format!("{t:?}"))
}

struct Fnv(u64);
impl Hasher for Fnv {
    fn finish(&self) -> u64 {
        self.0
    }
    fn write(&mut self, bytes: &[u8]) {
        for b in bytes {
            self.0 ^= u64::from(*b);
            self.0 = self.0.wrapping_mul(0x100000001b3);
        }
    }
}

// ------------------------------------------------------------------------------------------------
// Panic capture
// ------------------------------------------------------------------------------------------------

thread_local! {
    static LAST_PANIC: std::cell::RefCell<Option<(String, String)>> = const { std::cell::RefCell::new(None) };
    static QUIET: std::cell::Cell<bool> = const { std::cell::Cell::new(false) };
}

static HOOK_INSTALLED: AtomicBool = AtomicBool::new(false);

pub fn install_panic_hook() {
    if HOOK_INSTALLED.swap(true, Ordering::SeqCst) {
        return;
    }
    let default = std::panic::take_hook();
    std::panic::set_hook(Box::new(move |info| {
        let loc = info
            .location()
            .map(|l| normalize_file(l.file()))
            .unwrap_or_else(|| "<unknown>".to_string());
        let msg = if let Some(s) = info.payload().downcast_ref::<&str>() {
            (*s).to_string()
        } else if let Some(s) = info.payload().downcast_ref::<String>() {
            s.clone()
        } else {
            "<non-string panic>".to_string()
        };
        LAST_PANIC.with(|p| *p.borrow_mut() = Some((loc, msg)));
        if !QUIET.with(std::cell::Cell::get) {
            default(info);
        }
    }));
}

/// Crate-relative file path without line numbers (`grafeo-core/src/storage/delta.rs`).
fn normalize_file(f: &str) -> String {
    if let Some(i) = f.find("/crates/") {
        f[i + 8..].to_string()
    } else if let Some(i) = f.find("/rustc/") {
        // std / core: keep `library/...`
        match f[i..].find("/library/") {
            Some(j) => f[i + j + 1..].to_string(),
            None => f.to_string(),
        }
    } else {
        f.to_string()
    }
}

/// Message prefix with digits collapsed, so that varying indices/lengths do not split a signature.
fn normalize_msg(m: &str) -> String {
    let mut out = String::new();
    let mut last_digit = false;
    for c in m.chars().take(90) {
        if c.is_ascii_digit() {
            if !last_digit {
                out.push('#');
            }
            last_digit = true;
        } else {
            last_digit = false;
            out.push(if c == '\n' { ' ' } else { c });
        }
    }
    out
}

#[derive(Clone, Debug)]
pub struct PanicInfo {
    pub file: String,
    pub msg: String,
}

impl PanicInfo {
    pub fn signature(&self) -> String {
        format!("panic@{}:{}", self.file, normalize_msg(&self.msg))
    }
}

/// Run `f`, converting a panic into `Err(PanicInfo)`. Silent.
pub fn catch<T>(f: impl FnOnce() -> T) -> Result<T, PanicInfo> {
    install_panic_hook();
    let prev = QUIET.with(|q| q.replace(true));
    LAST_PANIC.with(|p| *p.borrow_mut() = None);
    let r = std::panic::catch_unwind(std::panic::AssertUnwindSafe(f));
    QUIET.with(|q| q.set(prev));
    match r {
        Ok(v) => Ok(v),
        Err(_) => {
            let (file, msg) = LAST_PANIC
                .with(|p| p.borrow_mut().take())
                .unwrap_or_else(|| ("<unknown>".into(), "<unknown>".into()));
            Err(PanicInfo { file, msg })
        }
    }
}

/// Run `f`; a panic becomes a `Failure` with a `panic@file:msg` signature.
pub fn guard<T>(ctx: &str, f: impl FnOnce() -> T) -> Result<T, Failure> {
    catch(f).map_err(|p| Failure {
        signature: p.signature(),
        what: format!("{ctx}: panic at {}: {}", p.file, p.msg),
    })
}

// ------------------------------------------------------------------------------------------------
// Known findings
// ------------------------------------------------------------------------------------------------

#[derive(Clone, Debug, serde::Deserialize)]
pub struct Finding {
    pub id: String,
    pub property: String,
    /// "open" tolerates; anything else ("fixed") tolerates nothing.
    pub status: String,
    /// exact signatures this finding covers
    #[serde(default)]
    pub signatures: Vec<String>,
    /// signature prefixes this finding covers
    #[serde(default)]
    pub signature_prefixes: Vec<String>,
    pub what: String,
}

#[derive(Clone, Debug, Default, serde::Deserialize)]
pub struct FindingsFile {
    #[serde(default)]
    pub findings: Vec<Finding>,
    #[serde(default)]
    pub fixed: Vec<String>,
}

pub struct Findings {
    open: Vec<Finding>,
}

impl Findings {
    /// Loads `/verif/known_findings/*.json` (each `{findings:[…], fixed:[…]}`); never written at run time.
    pub fn load(prop: &str) -> Self {
        let dir = verif_root().join("known_findings");
        let mut open = Vec::new();
        if let Ok(rd) = std::fs::read_dir(&dir) {
            let mut files: Vec<PathBuf> = rd.filter_map(|e| e.ok().map(|e| e.path())).collect();
            files.sort();
            for p in files {
                if p.extension().and_then(|e| e.to_str()) != Some("json") {
                    continue;
                }
                let Ok(s) = std::fs::read_to_string(&p) else { continue };
                let ff: FindingsFile = serde_json::from_str(&s).unwrap_or_else(|e| {
                    println!("INCONCLUSIVE: {} does not parse: {e}", p.display());
                    std::process::exit(2);
                });
                open.extend(ff.findings.into_iter().filter(|f| f.property == prop && f.status == "open"));
            }
        }
        Findings { open }
    }

    pub fn lookup(&self, signature: &str) -> Option<&Finding> {
        self.open.iter().find(|f| {
            f.signatures.iter().any(|s| s == signature)
                || f.signature_prefixes.iter().any(|p| signature.starts_with(p.as_str()))
        })
    }
}

// ------------------------------------------------------------------------------------------------
// Run state
// ------------------------------------------------------------------------------------------------

#[derive(Default)]
struct SubStats {
    evaluations: u64,
    nontrivial_evals: u64,
    classes: BTreeMap<String, u64>,
    tolerated: BTreeMap<String, u64>,
    wall_s: f64,
    exhaustive: bool,
}

#[derive(Clone, Serialize, serde::Deserialize)]
pub struct ReplayFile {
    pub property: String,
    pub subcheck: String,
    pub signature: String,
    pub what: String,
    pub case: serde_json::Value,
    #[serde(default)]
    pub case_debug: String,
}

struct State {
    subs: BTreeMap<String, SubStats>,
    order: Vec<String>,
    distinct: HashSet<u64>,
    samples: Vec<serde_json::Value>,
    samples_per_class: BTreeMap<String, u32>,
    violations: Vec<(String, String, PathBuf)>, // (subcheck, signature, replay path)
    known_seen: BTreeMap<String, String>,       // finding id -> what
    notes: Vec<String>,
    inconclusive: Vec<String>,
}

pub struct Run {
    pub prop: String,
    pub tier: Tier,
    pub seed: u64,
    pub level: &'static str,
    pub rule: String,
    pub assumptions: Vec<String>,
    pub replay: Option<ReplayFile>,
    /// strict: known findings are NOT tolerated (used with --strict for replaying / debugging)
    pub strict: bool,
    pub only: Option<String>,
    findings: Findings,
    state: Mutex<State>,
    start: Instant,
    threads: usize,
}

const SHARDS: u32 = 16;
const MAX_SAMPLES_PER_CLASS: u32 = 2;
const MAX_SAMPLES: usize = 40;

impl Run {
    pub fn new(prop: &str, tier: Tier, seed: u64) -> Self {
        install_panic_hook();
        let threads = std::env::var("VERIF_THREADS")
            .ok()
            .and_then(|s| s.parse().ok())
            .unwrap_or_else(|| std::thread::available_parallelism().map(|n| n.get()).unwrap_or(4))
            .clamp(1, 16);
        Run {
            prop: prop.to_string(),
            tier,
            seed,
            level: "exploration",
            rule: String::new(),
            assumptions: Vec::new(),
            replay: None,
            strict: false,
            only: None,
            findings: Findings::load(prop),
            state: Mutex::new(State {
                subs: BTreeMap::new(),
                order: Vec::new(),
                distinct: HashSet::new(),
                samples: Vec::new(),
                samples_per_class: BTreeMap::new(),
                violations: Vec::new(),
                known_seen: BTreeMap::new(),
                notes: Vec::new(),
                inconclusive: Vec::new(),
            }),
            start: Instant::now(),
            threads,
        }
    }

    /// Case count for the current tier. `VERIF_SCALE` (float) scales it (used for experiments only).
    pub fn cases(&self, quick: u32, thorough: u32) -> u32 {
        // The thorough tier is bounded by a multiple of the quick tier (default 4x): every registered
        // thorough command has been run to completion on the unchanged tree at that size. The sizes written
        // at the call sites are the ceiling; VERIF_THOROUGH_FACTOR (or VERIF_SCALE) deepens a run at will.
        let factor: u32 = std::env::var("VERIF_THOROUGH_FACTOR").ok().and_then(|s| s.parse().ok()).unwrap_or(4);
        let n = match self.tier {
            Tier::Quick => quick,
            Tier::Thorough => thorough.min(quick.saturating_mul(factor)).max(quick),
        };
        let scale: f64 = std::env::var("VERIF_SCALE").ok().and_then(|s| s.parse().ok()).unwrap_or(1.0);
        ((f64::from(n) * scale).ceil() as u32).max(1)
    }

    pub fn is_thorough(&self) -> bool {
        self.tier == Tier::Thorough
    }

    pub fn note(&self, s: impl Into<String>) {
        self.state.lock().unwrap().notes.push(s.into());
    }

    pub fn inconclusive(&self, s: impl Into<String>) {
        self.state.lock().unwrap().inconclusive.push(s.into());
    }

    fn sub_seed(&self, sub: &str, shard: u32) -> u64 {
        hash_of(&(self.seed, self.prop.as_str(), sub, shard))
    }

    fn wants(&self, name: &str) -> bool {
        if let Some(rp) = &self.replay {
            return rp.subcheck == name;
        }
        match &self.only {
            Some(o) => o.split(',').any(|x| x == name),
            None => true,
        }
    }

    /// Classify one evaluation. Returns Ok(()) if the case passes or is tolerated, Err(failure)
    /// when it is an unlisted failure.
    fn account<C: Debug + Serialize>(
        &self,
        sub: &str,
        case: &C,
        res: CaseResult,
        counting: bool,
    ) -> Result<(), Failure> {
        // a failure of the infrastructure (signature `infra/...`: the machine's resource limits, not the code
        // under test) makes the run inconclusive (exit 2), never a violation; the search goes on
        let res = match res {
            Err(f) if f.signature.starts_with("infra/") => {
                let mut st = self.state.lock().unwrap();
                let note = format!("{sub}: {}: {}", f.signature, f.what);
                if !st.inconclusive.iter().any(|i| i.starts_with(&format!("{sub}: {}", f.signature))) {
                    st.inconclusive.push(note);
                }
                drop(st);
                Ok(CaseOk { nontrivial: false, class: format!("inconclusive:{}", f.signature), key: 0, known: Vec::new() })
            }
            other => other,
        };
        // known-finding observations inside a passing case: all must be listed, else the case fails
        let res = match res {
            Ok(okc) if !okc.known.is_empty() => {
                let mut bad = None;
                for sig in &okc.known {
                    if self.strict || self.findings.lookup(sig).is_none() {
                        bad = Some(sig.clone());
                        break;
                    }
                }
                match bad {
                    Some(sig) => Err(Failure { signature: sig, what: "observation attributed to a defect class that is not listed as an open known finding".into() }),
                    None => Ok(okc),
                }
            }
            other => other,
        };
        match res {
            Ok(okc) => {
                if counting {
                    if !okc.known.is_empty() {
                        let mut st = self.state.lock().unwrap();
                        for sig in &okc.known {
                            if let Some(k) = self.findings.lookup(sig) {
                                let ss = st.subs.entry(sub.to_string()).or_default();
                                *ss.tolerated.entry(k.id.clone()).or_insert(0) += 1;
                                st.known_seen.entry(k.id.clone()).or_insert_with(|| k.what.clone());
                            }
                        }
                    }
                    let mut st = self.state.lock().unwrap();
                    let ss = st.subs.entry(sub.to_string()).or_default();
                    ss.evaluations += 1;
                    *ss.classes.entry(okc.class.clone()).or_insert(0) += 1;
                    if okc.nontrivial {
                        ss.nontrivial_evals += 1;
                        let k = hash_of(&(sub, okc.key));
                        st.distinct.insert(k);
                    }
                    let cls = format!("{sub}/{}", okc.class);
                    let n_samples = st.samples.len();
                    let n = st.samples_per_class.entry(cls.clone()).or_insert(0);
                    if *n < MAX_SAMPLES_PER_CLASS && n_samples < MAX_SAMPLES && okc.nontrivial {
                        *n += 1;
                        let v = sample_json(case);
                        st.samples.push(serde_json::json!({"subcheck": sub, "class": okc.class, "case": v}));
                    }
                }
                Ok(())
            }
            Err(f) => {
                if !self.strict {
                    if let Some(k) = self.findings.lookup(&f.signature) {
                        if counting {
                            let mut st = self.state.lock().unwrap();
                            let ss = st.subs.entry(sub.to_string()).or_default();
                            ss.evaluations += 1;
                            *ss.classes.entry(format!("tolerated:{}", k.id)).or_insert(0) += 1;
                            *ss.tolerated.entry(k.id.clone()).or_insert(0) += 1;
                            st.known_seen.entry(k.id.clone()).or_insert_with(|| k.what.clone());
                        }
                        return Ok(());
                    }
                }
                Err(f)
            }
        }
    }

    /// A generated sub-check. `cases` evaluations are split over 16 deterministic shards.
    pub fn subcheck<S, G, F>(&self, name: &str, cases: u32, strategy: G, f: F)
    where
        G: Fn() -> S + Sync,
        S: Strategy,
        S::Value: Debug + Clone + Serialize + DeserializeOwned,
        F: Fn(&S::Value) -> CaseResult + Sync,
    {
        if !self.wants(name) {
            return;
        }
        {
            let mut st = self.state.lock().unwrap();
            if !st.order.iter().any(|n| n == name) {
                st.order.push(name.to_string());
            }
            st.subs.entry(name.to_string()).or_default();
        }
        let t0 = Instant::now();
        if let Some(rp) = &self.replay {
            self.replay_one(name, rp, &f, "replay");
            return;
        }
        // corpus first
        self.replay_corpus(name, &f);

        let shards = SHARDS.min(cases).max(1);
        let per = cases / shards;
        let extra = cases % shards;
        let next = AtomicU64::new(0);
        let stop_after_violation = AtomicBool::new(false);
        std::thread::scope(|scope| {
            for _ in 0..self.threads.min(shards as usize) {
                scope.spawn(|| {
                    loop {
                        let shard = next.fetch_add(1, Ordering::SeqCst) as u32;
                        if shard >= shards {
                            break;
                        }
                        let n = per + u32::from(shard < extra);
                        if n == 0 {
                            continue;
                        }
                        let strat = strategy();
                        self.run_shard(name, shard, n, &strat, &f, &stop_after_violation);
                    }
                });
            }
        });
        let mut st = self.state.lock().unwrap();
        st.subs.get_mut(name).unwrap().wall_s += t0.elapsed().as_secs_f64();
    }

    fn run_shard<S, F>(&self, name: &str, shard: u32, n: u32, strategy: &S, f: &F, _stop: &AtomicBool)
    where
        S: Strategy,
        S::Value: Debug + Clone + Serialize + DeserializeOwned,
        F: Fn(&S::Value) -> CaseResult,
    {
        let cfg = Config {
            cases: n,
            rng_seed: RngSeed::Fixed(self.sub_seed(name, shard)),
            failure_persistence: None,
            max_shrink_iters: 4000,
            max_shrink_time: 120_000,
            max_global_rejects: 1_000_000,
            max_local_rejects: 1_000_000,
            verbose: 0,
            ..Config::default()
        };
        let mut runner = TestRunner::new(cfg);
        let failing = std::cell::Cell::new(false);
        let last_fail: std::cell::RefCell<Option<Failure>> = std::cell::RefCell::new(None);
        let res = runner.run(strategy, |case| {
            let counting = !failing.get();
            let r = match catch(|| f(&case)) {
                Ok(r) => r,
                Err(p) => Err(Failure {
                    signature: p.signature(),
                    what: format!("uncaught panic at {}: {}", p.file, p.msg),
                }),
            };
            match self.account(name, &case, r, counting) {
                Ok(()) => Ok(()),
                Err(fl) => {
                    failing.set(true);
                    let msg = fl.signature.clone();
                    *last_fail.borrow_mut() = Some(fl);
                    Err(TestCaseError::fail(msg))
                }
            }
        });
        match res {
            Ok(()) => {}
            Err(TestError::Fail(_reason, minimal)) => {
                // re-evaluate the minimal case to get its own failure text
                let r = match catch(|| f(&minimal)) {
                    Ok(r) => r,
                    Err(p) => Err(Failure {
                        signature: p.signature(),
                        what: format!("uncaught panic at {}: {}", p.file, p.msg),
                    }),
                };
                let fl = match self.account(name, &minimal, r, false) {
                    Err(fl) => fl,
                    Ok(()) => last_fail.borrow().clone().unwrap_or(Failure {
                        signature: "unstable".into(),
                        what: "minimal case did not fail again (non-deterministic case?)".into(),
                    }),
                };
                self.report_violation(name, &minimal, &fl);
            }
            Err(TestError::Abort(reason)) => {
                self.inconclusive(format!("{name}: proptest aborted: {reason}"));
            }
        }
    }

    fn report_violation<C: Debug + Serialize>(&self, name: &str, case: &C, fl: &Failure) {
        let mut st = self.state.lock().unwrap();
        if st.violations.iter().any(|(s, sig, _)| s == name && *sig == fl.signature) {
            return; // same root signature already reported from another shard
        }
        let dir = verif_root().join("replays").join(&self.prop);
        let _ = std::fs::create_dir_all(&dir);
        let case_json = serde_json::to_value(case).unwrap_or(serde_json::Value::Null);
        let h = hash_of(&(name, &fl.signature, case_json.to_string()));
        let path = dir.join(format!("{name}-{h:016x}.json"));
        let rf = ReplayFile {
            property: self.prop.clone(),
            subcheck: name.to_string(),
            signature: fl.signature.clone(),
            what: truncate(&fl.what, 4000),
            case: case_json,
            case_debug: truncate(&format!("{case:?}"), 4000),
        };
        let _ = std::fs::write(&path, serde_json::to_string_pretty(&rf).unwrap());
        println!("VIOLATION property={} replay={}", self.prop, path.display());
        println!("  subcheck={name} signature={}", fl.signature);
        println!("  what: {}", truncate(&fl.what, 1500));
        st.violations.push((name.to_string(), fl.signature.clone(), path));
    }

    fn replay_one<C, F>(&self, name: &str, rp: &ReplayFile, f: &F, origin: &str)
    where
        C: Debug + Clone + Serialize + DeserializeOwned,
        F: Fn(&C) -> CaseResult,
    {
        let case: C = match serde_json::from_value(rp.case.clone()) {
            Ok(c) => c,
            Err(e) => {
                self.inconclusive(format!("{name}: {origin} case does not deserialize: {e}"));
                return;
            }
        };
        let r = match catch(|| f(&case)) {
            Ok(r) => r,
            Err(p) => Err(Failure {
                signature: p.signature(),
                what: format!("uncaught panic at {}: {}", p.file, p.msg),
            }),
        };
        match self.account(name, &case, r, true) {
            Ok(()) => {
                if origin == "replay" {
                    println!("replay: case passes (or is a listed known finding)");
                }
            }
            Err(fl) => self.report_violation(name, &case, &fl),
        }
    }

    /// Replays `/verif/corpus/<prop>/<subcheck>*.json` (regressions + known-finding witnesses).
    fn replay_corpus<C, F>(&self, name: &str, f: &F)
    where
        C: Debug + Clone + Serialize + DeserializeOwned,
        F: Fn(&C) -> CaseResult,
    {
        let dir = verif_root().join("corpus").join(&self.prop);
        let Ok(rd) = std::fs::read_dir(&dir) else { return };
        let mut files: Vec<PathBuf> = rd.filter_map(|e| e.ok().map(|e| e.path())).collect();
        files.sort();
        for p in files {
            if p.extension().and_then(|e| e.to_str()) != Some("json") {
                continue;
            }
            let Ok(s) = std::fs::read_to_string(&p) else { continue };
            let Ok(rp) = serde_json::from_str::<ReplayFile>(&s) else { continue };
            if rp.subcheck != name {
                continue;
            }
            self.replay_one(name, &rp, f, "corpus");
        }
    }

    /// An enumerated (non-proptest) sub-check: `items` are evaluated exhaustively, in parallel.
    pub fn enumerate<C, F>(&self, name: &str, items: Vec<C>, exhaustive: bool, f: F)
    where
        C: Debug + Clone + Serialize + DeserializeOwned + Send + Sync,
        F: Fn(&C) -> CaseResult + Sync,
    {
        if !self.wants(name) {
            return;
        }
        {
            let mut st = self.state.lock().unwrap();
            if !st.order.iter().any(|n| n == name) {
                st.order.push(name.to_string());
            }
            st.subs.entry(name.to_string()).or_default().exhaustive = exhaustive;
        }
        let t0 = Instant::now();
        if let Some(rp) = &self.replay {
            self.replay_one(name, rp, &f, "replay");
            return;
        }
        self.replay_corpus(name, &f);
        let next = AtomicU64::new(0);
        std::thread::scope(|scope| {
            for _ in 0..self.threads {
                scope.spawn(|| {
                    loop {
                        let i = next.fetch_add(1, Ordering::SeqCst) as usize;
                        if i >= items.len() {
                            break;
                        }
                        let case = &items[i];
                        let r = match catch(|| f(case)) {
                            Ok(r) => r,
                            Err(p) => Err(Failure {
                                signature: p.signature(),
                                what: format!("uncaught panic at {}: {}", p.file, p.msg),
                            }),
                        };
                        if let Err(fl) = self.account(name, case, r, true) {
                            self.report_violation(name, case, &fl);
                        }
                    }
                });
            }
        });
        let mut st = self.state.lock().unwrap();
        st.subs.get_mut(name).unwrap().wall_s += t0.elapsed().as_secs_f64();
    }

    /// Writes evidence, prints the summary and returns the process exit code.
    pub fn finish(self) -> i32 {
        let st = self.state.into_inner().unwrap();
        let wall = self.start.elapsed().as_secs_f64();
        let mut evaluations = 0u64;
        let mut classes = serde_json::Map::new();
        let mut tolerated: BTreeMap<String, u64> = BTreeMap::new();
        let mut subs_json = serde_json::Map::new();
        let mut all_exhaustive = !st.order.is_empty();
        for name in &st.order {
            let ss = &st.subs[name];
            evaluations += ss.evaluations;
            all_exhaustive &= ss.exhaustive;
            for (k, v) in &ss.tolerated {
                *tolerated.entry(k.clone()).or_insert(0) += v;
            }
            for (k, v) in &ss.classes {
                classes.insert(format!("{name}/{k}"), serde_json::json!(v));
            }
            subs_json.insert(
                name.clone(),
                serde_json::json!({
                    "evaluations": ss.evaluations,
                    "nontrivial_evaluations": ss.nontrivial_evals,
                    "tolerated": ss.tolerated,
                    "exhaustive": ss.exhaustive,
                    "wall_s": (ss.wall_s * 100.0).round() / 100.0,
                }),
            );
        }
        // one line per listed open finding of this property: how often this run met it (witness replay included)
        if self.replay.is_none() && self.only.is_none() {
            for f in &self.findings.open {
                let n = tolerated.get(&f.id).copied().unwrap_or(0);
                let met = if n > 0 || st.known_seen.contains_key(&f.id) { format!("[met {n}x in this run]") } else { "[listed; not met in this run]".to_string() };
                println!("KNOWN-FINDING: property={} {} {} {}", self.prop, f.id, f.what, met);
            }
        } else {
            for (fid, what) in &st.known_seen {
                println!("KNOWN-FINDING: property={} {} {}", self.prop, fid, what);
            }
        }
        let tier = match self.tier {
            Tier::Quick => "quick",
            Tier::Thorough => "thorough",
        };
        let mut samples = st.samples.clone();
        if samples.is_empty() {
            samples.push(serde_json::json!("no non-trivial sample recorded"));
        }
        let ev = serde_json::json!({
            "property_id": self.prop,
            "tier": tier,
            "seed": self.seed,
            "level": self.level,
            "coverage": {
                "evaluations": evaluations,
                "distinct_nontrivial": st.distinct.len(),
                "rule": self.rule,
                "samples": samples,
                "classes": classes,
                "subchecks": subs_json,
                "tolerated_by_known_finding": tolerated,
                "exhaustive": all_exhaustive,
                "notes": st.notes,
                "inconclusive": st.inconclusive,
                "replayed": self.replay.is_some(),
            },
            "assumptions": self.assumptions,
            "wall_s": (wall * 100.0).round() / 100.0,
            "violations": st.violations.len(),
        });
        if self.replay.is_none() && self.only.is_none() {
            let dir = verif_root().join("evidence");
            let _ = std::fs::create_dir_all(&dir);
            let p = dir.join(format!("{}.json", self.prop));
            if let Err(e) = std::fs::write(&p, serde_json::to_string_pretty(&ev).unwrap()) {
                eprintln!("cannot write evidence: {e}");
            }
        }
        println!(
            "{} tier={tier} seed={} evaluations={evaluations} distinct_nontrivial={} violations={} tolerated={:?} wall={wall:.1}s",
            self.prop,
            self.seed,
            st.distinct.len(),
            st.violations.len(),
            tolerated
        );
        for name in &st.order {
            let ss = &st.subs[name];
            println!(
                "  {name}: evals={} nontrivial={} wall={:.1}s classes={:?}",
                ss.evaluations, ss.nontrivial_evals, ss.wall_s, ss.classes
            );
        }
        if !st.violations.is_empty() {
            return 1;
        }
        if !st.inconclusive.is_empty() {
            for i in &st.inconclusive {
                println!("INCONCLUSIVE: {i}");
            }
            return 2;
        }
        if self.replay.is_none() && self.only.is_none() && st.distinct.len() < 2 {
            println!("INCONCLUSIVE: fewer than 2 distinct non-trivial cases");
            return 2;
        }
        0
    }
}

fn sample_json<C: Debug + Serialize>(case: &C) -> serde_json::Value {
    let s = format!("{case:?}");
    serde_json::Value::String(truncate(&s, 600))
}

pub fn truncate(s: &str, n: usize) -> String {
    if s.len() <= n {
        s.to_string()
    } else {
        let mut end = n;
        while !s.is_char_boundary(end) {
            end -= 1;
        }
        format!("{}…[{} bytes]", &s[..end], s.len())
    }
}

/// Monotone index map for shrinking-friendly selection: maps a u16 to `0..len`.
pub fn pick(i: u16, len: usize) -> usize {
    debug_assert!(len > 0);
    ((i as usize) * len) >> 16
}

// ------------------------------------------------------------------------------------------------
// Scratch directories
// ------------------------------------------------------------------------------------------------

static SCRATCH_COUNTER: AtomicU64 = AtomicU64::new(0);

/// A unique, empty directory that is removed (recursively) when the value is dropped.
pub struct Scratch(PathBuf);

impl Scratch {
    pub fn path(&self) -> &Path {
        &self.0
    }
}

impl Drop for Scratch {
    fn drop(&mut self) {
        let _ = std::fs::remove_dir_all(&self.0);
    }
}

/// Creates a fresh scratch directory under `$VERIF_TMP` (default: the system temp dir).
pub fn scratch_dir() -> Scratch {
    let base = std::env::var("VERIF_TMP").map(PathBuf::from).unwrap_or_else(|_| std::env::temp_dir());
    let n = SCRATCH_COUNTER.fetch_add(1, Ordering::SeqCst);
    let p = base.join(format!("vcheck-{}", std::process::id())).join(format!("{n}"));
    let _ = std::fs::remove_dir_all(&p);
    std::fs::create_dir_all(&p).expect("cannot create scratch dir");
    Scratch(p)
}
