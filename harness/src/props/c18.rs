//! C18 — not built yet.

use crate::driver::Run;

pub fn run(r: &mut Run) {
    r.inconclusive("C18: check not built yet");
}
