//! C15 — every compression codec is lossless (round-trips, random access = full decode,
//! to_bytes/from_bytes = id, compressed = uncompressed property reads).

use proptest::prelude::*;

use grafeo_core::storage::{BitPackedInts, DeltaBitPacked, DeltaEncoding};

use crate::driver::{Run, fail, guard, hash_of, ok};

/// u64 values biased to extremes and to widths 0..=64 bits.
pub fn u64_value() -> impl Strategy<Value = u64> {
    prop_oneof![
        3 => (0u32..=64).prop_flat_map(|w| {
            if w == 0 { Just(0u64).boxed() } else if w == 64 { any::<u64>().boxed() } else { (0u64..(1u64 << w)).boxed() }
        }),
        1 => Just(0u64),
        1 => Just(u64::MAX),
        1 => Just(u64::MAX - 1),
        1 => Just(1u64 << 63),
        1 => Just(i64::MAX as u64),
        2 => 0u64..16,
    ]
}

/// Lengths biased to 0, 1 and the 63/64/65/127/128/129 boundaries.
pub fn seq_len() -> impl Strategy<Value = usize> {
    prop_oneof![
        1 => Just(0usize), 1 => Just(1usize), 1 => Just(2usize),
        2 => prop_oneof![Just(63usize), Just(64), Just(65), Just(127), Just(128), Just(129)],
        6 => 0usize..40,
        1 => 40usize..300,
    ]
}

pub fn u64_seq() -> impl Strategy<Value = Vec<u64>> {
    seq_len().prop_flat_map(|n| {
        prop_oneof![
            4 => proptest::collection::vec(u64_value(), n),
            1 => u64_value().prop_map(move |v| vec![v; n]),
            2 => proptest::collection::vec(0u64..4, n),
        ]
    })
}

pub fn sorted_u64_seq() -> impl Strategy<Value = Vec<u64>> {
    u64_seq().prop_map(|mut v| {
        v.sort_unstable();
        v
    })
}

fn nontrivial_u64(v: &[u64]) -> bool {
    (v.len() >= 2 && v.iter().any(|x| *x != v[0])) || v.iter().any(|x| *x >= (1u64 << 63) || *x == 0 && v.len() == 1)
}

pub fn run(r: &mut Run) {
    r.level = "exploration";
    r.rule = "sequences generated per codec (lengths biased to 0/1/63/64/65/127/128/129, bit widths 0..=64, extremes); \
              non-trivial = length >= 2 and not all-equal, or an extreme value present; distinct by hash of (sub-check, sequence)"
        .into();
    r.assumptions.push("DeltaEncoding::encode / DeltaBitPacked::encode are only given sorted input (documented precondition)".into());

    r.subcheck("bitpack", r.cases(20_000, 1_000_000), u64_seq, |v: &Vec<u64>| {
        let p = guard("pack", || BitPackedInts::pack(v))?;
        let dec = guard("unpack", || p.unpack())?;
        if dec != *v {
            return fail("c15/bitpack/roundtrip", format!("{v:?} -> {dec:?}"));
        }
        if p.len() != v.len() {
            return fail("c15/bitpack/len", format!("{v:?}: len {}", p.len()));
        }
        for (i, x) in v.iter().enumerate() {
            let g = guard("get", || p.get(i))?;
            if g != Some(*x) {
                return fail("c15/bitpack/get", format!("{v:?}: get({i}) = {g:?}"));
            }
        }
        if guard("get", || p.get(v.len()))?.is_some() {
            return fail("c15/bitpack/get-oob", format!("{v:?}: get(len) is Some"));
        }
        let bytes = guard("to_bytes", || p.to_bytes())?;
        match guard("from_bytes", || BitPackedInts::from_bytes(&bytes))? {
            Ok(q) => {
                if q.unpack() != *v {
                    return fail("c15/bitpack/bytes", format!("{v:?} -> {:?}", q.unpack()));
                }
            }
            Err(e) => return fail("c15/bitpack/bytes-err", format!("{v:?}: {e}")),
        }
        ok(nontrivial_u64(v), "seq", hash_of(v))
    });

    r.subcheck("delta_unsigned", r.cases(20_000, 1_000_000), sorted_u64_seq, |v: &Vec<u64>| {
        let e = guard("encode", || DeltaEncoding::encode(v))?;
        let dec = guard("decode", || e.decode())?;
        if dec != *v {
            return fail("c15/delta/roundtrip", format!("{v:?} -> {dec:?}"));
        }
        let bytes = guard("to_bytes", || e.to_bytes())?;
        match guard("from_bytes", || DeltaEncoding::from_bytes(&bytes))? {
            Ok(q) => {
                if q.decode() != *v {
                    return fail("c15/delta/bytes", format!("{v:?} -> {:?}", q.decode()));
                }
            }
            Err(er) => return fail("c15/delta/bytes-err", format!("{v:?}: {er}")),
        }
        ok(nontrivial_u64(v), "sorted", hash_of(v))
    });

    r.subcheck("delta_bitpacked", r.cases(20_000, 1_000_000), sorted_u64_seq, |v: &Vec<u64>| {
        let e = guard("encode", || DeltaBitPacked::encode(v))?;
        let dec = guard("decode", || e.decode())?;
        if dec != *v {
            let sig = if v.iter().all(|x| *x == 0) && v.len() == 1 { "c15/delta_bitpacked/[0]" } else { "c15/delta_bitpacked/roundtrip" };
            return fail(sig, format!("{v:?} -> {dec:?}"));
        }
        if e.len() != v.len() {
            return fail("c15/delta_bitpacked/len", format!("{v:?}: len {}", e.len()));
        }
        ok(nontrivial_u64(v), "sorted", hash_of(v))
    });
}
