//! C11 — query results obey the algebra of predicates, limits and aggregates (metamorphic).
//!
//! No reference evaluator decides anything here: every oracle is a relation between the engine's own
//! answers to related queries on the same database. The small three-valued evaluator in `spec.rs` is
//! used only to (a) decide whether the two-way partition is sound for a language that cannot express
//! the unknown part, (b) classify a failure narrowly (known-finding signatures), (c) non-triviality.

pub mod render;
pub mod spec;

use std::collections::BTreeMap;

use proptest::prelude::*;
use serde::{Deserialize, Serialize};

use grafeo_common::types::Value;
use grafeo_core::graph::rdf::{Term, Triple};
use grafeo_engine::GrafeoDB;

use crate::driver::{CaseResult, Failure, Run, fail, guard, hash_of, ok};

use render::*;
use spec::*;

// ------------------------------------------------------------------------------------------------
// Database construction and execution
// ------------------------------------------------------------------------------------------------

fn build(g: &GraphSpec, lang: Lang) -> Result<GrafeoDB, Failure> {
    guard("build", || {
        let db = GrafeoDB::new_in_memory();
        if lang == Lang::Sparql {
            let st = db.rdf_store();
            for i in 0..g.len() {
                let n = g.node(i);
                let s = Term::iri(format!("{EX}n{i}"));
                let put = |p: &str, o: Term| {
                    st.insert(Triple::new(s.clone(), Term::iri(format!("{EX}{p}")), o));
                };
                let int = |v: i64| Term::typed_literal(v.to_string(), "http://www.w3.org/2001/XMLSchema#integer");
                put("pk", int(i as i64));
                put("pa", int(i64::from(n.a)));
                if let Some(x) = n.x {
                    put("px", int(i64::from(x)));
                }
                put("ps", Term::literal(STR_POOL[n.s as usize % 8]));
                if let Some(t) = n.t {
                    put("pt", Term::literal(STR_POOL[t as usize % 8]));
                }
                put("pd", int(i64::from(n.d)));
                put("pf", Term::typed_literal(format!("{:.1}", f64::from(n.f) / 2.0), "http://www.w3.org/2001/XMLSchema#double"));
            }
        } else {
            let mut ids = Vec::with_capacity(g.len());
            for i in 0..g.len() {
                let n = g.node(i);
                let mut props: Vec<(&str, Value)> = vec![
                    ("pk", Value::Int64(i as i64)),
                    ("pa", Value::Int64(i64::from(n.a))),
                    ("ps", Value::String(STR_POOL[n.s as usize % 8].into())),
                    ("pd", Value::Int64(i64::from(n.d))),
                    ("pf", Value::Float64(f64::from(n.f) / 2.0)),
                ];
                if let Some(x) = n.x {
                    props.push(("px", Value::Int64(i64::from(x))));
                }
                if let Some(t) = n.t {
                    props.push(("pt", Value::String(STR_POOL[t as usize % 8].into())));
                }
                ids.push(db.create_node_with_props(&["Item"], props));
            }
            for (a, b) in g.edges() {
                db.create_edge(ids[a], ids[b], "R");
            }
        }
        db
    })
}

fn canon(v: &Value) -> String {
    match v {
        Value::Null => "null".into(),
        Value::Bool(b) => format!("{b}"),
        Value::Int64(i) => format!("{i}"),
        Value::Float64(f) => format!("{f:?}"),
        Value::String(s) => format!("\"{}\"", s.as_str()),
        other => format!("{other:?}"),
    }
}

type Rows = Vec<Vec<String>>;

/// Ok(Ok(rows)) | Ok(Err(engine error text)) | Err(panic).
fn exec(db: &GrafeoDB, lang: Lang, q: &str) -> Result<Result<Rows, String>, Failure> {
    let r = guard(&format!("{}: {q}", lang.name()), || {
        let s = db.session();
        match lang {
            Lang::Gql => s.execute(q),
            Lang::Cypher => s.execute_cypher(q),
            Lang::Gremlin => s.execute_gremlin(q),
            Lang::GraphQL => s.execute_graphql(q),
            Lang::Sparql => s.execute_sparql(q),
        }
    })?;
    Ok(match r {
        Ok(res) => Ok(res.rows.iter().map(|row| row.iter().map(canon).collect()).collect()),
        Err(e) => {
            if std::env::var_os("C11_TRACE").is_some() {
                eprintln!("TRACE {} ERR {e} <= {q}", lang.name());
            }
            Err(format!("{e}"))
        }
    })
}

fn sorted(mut r: Rows) -> Rows {
    r.sort();
    r
}

/// Multiset difference a − b (both sorted).
fn msub(a: &Rows, b: &Rows) -> Rows {
    let mut cnt: BTreeMap<&Vec<String>, i64> = BTreeMap::new();
    for r in b {
        *cnt.entry(r).or_insert(0) += 1;
    }
    let mut out = Vec::new();
    for r in a {
        match cnt.get_mut(r) {
            Some(c) if *c > 0 => *c -= 1,
            _ => out.push(r.clone()),
        }
    }
    out
}

fn show(r: &Rows) -> String {
    let v: Vec<String> = r.iter().take(12).map(|x| x.join(",")).collect();
    format!("[{}{}] ({} rows)", v.join(" | "), if r.len() > 12 { " …" } else { "" }, r.len())
}

/// The canonical id row the engine returns for base row (n, m) in `lang`.
fn id_row(lang: Lang, n: usize, m: Option<usize>) -> Vec<String> {
    let one = |k: usize| if lang == Lang::Sparql { format!("\"{k}\"") } else { format!("{k}") };
    match m {
        None => vec![one(n)],
        Some(m) => vec![one(n), one(m)],
    }
}

fn lang_strategy() -> impl Strategy<Value = Lang> {
    prop_oneof![
        3 => Just(Lang::Cypher),
        3 => Just(Lang::Gql),
        2 => Just(Lang::Sparql),
        1 => Just(Lang::Gremlin),
        1 => Just(Lang::GraphQL),
    ]
}

fn size_class(g: &GraphSpec) -> &'static str {
    if g.len() > 2048 { "big" } else { "small" }
}

// ------------------------------------------------------------------------------------------------
// Query construction shared by the sub-checks: "base query with an optional predicate part,
// returning the id columns" in each language.
// ------------------------------------------------------------------------------------------------

/// Which part of the three-way partition.
#[derive(Clone, Copy, PartialEq, Eq, Debug)]
enum Part {
    All,
    True,
    False,
    Unknown,
}

/// Pieces of a filtered base query in a language, so that sub-checks can wrap them differently.
struct Filtered {
    /// GQL/Cypher: "MATCH … [WHERE …]"; Gremlin: "g.V().hasLabel('Item')[.has(…)]";
    /// GraphQL: argument list content; SPARQL: group graph pattern content.
    body: String,
}

/// None = the language cannot express this part for this predicate.
fn filtered(lang: Lang, base: Base, p: Option<&Pred>, part: Part) -> Option<Filtered> {
    let p = match (p, part) {
        (None, Part::All) | (Some(_), Part::All) => None,
        (Some(p), _) => Some(p),
        (None, _) => return None,
    };
    match lang {
        Lang::Gql | Lang::Cypher => {
            let m = cy_match(base);
            let body = match (p, part) {
                (None, _) => m.to_string(),
                (Some(p), Part::True) => format!("{m} WHERE {}", cy_pred(p)),
                (Some(p), Part::False) => format!("{m} WHERE NOT ({})", cy_pred(p)),
                (Some(p), Part::Unknown) => format!("{m} WHERE ({}) IS NULL", cy_pred(p)),
                (Some(_), Part::All) => unreachable!(),
            };
            Some(Filtered { body })
        }
        Lang::Gremlin => {
            if base != Base::Scan {
                return None;
            }
            let src = "g.V().hasLabel('Item')";
            let body = match (p, part) {
                (None, _) => src.to_string(),
                (Some(p), part) => {
                    let f = gremlin_forms(p)?;
                    match part {
                        Part::True => format!("{src}{}", f.t),
                        Part::False => format!("{src}{}", f.f),
                        Part::Unknown => {
                            if !f.nullable {
                                return None;
                            }
                            format!("{src}.hasNot('{}')", f.prop)
                        }
                        Part::All => unreachable!(),
                    }
                }
            };
            Some(Filtered { body })
        }
        Lang::GraphQL => {
            if base != Base::Scan {
                return None;
            }
            let body = match (p, part) {
                (None, _) => String::new(),
                (Some(p), part) => {
                    let f = graphql_forms(p)?;
                    match part {
                        Part::True => f.t,
                        Part::False => f.f,
                        Part::Unknown => return None,
                        Part::All => unreachable!(),
                    }
                }
            };
            Some(Filtered { body })
        }
        Lang::Sparql => {
            if base != Base::Scan {
                return None;
            }
            let body = match (p, part) {
                (None, _) => sp_pattern(&[], None),
                (Some(p), part) => {
                    let mut props = Vec::new();
                    pred_props(p, &mut props);
                    if props.iter().any(|x| x.0 != Var::N) {
                        return None;
                    }
                    let text = sp_pred(p)?;
                    match part {
                        Part::True => sp_pattern(&props, Some(&text)),
                        Part::False => sp_pattern(&props, Some(&format!("!({text})"))),
                        Part::Unknown => {
                            let v = strict_unknown_set(p)?;
                            if v.len() != 1 {
                                return None;
                            }
                            let var = format!("?n{}", &v[0].1[1..]);
                            sp_pattern(&props, Some(&format!("!BOUND({var})")))
                        }
                        Part::All => unreachable!(),
                    }
                }
            };
            Some(Filtered { body })
        }
    }
}

/// Query returning the id column(s) of the filtered base query.
fn ids_query(lang: Lang, base: Base, f: &Filtered) -> String {
    match lang {
        Lang::Gql | Lang::Cypher => format!("{} RETURN {}", f.body, cy_ids(base)),
        Lang::Gremlin => format!("{}.values('pk')", f.body),
        Lang::GraphQL => {
            if f.body.is_empty() {
                "{ item { pk } }".to_string()
            } else {
                format!("{{ item({}) {{ pk }} }}", f.body)
            }
        }
        Lang::Sparql => format!("SELECT ?nk WHERE {{ {} }}", f.body),
    }
}

// ------------------------------------------------------------------------------------------------
// 1. Ternary logic partitioning
// ------------------------------------------------------------------------------------------------

#[derive(Clone, Debug, Serialize, Deserialize, Hash)]
pub struct TlpCase {
    pub graph: GraphSpec,
    pub lang: Lang,
    pub base: Base,
    pub pred: Pred,
}

fn tlp_case(big_share: u32) -> impl Strategy<Value = TlpCase> {
    (graph(big_share), lang_strategy(), base()).prop_flat_map(|(graph, lang, base)| {
        let base = if matches!(lang, Lang::Gql | Lang::Cypher) { base } else { Base::Scan };
        let p = match lang {
            Lang::Gremlin | Lang::GraphQL => simple_pred(base),
            Lang::Sparql => prop_oneof![1 => simple_pred(base), 2 => pred_sparql(base)].boxed(),
            Lang::Gql => pred_gql(base),
            Lang::Cypher => pred(base),
        };
        p.prop_map(move |pred| TlpCase { graph: graph.clone(), lang, base, pred })
    })
}

fn check_tlp(c: &TlpCase) -> CaseResult {
    let key = hash_of(c);
    let l = c.lang.name();
    let (Some(fa), Some(ft), Some(ff)) = (
        filtered(c.lang, c.base, Some(&c.pred), Part::All),
        filtered(c.lang, c.base, Some(&c.pred), Part::True),
        filtered(c.lang, c.base, Some(&c.pred), Part::False),
    ) else {
        return ok(false, format!("{l}:inexpressible(p)"), key);
    };
    let table = truth_table(&c.graph, c.base, &c.pred);
    let fu = filtered(c.lang, c.base, Some(&c.pred), Part::Unknown);
    let db = build(&c.graph, c.lang)?;
    let run = |f: &Filtered| exec(&db, c.lang, &ids_query(c.lang, c.base, f));

    let all = match run(&fa)? {
        Ok(r) => sorted(r),
        Err(_) => return ok(false, format!("{l}:err(Q)"), key),
    };
    let t = match run(&ft)? {
        Ok(r) => r,
        Err(_) => return ok(false, format!("{l}:err(Q^p)"), key),
    };
    let f = match run(&ff)? {
        Ok(r) => r,
        Err(_) => return ok(false, format!("{l}:err(Q^NOT p)"), key),
    };
    // unknown part: the language's own form if it has one and accepts it; otherwise the two-way form,
    // used only when every atom of p is known on every row of Q (then no collapse of 3VL can matter).
    let total = table.iter().all(|r| r.2);
    let (u, mode) = match fu.as_ref().map(|fu| run(fu)) {
        Some(r) => match r? {
            Ok(rows) => (rows, "3way"),
            Err(_) if total => (Vec::new(), "2way(total p; IS NULL form rejected)"),
            Err(_) => return ok(false, format!("{l}:err(Q^p IS NULL), p not total"), key),
        },
        None if total => (Vec::new(), "2way(total p)"),
        None => return ok(false, format!("{l}:inexpressible(unknown part), p not total"), key),
    };
    let (nt, nf, nu) = (t.len(), f.len(), u.len());
    let mut parts = t;
    parts.extend(f);
    parts.extend(u);
    let parts = sorted(parts);
    if parts != all {
        let missing = msub(&all, &parts);
        let extra = msub(&parts, &all);
        // classification (narrow, data-dependent signatures for known defects)
        let ids = |f: &dyn Fn(Option<bool>) -> bool| -> Rows {
            sorted(table.iter().filter(|r| f(r.1)).map(|r| id_row(c.lang, r.0.0, r.0.1)).collect())
        };
        let rows_true = ids(&|v| v == Some(true));
        let rows_known = ids(&|v| v.is_some());
        let rows_unknown = ids(&|v| v.is_none());
        let inner = match &c.pred {
            Pred::Not(a) => &**a,
            p => p,
        };
        let range_mismatch = match c.lang {
            // the planner's range path takes `WHERE prop op literal` on a plain label scan
            Lang::Gql | Lang::Cypher => c.base == Base::Scan && range_type_mismatch_atom(&c.pred) && !rows_true.is_empty() && missing == rows_true,
            // both complementary forms are bare range comparisons
            Lang::Gremlin | Lang::GraphQL => range_type_mismatch_atom(inner) && !rows_known.is_empty() && missing == rows_known,
            Lang::Sparql => false,
        };
        let sig = if !extra.is_empty() {
            if missing.is_empty() { format!("c11/tlp:{l}:extra") } else { format!("c11/tlp:{l}:both") }
        } else if range_mismatch {
            format!("c11/tlp-range-path-int-float:{l}")
        // IN / unary minus on a bound (string-typed) binding is an evaluation error: the rows where the predicate is
        // *known* to the reference are lost from both p and NOT p unless another operand decides the connective
        // (rows where the variable is unbound land in the unknown part since the SPARQL FILTER error fixes)
        } else if c.lang == Lang::Sparql && contains_in(&c.pred) && !missing.is_empty() && msub(&missing, &rows_known).is_empty() {
            "c11/tlp-sparql-in-unevaluated".to_string()
        } else if c.lang == Lang::Sparql && contains_neg_of_prop(&c.pred) && !missing.is_empty() && msub(&missing, &rows_known).is_empty() {
            "c11/tlp-sparql-neg-unevaluated".to_string()
        } else if c.lang == Lang::Sparql && mode == "3way" && !missing.is_empty() && msub(&missing, &rows_unknown).is_empty() {
            "c11/tlp-sparql-unbound-rows-lost".to_string()
        } else {
            format!("c11/tlp:{l}:missing")
        };
        return fail(
            sig,
            format!(
                "{mode}: Q={} |p|={nt} |NOT p|={nf} |unknown|={nu}; missing from the parts {}; extra in the parts {}\n  Q: {}\n  p: {}\n  NOT p: {}\n  unknown: {}",
                all.len(),
                show(&missing),
                show(&extra),
                ids_query(c.lang, c.base, &fa),
                ids_query(c.lang, c.base, &ft),
                ids_query(c.lang, c.base, &ff),
                fu.as_ref().map(|f| ids_query(c.lang, c.base, f)).unwrap_or_default()
            ),
        );
    }
    let nontrivial = if mode == "3way" { nt > 0 && nf > 0 && nu > 0 } else { nt > 0 && nf > 0 };
    ok(nontrivial, format!("{l}:{mode}:{}", size_class(&c.graph)), key)
}

// ------------------------------------------------------------------------------------------------
// 2. count(*) = number of rows
// ------------------------------------------------------------------------------------------------

#[derive(Clone, Debug, Serialize, Deserialize, Hash)]
pub struct CountCase {
    pub graph: GraphSpec,
    pub lang: Lang,
    pub base: Base,
    pub pred: Option<Pred>,
    /// 0: count(*) ; 1: count(n) / COUNT(?nk)
    pub form: u8,
}

fn opt_pred(lang: Lang, base: Base) -> BoxedStrategy<Option<Pred>> {
    let p = match lang {
        Lang::Gremlin | Lang::GraphQL => simple_pred(base),
        Lang::Gql => pred_gql(base),
        Lang::Sparql => pred_sparql(base),
        Lang::Cypher => pred(base),
    };
    prop_oneof![1 => Just(None), 3 => p.prop_map(Some)].boxed()
}

fn count_case(big_share: u32) -> impl Strategy<Value = CountCase> {
    let langs = prop_oneof![3 => Just(Lang::Cypher), 3 => Just(Lang::Gql), 2 => Just(Lang::Sparql), 2 => Just(Lang::Gremlin)];
    (graph(big_share), langs, base(), prop_oneof![1 => Just(0u8), 4 => Just(1u8)]).prop_flat_map(|(graph, lang, base, form)| {
        let base = if matches!(lang, Lang::Gql | Lang::Cypher) { base } else { Base::Scan };
        opt_pred(lang, base).prop_map(move |pred| CountCase { graph: graph.clone(), lang, base, pred, form })
    })
}

fn count_query(lang: Lang, f: &Filtered, form: u8) -> Option<String> {
    Some(match lang {
        Lang::Gql | Lang::Cypher => format!("{} RETURN {}", f.body, if form == 0 { "count(*)" } else { "count(n)" }),
        Lang::Gremlin => format!("{}.count()", f.body),
        Lang::GraphQL => return None,
        Lang::Sparql => format!("SELECT ({} AS ?c) WHERE {{ {} }}", if form == 0 { "COUNT(*)" } else { "COUNT(?nk)" }, f.body),
    })
}

fn check_count(c: &CountCase) -> CaseResult {
    let key = hash_of(c);
    let l = c.lang.name();
    let part = if c.pred.is_some() { Part::True } else { Part::All };
    let Some(f) = filtered(c.lang, c.base, c.pred.as_ref(), part) else {
        return ok(false, format!("{l}:inexpressible(p)"), key);
    };
    let Some(cq) = count_query(c.lang, &f, c.form) else {
        return ok(false, format!("{l}:inexpressible(count)"), key);
    };
    let db = build(&c.graph, c.lang)?;
    let rq = ids_query(c.lang, c.base, &f);
    let rows = match exec(&db, c.lang, &rq)? {
        Ok(r) => r,
        Err(_) => return ok(false, format!("{l}:err(Q)"), key),
    };
    let cnt = match exec(&db, c.lang, &cq)? {
        Ok(r) => r,
        Err(_) => return ok(false, format!("{l}:err(count form {})", c.form), key),
    };
    let n = rows.len();
    let got: Option<i64> = if cnt.len() == 1 && cnt[0].len() == 1 { cnt[0][0].trim_matches('"').parse().ok() } else { None };
    if got != Some(n as i64) {
        let sig = if cnt.is_empty() && n == 0 {
            format!("c11/count-empty-input-no-row:{l}")
        } else {
            format!("c11/count:{l}")
        };
        return fail(sig, format!("{cq} -> {} but {rq} returned {n} rows", show(&cnt)));
    }
    let filtered_some = n > 0 && n < base_rows(&c.graph, c.base).len();
    ok(n > 0 && (filtered_some || c.graph.len() > 2048), format!("{l}:form{}:{}", c.form, size_class(&c.graph)), key)
}

// ------------------------------------------------------------------------------------------------
// 3. DISTINCT = the set of the undistinct rows
// ------------------------------------------------------------------------------------------------

#[derive(Clone, Copy, Debug, Serialize, Deserialize, Hash, PartialEq, Eq)]
pub enum DCol {
    D,
    S,
    A,
    X,
    T,
}

impl DCol {
    fn name(self) -> &'static str {
        match self {
            DCol::D => "pd",
            DCol::S => "ps",
            DCol::A => "pa",
            DCol::X => "px",
            DCol::T => "pt",
        }
    }
    fn nullable(self) -> bool {
        matches!(self, DCol::X | DCol::T)
    }
}

#[derive(Clone, Debug, Serialize, Deserialize, Hash)]
pub struct DistinctCase {
    pub graph: GraphSpec,
    pub lang: Lang,
    pub base: Base,
    pub pred: Option<Pred>,
    pub cols: Vec<DCol>,
}

fn distinct_case(big_share: u32) -> impl Strategy<Value = DistinctCase> {
    let langs = prop_oneof![3 => Just(Lang::Cypher), 3 => Just(Lang::Gql), 3 => Just(Lang::Sparql), 2 => Just(Lang::Gremlin)];
    let col = prop_oneof![3 => Just(DCol::D), 2 => Just(DCol::S), 1 => Just(DCol::A), 1 => Just(DCol::X), 1 => Just(DCol::T)];
    (graph(big_share), langs, base(), proptest::collection::vec(col, 1..3)).prop_flat_map(|(graph, lang, base, mut cols)| {
        let base = if matches!(lang, Lang::Gql | Lang::Cypher) { base } else { Base::Scan };
        cols.dedup();
        if lang == Lang::Gremlin {
            cols.truncate(1);
        }
        if cols.len() == 2 && cols[0] == cols[1] {
            cols.truncate(1);
        }
        opt_pred(lang, base).prop_map(move |pred| DistinctCase { graph: graph.clone(), lang, base, pred, cols: cols.clone() })
    })
}

fn distinct_queries(c: &DistinctCase, f: &Filtered) -> Option<(String, String)> {
    Some(match c.lang {
        Lang::Gql | Lang::Cypher => {
            let cols: Vec<String> = c.cols.iter().map(|d| format!("n.{}", d.name())).collect();
            (format!("{} RETURN {}", f.body, cols.join(", ")), format!("{} RETURN DISTINCT {}", f.body, cols.join(", ")))
        }
        Lang::Gremlin => {
            let col = c.cols[0].name();
            (format!("{}.values('{col}')", f.body), format!("{}.values('{col}').dedup()", f.body))
        }
        Lang::GraphQL => return None,
        Lang::Sparql => {
            // bind the projected columns (nullable ones through OPTIONAL) after the filtered pattern
            let mut body = f.body.clone();
            let mut vars = Vec::new();
            for d in &c.cols {
                let var = format!("?n{}", &d.name()[1..]);
                let trip = format!("?n <{EX}{}> {var}", d.name());
                if !body.contains(&trip) {
                    if d.nullable() {
                        body.push_str(&format!(" OPTIONAL {{ {trip} }}"));
                    } else {
                        body.push_str(&format!(" {trip} ."));
                    }
                }
                vars.push(var);
            }
            (
                format!("SELECT {} WHERE {{ {body} }}", vars.join(" ")),
                format!("SELECT DISTINCT {} WHERE {{ {body} }}", vars.join(" ")),
            )
        }
    })
}

fn check_distinct(c: &DistinctCase) -> CaseResult {
    let key = hash_of(c);
    let l = c.lang.name();
    let part = if c.pred.is_some() { Part::True } else { Part::All };
    let Some(mut f) = filtered(c.lang, c.base, c.pred.as_ref(), part) else {
        return ok(false, format!("{l}:inexpressible(p)"), key);
    };
    if c.lang == Lang::Sparql && c.pred.is_some() {
        // keep FILTER last: re-render with the filter after the projected columns' patterns
        let p = c.pred.as_ref().unwrap();
        let mut props = Vec::new();
        pred_props(p, &mut props);
        for d in &c.cols {
            let x = (Var::N, d.name(), d.nullable());
            if !props.contains(&x) {
                props.push(x);
            }
        }
        let Some(text) = sp_pred(p) else { return ok(false, format!("{l}:inexpressible(p)"), key) };
        f = Filtered { body: sp_pattern(&props, Some(&text)) };
    }
    let Some((uq, dq)) = distinct_queries(c, &f) else {
        return ok(false, format!("{l}:inexpressible(distinct)"), key);
    };
    let db = build(&c.graph, c.lang)?;
    let und = match exec(&db, c.lang, &uq)? {
        Ok(r) => sorted(r),
        Err(_) => return ok(false, format!("{l}:err(Q)"), key),
    };
    let dis = match exec(&db, c.lang, &dq)? {
        Ok(r) => sorted(r),
        Err(_) => return ok(false, format!("{l}:err(DISTINCT)"), key),
    };
    let mut set = und.clone();
    set.dedup();
    let dups = set.len() < und.len();
    if dis != set {
        let sig = if dups && dis == und {
            format!("c11/distinct-ignored:{l}")
        } else {
            format!("c11/distinct:{l}")
        };
        return fail(sig, format!("{dq} -> {}; undistinct {}; expected set {}", show(&dis), show(&und), show(&set)));
    }
    ok(dups, format!("{l}:{}", size_class(&c.graph)), key)
}

// ------------------------------------------------------------------------------------------------
// 4. SKIP s LIMIT n = rows s..s+n of the ordered result
// ------------------------------------------------------------------------------------------------

#[derive(Clone, Debug, Serialize, Deserialize, Hash)]
pub struct WindowCase {
    pub graph: GraphSpec,
    pub lang: Lang,
    pub pred: Option<Pred>,
    pub skip: Option<u32>,
    pub limit: Option<u32>,
    pub desc: bool,
    /// false: no ORDER BY — only the validity predicate (size and sub-multiset) is checked
    pub ordered: bool,
    /// unordered GQL / Cypher windows only: `RETURN n` (the node itself, no projection between the filter and
    /// SKIP/LIMIT, so the limit operators see the filter's selection vector) instead of `RETURN n.pk`
    #[serde(default)]
    pub ret_node: bool,
}

fn bound(len: usize) -> BoxedStrategy<u32> {
    let len = len as u32;
    prop_oneof![
        3 => prop_oneof![Just(0u32), Just(1), Just(2)],
        4 => prop_oneof![Just(2047u32), Just(2048), Just(2049), Just(4095), Just(4096), Just(4097), Just(1), Just(2)],
        3 => prop_oneof![Just(len.saturating_sub(1)), Just(len), Just(len + 1), Just(len + 5000)],
        3 => 0u32..=(len + 2),
    ]
    .boxed()
}

fn window_case(big_share: u32) -> impl Strategy<Value = WindowCase> {
    let langs = prop_oneof![3 => Just(Lang::Cypher), 3 => Just(Lang::Gql), 2 => Just(Lang::Sparql), 2 => Just(Lang::Gremlin), 2 => Just(Lang::GraphQL)];
    (graph(big_share), langs).prop_flat_map(|(graph, lang)| {
        let len = graph.len();
        (
            prop_oneof![1 => Just(None), 1 => opt_pred(lang, Base::Scan)],
            prop_oneof![1 => Just(None), 4 => bound(len).prop_map(Some)],
            prop_oneof![1 => Just(None), 4 => bound(len).prop_map(Some)],
            any::<bool>(),
            // GraphQL's orderBy is rejected by the planner (Err = cannot express): mostly unordered there
            if lang == Lang::GraphQL { prop_oneof![1 => Just(true), 4 => Just(false)].boxed() } else { prop_oneof![1 => Just(true), 1 => Just(false)].boxed() },
            prop_oneof![2 => Just(true), 1 => Just(false)],
        )
            .prop_map(move |(pred, skip, limit, desc, ordered, ret_node)| WindowCase { graph: graph.clone(), lang, pred, skip, limit, desc, ordered, ret_node })
    })
}

/// Windows over filtered multi-chunk scans: the graph always has more than 2048 nodes (mostly several
/// chunks), a predicate is nearly always present (so the chunks that reach SKIP / LIMIT carry a selection
/// vector and hold fewer rows than their physical size), and the bounds sit around the chunk size and
/// anywhere below the graph size -- a limit larger than what the first chunk contributes but smaller
/// than the result is the common case here and rare in `window_case`.
fn window_case_multichunk() -> impl Strategy<Value = WindowCase> {
    let langs = prop_oneof![3 => Just(Lang::Cypher), 3 => Just(Lang::Gql), 2 => Just(Lang::Sparql), 2 => Just(Lang::Gremlin), 1 => Just(Lang::GraphQL)];
    let n = prop_oneof![2 => 2049u32..2060, 1 => Just(4096u32), 1 => Just(4097u32), 3 => 2500u32..6500];
    ((n, any::<u32>()).prop_map(|(n, seed)| GraphSpec::Big { n, seed }), langs).prop_flat_map(|(graph, lang)| {
        let len = graph.len() as u32;
        let b = move || prop_oneof![2 => prop_oneof![Just(2047u32), Just(2048), Just(2049)], 1 => prop_oneof![Just(1u32), Just(2), Just(len - 1)], 3 => 1u32..len];
        (
            prop_oneof![1 => Just(None), 6 => opt_pred(lang, Base::Scan)],
            prop_oneof![3 => Just(None), 1 => b().prop_map(Some)],
            prop_oneof![1 => Just(None), 6 => b().prop_map(Some)],
            any::<bool>(),
            if lang == Lang::GraphQL { Just(false).boxed() } else { prop_oneof![1 => Just(true), 2 => Just(false)].boxed() },
            prop_oneof![3 => Just(true), 1 => Just(false)],
        )
            .prop_map(move |(pred, skip, limit, desc, ordered, ret_node)| WindowCase { graph: graph.clone(), lang, pred, skip, limit, desc, ordered, ret_node })
    })
}

fn window_queries(c: &WindowCase, f: &Filtered) -> Option<(String, String)> {
    let (s, n) = (c.skip, c.limit);
    Some(match c.lang {
        Lang::Gql | Lang::Cypher => {
            // Cypher's planner cannot sort on n.pk after RETURN (Err = cannot express); the aliased
            // form `WITH n.pk AS k RETURN k ORDER BY k` is accepted.
            let cy = c.lang == Lang::Cypher;
            let key = if cy { "k" } else { "n.pk" };
            let ord = if c.ordered { format!(" ORDER BY {key}{}", if c.desc { " DESC" } else { "" }) } else { String::new() };
            let full = if !c.ordered && c.ret_node {
                format!("{} RETURN n", f.body)
            } else if cy {
                format!("{} WITH n.pk AS k RETURN k{ord}", f.body)
            } else {
                format!("{} RETURN n.pk{ord}", f.body)
            };
            let mut w = full.clone();
            if let Some(s) = s {
                w.push_str(&format!(" SKIP {s}"));
            }
            if let Some(n) = n {
                w.push_str(&format!(" LIMIT {n}"));
            }
            (full, w)
        }
        Lang::Gremlin => {
            let ord = if c.ordered {
                if c.desc { ".order().by('pk', desc)".to_string() } else { ".order().by('pk')".to_string() }
            } else {
                String::new()
            };
            let full = format!("{}{ord}.values('pk')", f.body);
            let mut w = format!("{}{ord}", f.body);
            match (s, n) {
                (Some(s), Some(n)) if (s + n) % 2 == 0 => w.push_str(&format!(".range({s}, {})", s + n)),
                _ => {
                    if let Some(s) = s {
                        w.push_str(&format!(".skip({s})"));
                    }
                    if let Some(n) = n {
                        w.push_str(&format!(".limit({n})"));
                    }
                }
            }
            w.push_str(".values('pk')");
            (full, w)
        }
        Lang::GraphQL => {
            let mut args: Vec<String> = Vec::new();
            if !f.body.is_empty() {
                args.push(f.body.clone());
            }
            if c.ordered {
                args.push(format!("orderBy: {{ pk: {} }}", if c.desc { "DESC" } else { "ASC" }));
            }
            let q = |a: &[String]| if a.is_empty() { "{ item { pk } }".to_string() } else { format!("{{ item({}) {{ pk }} }}", a.join(", ")) };
            let full = q(&args);
            if let Some(s) = s {
                args.push(format!("skip: {s}"));
            }
            if let Some(n) = n {
                args.push(format!("first: {n}"));
            }
            (full, q(&args))
        }
        Lang::Sparql => {
            let ord = if c.ordered { if c.desc { " ORDER BY DESC(?nk)" } else { " ORDER BY ?nk" } } else { "" };
            let full = format!("SELECT ?nk WHERE {{ {} }}{ord}", f.body);
            let mut w = full.clone();
            if let Some(n) = n {
                w.push_str(&format!(" LIMIT {n}"));
            }
            if let Some(s) = s {
                w.push_str(&format!(" OFFSET {s}"));
            }
            (full, w)
        }
    })
}

fn check_window(c: &WindowCase) -> CaseResult {
    let key = hash_of(c);
    let l = c.lang.name();
    let part = if c.pred.is_some() { Part::True } else { Part::All };
    let Some(f) = filtered(c.lang, Base::Scan, c.pred.as_ref(), part) else {
        return ok(false, format!("{l}:inexpressible(p)"), key);
    };
    let Some((fq, wq)) = window_queries(c, &f) else {
        return ok(false, format!("{l}:inexpressible(window)"), key);
    };
    let db = build(&c.graph, c.lang)?;
    let full = match exec(&db, c.lang, &fq)? {
        Ok(r) => r,
        Err(_) => return ok(false, format!("{l}:err(Q)"), key),
    };
    let win = match exec(&db, c.lang, &wq)? {
        Ok(r) => r,
        Err(_) => return ok(false, format!("{l}:err(window)"), key),
    };
    let s = c.skip.unwrap_or(0) as usize;
    let lo = s.min(full.len());
    let hi = match c.limit {
        Some(n) => (s + n as usize).min(full.len()),
        None => full.len(),
    }
    .max(lo);
    let what = |kind: &str| {
        format!(
            "{kind}: {wq} -> {} ; full result has {} rows, expected rows {lo}..{hi}: {}",
            show(&win),
            full.len(),
            show(&full[lo..hi].to_vec())
        )
    };
    if c.ordered {
        if win != full[lo..hi] {
            let sig = if win.len() != hi - lo { format!("c11/window-size:{l}") } else { format!("c11/window-rows:{l}") };
            return fail(sig, what("ordered window differs"));
        }
    } else {
        if win.len() != hi - lo {
            return fail(format!("c11/window-size:{l}"), what("unordered window has the wrong size"));
        }
        let extra = msub(&sorted(win.clone()), &sorted(full.clone()));
        if !extra.is_empty() {
            return fail(format!("c11/window-rows:{l}"), what("unordered window is not a sub-multiset of the full result"));
        }
    }
    // non-trivial: window non-empty and a strict part of the result; for big graphs the window's
    // start or end lies beyond the first 2048-row chunk while the other end is inside another chunk
    let strict = hi > lo && hi - lo < full.len();
    let straddles = lo / 2048 != hi.saturating_sub(1) / 2048 || (lo > 0 && lo % 2048 <= 1) || hi % 2048 <= 1;
    let class = if full.len() > 2048 {
        if strict && straddles { "big:straddles-chunk" } else { "big:other" }
    } else {
        "small"
    };
    ok(strict && (full.len() <= 2048 || straddles), format!("{l}:{}:{class}", if c.ordered { "ordered" } else { "unordered" }), key)
}

// ------------------------------------------------------------------------------------------------
// 5. UNION ALL = concatenation; UNION = set union
// ------------------------------------------------------------------------------------------------

#[derive(Clone, Debug, Serialize, Deserialize, Hash)]
pub struct UnionCase {
    pub graph: GraphSpec,
    pub lang: Lang,
    pub p1: Option<Pred>,
    pub p2: Option<Pred>,
    pub all: bool,
}

fn union_case(big_share: u32) -> impl Strategy<Value = UnionCase> {
    let langs = prop_oneof![2 => Just(Lang::Cypher), 2 => Just(Lang::Gql), 4 => Just(Lang::Sparql), 1 => Just(Lang::Gremlin)];
    (graph(big_share), langs, prop_oneof![3 => Just(true), 1 => Just(false)]).prop_flat_map(|(graph, lang, all)| {
        (opt_pred(lang, Base::Scan), opt_pred(lang, Base::Scan)).prop_map(move |(p1, p2)| UnionCase { graph: graph.clone(), lang, p1, p2, all })
    })
}

fn check_union(c: &UnionCase) -> CaseResult {
    let key = hash_of(c);
    let l = c.lang.name();
    let part = |p: &Option<Pred>| if p.is_some() { Part::True } else { Part::All };
    let (Some(f1), Some(f2)) = (
        filtered(c.lang, Base::Scan, c.p1.as_ref(), part(&c.p1)),
        filtered(c.lang, Base::Scan, c.p2.as_ref(), part(&c.p2)),
    ) else {
        return ok(false, format!("{l}:inexpressible(p)"), key);
    };
    let (q1, q2) = (ids_query(c.lang, Base::Scan, &f1), ids_query(c.lang, Base::Scan, &f2));
    let uq = match c.lang {
        Lang::Gql | Lang::Cypher => format!("{q1} {} {q2}", if c.all { "UNION ALL" } else { "UNION" }),
        Lang::Sparql => format!("SELECT {}?nk WHERE {{ {{ {} }} UNION {{ {} }} }}", if c.all { "" } else { "DISTINCT " }, f1.body, f2.body),
        Lang::Gremlin => {
            // union(__.has(..), __.has(..)) — the step list after the common source
            let src = "g.V().hasLabel('Item')";
            let (a, b) = (f1.body.strip_prefix(src).unwrap_or(""), f2.body.strip_prefix(src).unwrap_or(""));
            let tr = |s: &str| if s.is_empty() { "__.identity()".to_string() } else { format!("__{s}") };
            if !c.all {
                return ok(false, format!("{l}:inexpressible(union)"), key);
            }
            format!("{src}.union({}, {}).values('pk')", tr(a), tr(b))
        }
        Lang::GraphQL => return ok(false, format!("{l}:inexpressible(union)"), key),
    };
    let db = build(&c.graph, c.lang)?;
    let r1 = match exec(&db, c.lang, &q1)? {
        Ok(r) => r,
        Err(_) => return ok(false, format!("{l}:err(branch)"), key),
    };
    let r2 = match exec(&db, c.lang, &q2)? {
        Ok(r) => r,
        Err(_) => return ok(false, format!("{l}:err(branch)"), key),
    };
    let got = match exec(&db, c.lang, &uq)? {
        Ok(r) => sorted(r),
        Err(_) => return ok(false, format!("{l}:err(union)"), key),
    };
    let mut want = r1.clone();
    want.extend(r2.clone());
    let mut want = sorted(want);
    let overlap = {
        let mut s = want.clone();
        s.dedup();
        s.len() < want.len()
    };
    if !c.all {
        want.dedup();
    }
    if got != want {
        let first_only = got == sorted(r1.clone());
        let sig = if first_only && !r2.is_empty() {
            format!("c11/union-second-branch-dropped:{l}")
        } else if !c.all && overlap && {
            let mut w = r1.clone();
            w.extend(r2.clone());
            got == sorted(w)
        } {
            format!("c11/union-distinct-ignored:{l}")
        } else {
            format!("c11/union:{l}")
        };
        return fail(sig, format!("{uq} -> {}; branches {} and {}; expected {}", show(&got), show(&sorted(r1)), show(&sorted(r2)), show(&want)));
    }
    ok(!r1.is_empty() && !r2.is_empty() && (c.all || overlap), format!("{l}:{}:{}", if c.all { "all" } else { "set" }, size_class(&c.graph)), key)
}

// ------------------------------------------------------------------------------------------------

/// Development aid: `C11_PROBE=<file>` with lines `lang<TAB>query` runs them on a fixed 6-node graph
/// (or `C11_PROBE_N=<n>` hash-derived nodes) and prints the answers. Not part of any tier.
fn probe(path: &str) {
    let g = match std::env::var("C11_PROBE_N").ok().and_then(|s| s.parse::<u32>().ok()) {
        Some(n) => GraphSpec::Big { n, seed: 1 },
        None => GraphSpec::Small {
            nodes: vec![
                NodeSpec { a: 0, x: None, s: 0, t: None, d: 0, f: 0 },
                NodeSpec { a: 1, x: Some(1), s: 1, t: Some(1), d: 1, f: 1 },
                NodeSpec { a: 2, x: Some(-2), s: 2, t: None, d: 1, f: 3 },
                NodeSpec { a: 3, x: None, s: 3, t: Some(5), d: 2, f: -1 },
                NodeSpec { a: 3, x: Some(5), s: 3, t: Some(3), d: 2, f: 4 },
                NodeSpec { a: -1, x: Some(0), s: 7, t: Some(0), d: 0, f: 2 },
            ],
            edges: vec![(0, 20000), (20000, 40000), (40000, 40000), (65000, 0)],
        },
    };
    let text = std::fs::read_to_string(path).unwrap_or_default();
    for line in text.lines() {
        let Some((l, q)) = line.split_once('\t') else { continue };
        let lang = match l.trim() {
            "gql" => Lang::Gql,
            "cypher" => Lang::Cypher,
            "gremlin" => Lang::Gremlin,
            "graphql" => Lang::GraphQL,
            _ => Lang::Sparql,
        };
        let db = build(&g, lang).unwrap();
        match exec(&db, lang, q) {
            Ok(Ok(rows)) => println!("{l}: {q}\n   -> {}", show(&rows)),
            Ok(Err(e)) => println!("{l}: {q}\n   -> ERR {}", e.lines().next().unwrap_or("")),
            Err(f) => println!("{l}: {q}\n   -> PANIC {}", f.what),
        }
    }
}

pub fn run(r: &mut Run) {
    if let Ok(p) = std::env::var("C11_PROBE") {
        probe(&p);
        return;
    }
    r.level = "exploration";
    r.rule = "metamorphic relations between the engine's own answers on one database (graph of :Item nodes with a unique key pk, \
              always-present and sometimes-missing int/string/float properties, :R edges; small explicit graphs 0..13 nodes and \
              hash-derived graphs of 2047/2048/2049/4096/4097 nodes); one language per case (GQL, Cypher, SPARQL, Gremlin, GraphQL); \
              an Err from the engine means 'cannot express' and is only counted. Non-trivial: tlp = every partition non-empty; \
              count = rows > 0 and (the predicate removes rows or the input spans > 1 chunk); distinct = duplicates exist; \
              window = non-empty strict part of the result and, on > 2048-row results, start/end at or across a 2048 boundary; \
              union = both branches non-empty (set union: overlapping). Distinct by hash of the case."
        .into();
    r.assumptions.push("databases are fresh and at epoch 0 (no explicit transaction), so MVCC defects do not leak in".into());
    r.assumptions.push(
        "two-way partition (languages without an IS NULL form) is only asserted when every atom of p is known on every row of Q according to the harness's 3VL evaluation of the generated data"
            .into(),
    );
    r.assumptions.push("integer division and modulo by zero, and i64 overflow, are excluded by construction (C12 covers them)".into());

    // thorough: ~31 000 cases (measured ~0.4 thread-seconds per case => ~13 min on 16 threads)
    let big = 6;
    r.subcheck("tlp", r.cases(900, 14_000), || tlp_case(big), check_tlp);
    r.subcheck("count", r.cases(250, 4_000), || count_case(big + 4), check_count);
    r.subcheck("distinct", r.cases(250, 4_000), || distinct_case(big + 4), check_distinct);
    r.subcheck("window", r.cases(1200, 12_000), || window_case(35), check_window);
    r.subcheck("window_multichunk", r.cases(500, 8_000), window_case_multichunk, check_window);
    r.subcheck("union", r.cases(200, 3_000), || union_case(big + 4), check_union);
}
