//! C11 renderers: base query + predicate -> query text in each language. A renderer returns `None`
//! when the language cannot express the construct (the matrix is reported in the class histogram).

use serde::{Deserialize, Serialize};

use super::spec::*;

#[derive(Clone, Copy, Debug, Serialize, Deserialize, PartialEq, Eq, Hash, PartialOrd, Ord)]
pub enum Lang {
    Gql,
    Cypher,
    Gremlin,
    GraphQL,
    Sparql,
}

impl Lang {
    pub fn name(self) -> &'static str {
        match self {
            Lang::Gql => "gql",
            Lang::Cypher => "cypher",
            Lang::Gremlin => "gremlin",
            Lang::GraphQL => "graphql",
            Lang::Sparql => "sparql",
        }
    }
}

pub const EX: &str = "http://ex/";

pub fn num_prop_name(p: NumProp) -> &'static str {
    match p {
        NumProp::K => "pk",
        NumProp::A => "pa",
        NumProp::X => "px",
        NumProp::F => "pf",
        NumProp::D => "pd",
    }
}

pub fn str_prop_name(p: StrProp) -> &'static str {
    match p {
        StrProp::S => "ps",
        StrProp::T => "pt",
    }
}

fn var_name(v: Var) -> &'static str {
    match v {
        Var::N => "n",
        Var::M => "m",
    }
}

fn int_lit(c: i64) -> String {
    if c < 0 { format!("(-{})", -c) } else { format!("{c}") }
}

fn float_lit(c: i8) -> String {
    let f = f64::from(c) / 2.0;
    if f < 0.0 { format!("(-{:.1})", -f) } else { format!("{f:.1}") }
}

// ------------------------------------------------------------------------------------------------
// GQL / Cypher
// ------------------------------------------------------------------------------------------------

fn cy_num(e: &Num) -> String {
    match e {
        Num::Prop(v, p) => format!("{}.{}", var_name(*v), num_prop_name(*p)),
        Num::Lit(c) => int_lit(i64::from(*c)),
        Num::LitF(c) => float_lit(*c),
        Num::Add(a, b) => format!("({} + {})", cy_num(a), cy_num(b)),
        Num::Sub(a, b) => format!("({} - {})", cy_num(a), cy_num(b)),
        Num::Mul(a, b) => format!("({} * {})", cy_num(a), cy_num(b)),
        Num::Mod(a, b) => format!("({} % {})", cy_num(a), b),
        Num::Neg(a) => format!("(-({}))", cy_num(a)),
    }
}

fn cy_str(e: &Str) -> String {
    match e {
        Str::Prop(v, p) => format!("{}.{}", var_name(*v), str_prop_name(*p)),
        Str::Lit(i) => format!("'{}'", STR_POOL[*i as usize % 8]),
    }
}

/// Cypher / GQL share the expression syntax (what GQL's parser lacks is found by its `Err`).
pub fn cy_pred(p: &Pred) -> String {
    match p {
        Pred::Cmp(a, op, b) => format!("({} {} {})", cy_num(a), op.sym(), cy_num(b)),
        Pred::StrCmp(a, op, b) => format!("({} {} {})", cy_str(a), op.sym(), cy_str(b)),
        Pred::StrMatch(a, op, pat) => {
            let kw = match op {
                StrOp::StartsWith => "STARTS WITH",
                StrOp::EndsWith => "ENDS WITH",
                StrOp::Contains => "CONTAINS",
            };
            format!("({} {kw} '{}')", cy_str(a), PAT_POOL[*pat as usize % 5])
        }
        Pred::InNum(a, l) => {
            let items: Vec<String> = l.iter().map(|c| int_lit(i64::from(*c))).collect();
            format!("({} IN [{}])", cy_num(a), items.join(", "))
        }
        Pred::InStr(a, l) => {
            let items: Vec<String> = l.iter().map(|c| format!("'{}'", STR_POOL[*c as usize % 8])).collect();
            format!("({} IN [{}])", cy_str(a), items.join(", "))
        }
        Pred::IsNull(v, p) => format!("({}.{} IS NULL)", var_name(*v), num_prop_name(*p)),
        Pred::IsNotNull(v, p) => format!("({}.{} IS NOT NULL)", var_name(*v), num_prop_name(*p)),
        Pred::Mismatch(v, p, c) => format!("({}.{} < {})", var_name(*v), str_prop_name(*p), int_lit(i64::from(*c))),
        Pred::EqNull(a) => format!("({} = NULL)", cy_num(a)),
        Pred::Not(a) => format!("(NOT ({}))", cy_pred(a)),
        Pred::And(a, b) => format!("(({}) AND ({}))", cy_pred(a), cy_pred(b)),
        Pred::Or(a, b) => format!("(({}) OR ({}))", cy_pred(a), cy_pred(b)),
    }
}

pub fn cy_match(base: Base) -> &'static str {
    match base {
        Base::Scan => "MATCH (n:Item)",
        Base::Expand => "MATCH (n:Item)-[:R]->(m:Item)",
    }
}

pub fn cy_ids(base: Base) -> &'static str {
    match base {
        Base::Scan => "n.pk",
        Base::Expand => "n.pk, m.pk",
    }
}

// ------------------------------------------------------------------------------------------------
// SPARQL
// ------------------------------------------------------------------------------------------------

fn sp_var(v: Var, prop: &str) -> String {
    format!("?{}{}", var_name(v), &prop[1..])
}

fn sp_num(e: &Num) -> Option<String> {
    Some(match e {
        Num::Prop(v, p) => sp_var(*v, num_prop_name(*p)),
        Num::Lit(c) => format!("{c}"),
        Num::LitF(c) => format!("{:.1}", f64::from(*c) / 2.0),
        Num::Add(a, b) => format!("({} + {})", sp_num(a)?, sp_num(b)?),
        Num::Sub(a, b) => format!("({} - {})", sp_num(a)?, sp_num(b)?),
        Num::Mul(a, b) => format!("({} * {})", sp_num(a)?, sp_num(b)?),
        Num::Mod(..) => return None,
        Num::Neg(a) => format!("(-({}))", sp_num(a)?),
    })
}

fn sp_str(e: &Str) -> String {
    match e {
        Str::Prop(v, p) => sp_var(*v, str_prop_name(*p)),
        Str::Lit(i) => format!("\"{}\"", STR_POOL[*i as usize % 8]),
    }
}

pub fn sp_pred(p: &Pred) -> Option<String> {
    Some(match p {
        Pred::Cmp(a, op, b) => {
            let sym = if *op == CmpOp::Ne { "!=" } else { op.sym() };
            format!("({} {sym} {})", sp_num(a)?, sp_num(b)?)
        }
        Pred::StrCmp(a, op, b) => {
            let sym = if *op == CmpOp::Ne { "!=" } else { op.sym() };
            format!("({} {sym} {})", sp_str(a), sp_str(b))
        }
        Pred::StrMatch(a, op, pat) => {
            let f = match op {
                StrOp::StartsWith => "STRSTARTS",
                StrOp::EndsWith => "STRENDS",
                StrOp::Contains => "CONTAINS",
            };
            format!("{f}({}, \"{}\")", sp_str(a), PAT_POOL[*pat as usize % 5])
        }
        Pred::InNum(a, l) => {
            let items: Vec<String> = l.iter().map(|c| format!("{c}")).collect();
            format!("({} IN ({}))", sp_num(a)?, items.join(", "))
        }
        Pred::InStr(a, l) => {
            let items: Vec<String> = l.iter().map(|c| format!("\"{}\"", STR_POOL[*c as usize % 8])).collect();
            format!("({} IN ({}))", sp_str(a), items.join(", "))
        }
        Pred::IsNull(v, p) => format!("(!BOUND({}))", sp_var(*v, num_prop_name(*p))),
        Pred::IsNotNull(v, p) => format!("BOUND({})", sp_var(*v, num_prop_name(*p))),
        Pred::Mismatch(..) | Pred::EqNull(_) => return None,
        Pred::Not(a) => format!("(!({}))", sp_pred(a)?),
        Pred::And(a, b) => format!("(({}) && ({}))", sp_pred(a)?, sp_pred(b)?),
        Pred::Or(a, b) => format!("(({}) || ({}))", sp_pred(a)?, sp_pred(b)?),
    })
}

/// Properties (var, name, nullable) mentioned by the predicate.
pub fn pred_props(p: &Pred, out: &mut Vec<(Var, &'static str, bool)>) {
    fn num(e: &Num, out: &mut Vec<(Var, &'static str, bool)>) {
        match e {
            Num::Prop(v, p) => push(out, (*v, num_prop_name(*p), *p == NumProp::X)),
            Num::Lit(_) | Num::LitF(_) => {}
            Num::Add(a, b) | Num::Sub(a, b) | Num::Mul(a, b) => {
                num(a, out);
                num(b, out);
            }
            Num::Mod(a, _) | Num::Neg(a) => num(a, out),
        }
    }
    fn st(e: &Str, out: &mut Vec<(Var, &'static str, bool)>) {
        if let Str::Prop(v, p) = e {
            push(out, (*v, str_prop_name(*p), *p == StrProp::T));
        }
    }
    fn push(out: &mut Vec<(Var, &'static str, bool)>, x: (Var, &'static str, bool)) {
        if !out.contains(&x) {
            out.push(x);
        }
    }
    match p {
        Pred::Cmp(a, _, b) => {
            num(a, out);
            num(b, out);
        }
        Pred::StrCmp(a, _, b) => {
            st(a, out);
            st(b, out);
        }
        Pred::StrMatch(a, ..) | Pred::InStr(a, _) => st(a, out),
        Pred::InNum(a, _) | Pred::EqNull(a) => num(a, out),
        Pred::IsNull(v, p) | Pred::IsNotNull(v, p) => push(out, (*v, num_prop_name(*p), *p == NumProp::X)),
        Pred::Mismatch(v, p, _) => push(out, (*v, str_prop_name(*p), *p == StrProp::T)),
        Pred::Not(a) => pred_props(a, out),
        Pred::And(a, b) | Pred::Or(a, b) => {
            pred_props(a, out);
            pred_props(b, out);
        }
    }
}

/// The set V of nullable properties such that "p is unknown on a row  <=>  some v in V is missing
/// on that row" holds under *every* reasonable collapse of three-valued logic — or None when no
/// such set exists syntactically. Atom: its nullable props (IS [NOT] NULL atoms are never unknown and
/// make the set underivable when they test a nullable property); NOT: same; AND/OR: both sides must
/// have the same V with |V| <= 1.
pub fn strict_unknown_set(p: &Pred) -> Option<Vec<(Var, &'static str)>> {
    match p {
        Pred::Not(a) => strict_unknown_set(a),
        Pred::And(a, b) | Pred::Or(a, b) => {
            let (va, vb) = (strict_unknown_set(a)?, strict_unknown_set(b)?);
            if va == vb && va.len() <= 1 { Some(va) } else { None }
        }
        Pred::IsNull(_, p) | Pred::IsNotNull(_, p) => {
            if *p == NumProp::X { None } else { Some(Vec::new()) }
        }
        Pred::Mismatch(..) | Pred::EqNull(_) => None,
        atom => {
            let mut props = Vec::new();
            pred_props(atom, &mut props);
            let mut v: Vec<(Var, &'static str)> = props.into_iter().filter(|x| x.2).map(|x| (x.0, x.1)).collect();
            v.sort();
            Some(v)
        }
    }
}

/// Group graph pattern binding ?nk and every property in `props` (nullable ones through OPTIONAL).
pub fn sp_pattern(props: &[(Var, &'static str, bool)], filter: Option<&str>) -> String {
    let mut s = format!("?n <{EX}pk> ?nk .");
    for (v, name, nullable) in props {
        if *v != Var::N || *name == "pk" {
            continue;
        }
        let var = sp_var(*v, name);
        if *nullable {
            s.push_str(&format!(" OPTIONAL {{ ?n <{EX}{name}> {var} }}"));
        } else {
            s.push_str(&format!(" ?n <{EX}{name}> {var} ."));
        }
    }
    if let Some(f) = filter {
        s.push_str(&format!(" FILTER({f})"));
    }
    s
}

// ------------------------------------------------------------------------------------------------
// Gremlin / GraphQL: one simple atom `prop op literal` on n, optionally negated
// ------------------------------------------------------------------------------------------------

pub struct SimpleForms {
    /// step / argument selecting the rows where the atom is true
    pub t: String,
    /// ... false
    pub f: String,
    /// property whose absence makes the atom unknown
    pub prop: &'static str,
    pub nullable: bool,
}

fn gr_val_num(c: i8) -> String {
    format!("{c}")
}

pub fn gremlin_forms(p: &Pred) -> Option<SimpleForms> {
    let (inner, neg) = match p {
        Pred::Not(a) => (&**a, true),
        other => (other, false),
    };
    let (prop, nullable, t, f) = match inner {
        Pred::Cmp(Num::Prop(Var::N, pr), op, lit @ (Num::Lit(_) | Num::LitF(_))) => {
            let c = &match lit {
                Num::Lit(c) => format!("{c}"),
                Num::LitF(c) => format!("{:.1}", f64::from(*c) / 2.0),
                _ => unreachable!(),
            };
            let name = |o: CmpOp| match o {
                CmpOp::Eq => "eq",
                CmpOp::Ne => "neq",
                CmpOp::Lt => "lt",
                CmpOp::Le => "lte",
                CmpOp::Gt => "gt",
                CmpOp::Ge => "gte",
            };
            (
                num_prop_name(*pr),
                *pr == NumProp::X,
                format!("P.{}({c})", name(*op)),
                format!("P.{}({c})", name(op.complement())),
            )
        }
        Pred::StrCmp(Str::Prop(Var::N, pr), op, Str::Lit(c)) => {
            let name = |o: CmpOp| match o {
                CmpOp::Eq => "eq",
                CmpOp::Ne => "neq",
                CmpOp::Lt => "lt",
                CmpOp::Le => "lte",
                CmpOp::Gt => "gt",
                CmpOp::Ge => "gte",
            };
            let lit = format!("'{}'", STR_POOL[*c as usize % 8]);
            (
                str_prop_name(*pr),
                *pr == StrProp::T,
                format!("P.{}({lit})", name(*op)),
                format!("P.{}({lit})", name(op.complement())),
            )
        }
        Pred::InNum(Num::Prop(Var::N, pr), l) => {
            let items: Vec<String> = l.iter().map(|c| gr_val_num(*c)).collect();
            (
                num_prop_name(*pr),
                *pr == NumProp::X,
                format!("P.within({})", items.join(", ")),
                format!("P.without({})", items.join(", ")),
            )
        }
        Pred::InStr(Str::Prop(Var::N, pr), l) => {
            let items: Vec<String> = l.iter().map(|c| format!("'{}'", STR_POOL[*c as usize % 8])).collect();
            (
                str_prop_name(*pr),
                *pr == StrProp::T,
                format!("P.within({})", items.join(", ")),
                format!("P.without({})", items.join(", ")),
            )
        }
        _ => return None,
    };
    let (t, f) = (format!(".has('{prop}', {t})"), format!(".has('{prop}', {f})"));
    Some(if neg { SimpleForms { t: f, f: t, prop, nullable } } else { SimpleForms { t, f, prop, nullable } })
}

pub fn graphql_forms(p: &Pred) -> Option<SimpleForms> {
    let (inner, neg) = match p {
        Pred::Not(a) => (&**a, true),
        other => (other, false),
    };
    let suffix = |o: CmpOp| match o {
        CmpOp::Eq => "",
        CmpOp::Ne => "_ne",
        CmpOp::Lt => "_lt",
        CmpOp::Le => "_lte",
        CmpOp::Gt => "_gt",
        CmpOp::Ge => "_gte",
    };
    let (prop, nullable, t, f) = match inner {
        Pred::Cmp(Num::Prop(Var::N, pr), op, lit @ (Num::Lit(_) | Num::LitF(_))) => {
            let c = &match lit {
                Num::Lit(c) => format!("{c}"),
                Num::LitF(c) => format!("{:.1}", f64::from(*c) / 2.0),
                _ => unreachable!(),
            };
            let n = num_prop_name(*pr);
            (n, *pr == NumProp::X, format!("{n}{}: {c}", suffix(*op)), format!("{n}{}: {c}", suffix(op.complement())))
        }
        Pred::StrCmp(Str::Prop(Var::N, pr), op, Str::Lit(c)) => {
            let n = str_prop_name(*pr);
            let lit = format!("\"{}\"", STR_POOL[*c as usize % 8]);
            (n, *pr == StrProp::T, format!("{n}{}: {lit}", suffix(*op)), format!("{n}{}: {lit}", suffix(op.complement())))
        }
        _ => return None,
    };
    let (t, f) = (format!("where: {{ {t} }}"), format!("where: {{ {f} }}"));
    Some(if neg { SimpleForms { t: f, f: t, prop, nullable } } else { SimpleForms { t, f, prop, nullable } })
}
