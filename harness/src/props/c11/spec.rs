//! C11 generators: plain-data graph spec, base query, predicate AST, and a small three-valued
//! evaluator over the spec (used for classification / non-triviality / totality only — never as the
//! oracle; the oracle is the relation between the engine's own results).

use proptest::prelude::*;
use serde::{Deserialize, Serialize};

pub const STR_POOL: [&str; 8] = ["", "a", "ab", "abc", "b", "ba", "cab", "abab"];
pub const PAT_POOL: [&str; 5] = ["a", "ab", "b", "c", "ba"];

/// One `:Item` node. `k` (the unique key) is the node's index in the graph.
#[derive(Clone, Debug, Serialize, Deserialize, PartialEq, Eq, Hash)]
pub struct NodeSpec {
    /// always present, small int
    pub a: i8,
    /// sometimes missing, small int
    pub x: Option<i8>,
    /// always present, index into STR_POOL
    pub s: u8,
    /// sometimes missing, index into STR_POOL
    pub t: Option<u8>,
    /// always present, tiny domain (duplicates)
    pub d: u8,
    /// always present float = f / 2
    pub f: i8,
}

#[derive(Clone, Debug, Serialize, Deserialize, PartialEq, Eq, Hash)]
pub enum GraphSpec {
    /// explicit nodes; edges are (src, dst) selectors mapped with `pick`
    Small { nodes: Vec<NodeSpec>, edges: Vec<(u16, u16)> },
    /// n nodes derived from a hash of (seed, i); edge i -> (i*7+3) % n for about half of the nodes
    Big { n: u32, seed: u32 },
}

fn mix(seed: u32, i: u32, salt: u32) -> u32 {
    let mut z = (u64::from(seed) << 32 | u64::from(i)).wrapping_add(u64::from(salt).wrapping_mul(0x9E37_79B9_7F4A_7C15));
    z = (z ^ (z >> 30)).wrapping_mul(0xBF58_476D_1CE4_E5B9);
    z = (z ^ (z >> 27)).wrapping_mul(0x94D0_49BB_1331_11EB);
    ((z ^ (z >> 31)) >> 16) as u32
}

impl GraphSpec {
    pub fn len(&self) -> usize {
        match self {
            GraphSpec::Small { nodes, .. } => nodes.len(),
            GraphSpec::Big { n, .. } => *n as usize,
        }
    }
    pub fn node(&self, i: usize) -> NodeSpec {
        match self {
            GraphSpec::Small { nodes, .. } => nodes[i].clone(),
            GraphSpec::Big { seed, .. } => {
                let i = i as u32;
                NodeSpec {
                    a: (mix(*seed, i, 1) % 10) as i8 - 3,
                    x: if mix(*seed, i, 2) % 4 == 0 { None } else { Some((mix(*seed, i, 3) % 10) as i8 - 3) },
                    s: (mix(*seed, i, 4) % 8) as u8,
                    t: if mix(*seed, i, 5) % 3 == 0 { None } else { Some((mix(*seed, i, 6) % 8) as u8) },
                    d: (mix(*seed, i, 7) % 3) as u8,
                    f: (mix(*seed, i, 8) % 9) as i8 - 2,
                }
            }
        }
    }
    pub fn edges(&self) -> Vec<(usize, usize)> {
        match self {
            GraphSpec::Small { nodes, edges } => {
                if nodes.is_empty() {
                    return Vec::new();
                }
                edges
                    .iter()
                    .map(|(a, b)| (crate::driver::pick(*a, nodes.len()), crate::driver::pick(*b, nodes.len())))
                    .collect()
            }
            GraphSpec::Big { n, seed } => {
                let n = *n as usize;
                (0..n).filter(|i| mix(*seed, *i as u32, 9) % 2 == 0).map(|i| (i, (i * 7 + 3) % n)).collect()
            }
        }
    }
}

fn node_spec() -> impl Strategy<Value = NodeSpec> {
    (
        -3i8..=6,
        prop_oneof![2 => Just(None), 5 => (-3i8..=6).prop_map(Some)],
        0u8..8,
        prop_oneof![2 => Just(None), 5 => (0u8..8).prop_map(Some)],
        0u8..3,
        -2i8..=6,
    )
        .prop_map(|(a, x, s, t, d, f)| NodeSpec { a, x, s, t, d, f })
}

pub fn small_graph() -> impl Strategy<Value = GraphSpec> {
    (proptest::collection::vec(node_spec(), 0..14), proptest::collection::vec((any::<u16>(), any::<u16>()), 0..20))
        .prop_map(|(nodes, edges)| GraphSpec::Small { nodes, edges })
}

pub fn big_graph() -> impl Strategy<Value = GraphSpec> {
    (prop_oneof![Just(2047u32), Just(2048), Just(2049), Just(4097), Just(4096), 2040u32..2060], any::<u32>())
        .prop_map(|(n, seed)| GraphSpec::Big { n, seed })
}

/// `big_share` in percent.
pub fn graph(big_share: u32) -> BoxedStrategy<GraphSpec> {
    prop_oneof![
        (100 - big_share) => small_graph(),
        big_share => big_graph(),
    ]
    .boxed()
}

// ------------------------------------------------------------------------------------------------
// Base query and predicate AST
// ------------------------------------------------------------------------------------------------

#[derive(Clone, Copy, Debug, Serialize, Deserialize, PartialEq, Eq, Hash)]
pub enum Base {
    /// MATCH (n:Item)
    Scan,
    /// MATCH (n:Item)-[:R]->(m:Item)
    Expand,
}

#[derive(Clone, Copy, Debug, Serialize, Deserialize, PartialEq, Eq, Hash, PartialOrd, Ord)]
pub enum Var {
    N,
    M,
}

#[derive(Clone, Copy, Debug, Serialize, Deserialize, PartialEq, Eq, Hash)]
pub enum NumProp {
    K,
    A,
    X,
    F,
    D,
}

#[derive(Clone, Copy, Debug, Serialize, Deserialize, PartialEq, Eq, Hash)]
pub enum StrProp {
    S,
    T,
}

#[derive(Clone, Debug, Serialize, Deserialize, PartialEq, Eq, Hash)]
pub enum Num {
    Prop(Var, NumProp),
    Lit(i8),
    /// float literal = v / 2
    LitF(i8),
    Add(Box<Num>, Box<Num>),
    Sub(Box<Num>, Box<Num>),
    Mul(Box<Num>, Box<Num>),
    /// modulo by a non-zero literal (1..=5)
    Mod(Box<Num>, u8),
    Neg(Box<Num>),
}

#[derive(Clone, Debug, Serialize, Deserialize, PartialEq, Eq, Hash)]
pub enum Str {
    Prop(Var, StrProp),
    Lit(u8),
}

#[derive(Clone, Copy, Debug, Serialize, Deserialize, PartialEq, Eq, Hash)]
pub enum CmpOp {
    Eq,
    Ne,
    Lt,
    Le,
    Gt,
    Ge,
}

impl CmpOp {
    pub fn complement(self) -> CmpOp {
        match self {
            CmpOp::Eq => CmpOp::Ne,
            CmpOp::Ne => CmpOp::Eq,
            CmpOp::Lt => CmpOp::Ge,
            CmpOp::Ge => CmpOp::Lt,
            CmpOp::Gt => CmpOp::Le,
            CmpOp::Le => CmpOp::Gt,
        }
    }
    pub fn sym(self) -> &'static str {
        match self {
            CmpOp::Eq => "=",
            CmpOp::Ne => "<>",
            CmpOp::Lt => "<",
            CmpOp::Le => "<=",
            CmpOp::Gt => ">",
            CmpOp::Ge => ">=",
        }
    }
}

#[derive(Clone, Copy, Debug, Serialize, Deserialize, PartialEq, Eq, Hash)]
pub enum StrOp {
    StartsWith,
    EndsWith,
    Contains,
}

#[derive(Clone, Debug, Serialize, Deserialize, PartialEq, Eq, Hash)]
pub enum Pred {
    Cmp(Num, CmpOp, Num),
    StrCmp(Str, CmpOp, Str),
    /// <str> STARTS WITH / ENDS WITH / CONTAINS <pattern literal from PAT_POOL>
    StrMatch(Str, StrOp, u8),
    InNum(Num, Vec<i8>),
    InStr(Str, Vec<u8>),
    IsNull(Var, NumProp),
    IsNotNull(Var, NumProp),
    /// a type-mismatched comparison `<str prop> < <int>` (unknown on every row)
    Mismatch(Var, StrProp, i8),
    /// `<num> = NULL`
    EqNull(Num),
    Not(Box<Pred>),
    And(Box<Pred>, Box<Pred>),
    Or(Box<Pred>, Box<Pred>),
}

fn var(base: Base) -> BoxedStrategy<Var> {
    match base {
        Base::Scan => Just(Var::N).boxed(),
        Base::Expand => prop_oneof![Just(Var::N), Just(Var::M)].boxed(),
    }
}

fn num_prop() -> impl Strategy<Value = NumProp> {
    prop_oneof![
        1 => Just(NumProp::K),
        3 => Just(NumProp::A),
        5 => Just(NumProp::X),
        2 => Just(NumProp::F),
        1 => Just(NumProp::D),
    ]
}

fn num_leaf(base: Base) -> BoxedStrategy<Num> {
    prop_oneof![
        5 => (var(base), num_prop()).prop_map(|(v, p)| Num::Prop(v, p)),
        3 => (-3i8..=6).prop_map(Num::Lit),
        1 => (-2i8..=6).prop_map(Num::LitF),
    ]
    .boxed()
}

fn num(base: Base) -> BoxedStrategy<Num> {
    num_m(base, true)
}

fn num_m(base: Base, allow_mod: bool) -> BoxedStrategy<Num> {
    num_leaf(base)
        .prop_recursive(2, 6, 2, move |inner| {
            prop_oneof![
                2 => (inner.clone(), inner.clone()).prop_map(|(a, b)| Num::Add(Box::new(a), Box::new(b))),
                2 => (inner.clone(), inner.clone()).prop_map(|(a, b)| Num::Sub(Box::new(a), Box::new(b))),
                2 => (inner.clone(), inner.clone()).prop_map(|(a, b)| Num::Mul(Box::new(a), Box::new(b))),
                2 => (inner.clone(), 1u8..=5).prop_map(move |(a, b)| if allow_mod { Num::Mod(Box::new(a), b) } else { Num::Sub(Box::new(a), Box::new(Num::Lit(b as i8))) }),
                1 => inner.prop_map(|a| Num::Neg(Box::new(a))),
            ]
        })
        .boxed()
}

/// Predicates the SPARQL renderer can express (no %, no NULL literal, no type-mismatch atom).
pub fn pred_sparql(base: Base) -> BoxedStrategy<Pred> {
    let atom = prop_oneof![
        6 => simple_atom(base),
        5 => (num_m(base, false), cmp_op(), num_m(base, false)).prop_map(|(a, op, b)| Pred::Cmp(a, op, b)),
        1 => (str_e(base), cmp_op(), str_e(base)).prop_map(|(a, op, b)| Pred::StrCmp(a, op, b)),
        1 => (num_m(base, false), proptest::collection::vec(-3i8..=6, 0..4)).prop_map(|(a, l)| Pred::InNum(a, l)),
        1 => (var(base), prop_oneof![Just(NumProp::X), Just(NumProp::A)]).prop_map(|(v, p)| Pred::IsNull(v, p)),
        1 => (var(base), prop_oneof![Just(NumProp::X), Just(NumProp::A)]).prop_map(|(v, p)| Pred::IsNotNull(v, p)),
    ];
    atom.prop_recursive(3, 8, 2, |inner| {
        prop_oneof![
            1 => inner.clone().prop_map(|a| Pred::Not(Box::new(a))),
            2 => (inner.clone(), inner.clone()).prop_map(|(a, b)| Pred::And(Box::new(a), Box::new(b))),
            2 => (inner.clone(), inner).prop_map(|(a, b)| Pred::Or(Box::new(a), Box::new(b))),
        ]
    })
    .boxed()
}

fn cmp_op() -> impl Strategy<Value = CmpOp> {
    prop_oneof![Just(CmpOp::Eq), Just(CmpOp::Ne), Just(CmpOp::Lt), Just(CmpOp::Le), Just(CmpOp::Gt), Just(CmpOp::Ge)]
}

fn str_prop() -> impl Strategy<Value = StrProp> {
    prop_oneof![1 => Just(StrProp::S), 2 => Just(StrProp::T)]
}

fn str_e(base: Base) -> BoxedStrategy<Str> {
    prop_oneof![
        3 => (var(base), str_prop()).prop_map(|(v, p)| Str::Prop(v, p)),
        1 => (0u8..8).prop_map(Str::Lit),
    ]
    .boxed()
}

/// A simple atom `prop op literal` (the form Gremlin / GraphQL / SPARQL-with-BOUND can express).
fn simple_atom(base: Base) -> BoxedStrategy<Pred> {
    prop_oneof![
        5 => (var(base), num_prop(), cmp_op(), -3i8..=6, 0u8..8).prop_map(|(v, p, op, c, mixed)| {
            // literal of the property's own numeric type; 1 in 8 of the other type (Int/Float mixing)
            let float_lit = (p == NumProp::F) != (mixed == 0);
            Pred::Cmp(Num::Prop(v, p), op, if float_lit { Num::LitF(c) } else { Num::Lit(c) })
        }),
        2 => (var(base), num_prop(), proptest::collection::vec(-3i8..=6, 1..4)).prop_map(|(v, p, l)| Pred::InNum(Num::Prop(v, p), l)),
        2 => (var(base), str_prop(), prop_oneof![Just(StrOp::StartsWith), Just(StrOp::EndsWith), Just(StrOp::Contains)], 0u8..5)
            .prop_map(|(v, p, op, pat)| Pred::StrMatch(Str::Prop(v, p), op, pat)),
        1 => (var(base), str_prop(), cmp_op(), 0u8..8).prop_map(|(v, p, op, c)| Pred::StrCmp(Str::Prop(v, p), op, Str::Lit(c))),
        1 => (var(base), str_prop(), proptest::collection::vec(0u8..8, 1..4)).prop_map(|(v, p, l)| Pred::InStr(Str::Prop(v, p), l)),
    ]
    .boxed()
}

fn atom(base: Base) -> BoxedStrategy<Pred> {
    prop_oneof![
        6 => simple_atom(base),
        5 => (num(base), cmp_op(), num(base)).prop_map(|(a, op, b)| Pred::Cmp(a, op, b)),
        1 => (str_e(base), cmp_op(), str_e(base)).prop_map(|(a, op, b)| Pred::StrCmp(a, op, b)),
        1 => (num(base), proptest::collection::vec(-3i8..=6, 0..4)).prop_map(|(a, l)| Pred::InNum(a, l)),
        1 => (var(base), prop_oneof![Just(NumProp::X), Just(NumProp::A)]).prop_map(|(v, p)| Pred::IsNull(v, p)),
        1 => (var(base), prop_oneof![Just(NumProp::X), Just(NumProp::A)]).prop_map(|(v, p)| Pred::IsNotNull(v, p)),
        1 => (var(base), str_prop(), -3i8..=6).prop_map(|(v, p, c)| Pred::Mismatch(v, p, c)),
        1 => num_leaf(base).prop_map(Pred::EqNull),
    ]
    .boxed()
}

/// Two-sided range on one numeric property of the scanned variable, bounds in either textual order and of either
/// strictness, literals from the data's own small domain (a stored value often sits exactly on a bound): the shape
/// the planner's BETWEEN / range path recognises.
fn range2(base: Base) -> BoxedStrategy<Pred> {
    (
        var(base),
        num_prop(),
        prop_oneof![Just(CmpOp::Lt), Just(CmpOp::Le)],
        prop_oneof![Just(CmpOp::Gt), Just(CmpOp::Ge)],
        -3i8..=6,
        -3i8..=6,
        any::<bool>(),
    )
        .prop_map(|(v, p, up, lo, a, b, upper_first)| {
            let u = Pred::Cmp(Num::Prop(v, p), up, Num::Lit(a));
            let l = Pred::Cmp(Num::Prop(v, p), lo, Num::Lit(b));
            if upper_first { Pred::And(Box::new(u), Box::new(l)) } else { Pred::And(Box::new(l), Box::new(u)) }
        })
        .boxed()
}

pub fn pred(base: Base) -> BoxedStrategy<Pred> {
    prop_oneof![9 => pred_tree(base), 2 => range2(base)].boxed()
}

fn pred_tree(base: Base) -> BoxedStrategy<Pred> {
    atom(base)
        .prop_recursive(3, 8, 2, |inner| {
            prop_oneof![
                1 => inner.clone().prop_map(|a| Pred::Not(Box::new(a))),
                2 => (inner.clone(), inner.clone()).prop_map(|(a, b)| Pred::And(Box::new(a), Box::new(b))),
                2 => (inner.clone(), inner).prop_map(|(a, b)| Pred::Or(Box::new(a), Box::new(b))),
            ]
        })
        .boxed()
}

/// Atoms the GQL parser accepts (no IN, no IS [NOT] NULL).
fn atom_gql(base: Base) -> BoxedStrategy<Pred> {
    prop_oneof![
        4 => (var(base), num_prop(), cmp_op(), -3i8..=6).prop_map(|(v, p, op, c)| Pred::Cmp(Num::Prop(v, p), op, Num::Lit(c))),
        2 => (var(base), str_prop(), prop_oneof![Just(StrOp::StartsWith), Just(StrOp::EndsWith), Just(StrOp::Contains)], 0u8..5)
            .prop_map(|(v, p, op, pat)| Pred::StrMatch(Str::Prop(v, p), op, pat)),
        5 => (num(base), cmp_op(), num(base)).prop_map(|(a, op, b)| Pred::Cmp(a, op, b)),
        2 => (str_e(base), cmp_op(), str_e(base)).prop_map(|(a, op, b)| Pred::StrCmp(a, op, b)),
        1 => (var(base), str_prop(), -3i8..=6).prop_map(|(v, p, c)| Pred::Mismatch(v, p, c)),
        1 => num_leaf(base).prop_map(Pred::EqNull),
    ]
    .boxed()
}

/// Predicates for GQL: 85 % from the accepted subset, 15 % from the full grammar (so that the
/// expressibility matrix still shows what the parser rejects).
pub fn pred_gql(base: Base) -> BoxedStrategy<Pred> {
    let sub = atom_gql(base)
        .prop_recursive(3, 8, 2, |inner| {
            prop_oneof![
                1 => inner.clone().prop_map(|a| Pred::Not(Box::new(a))),
                2 => (inner.clone(), inner.clone()).prop_map(|(a, b)| Pred::And(Box::new(a), Box::new(b))),
                2 => (inner.clone(), inner).prop_map(|(a, b)| Pred::Or(Box::new(a), Box::new(b))),
            ]
        })
        .boxed();
    prop_oneof![15 => sub, 3 => pred(base), 3 => range2(base)].boxed()
}

/// Is `p` a bare `property <ordering op> literal` (either side) whose literal's numeric type (Int /
/// Float) differs from the stored type of the property?
pub fn range_type_mismatch_atom(p: &Pred) -> bool {
    let ordering = |op: &CmpOp| matches!(op, CmpOp::Lt | CmpOp::Le | CmpOp::Gt | CmpOp::Ge);
    let mism = |prop: &NumProp, lit: &Num| match lit {
        Num::Lit(_) => *prop == NumProp::F,
        Num::LitF(_) => *prop != NumProp::F,
        _ => false,
    };
    match p {
        Pred::Cmp(Num::Prop(Var::N, pr), op, lit) | Pred::Cmp(lit, op, Num::Prop(Var::N, pr)) => ordering(op) && mism(pr, lit),
        _ => false,
    }
}

/// Predicates of the restricted shape (one simple atom, optionally negated).
pub fn simple_pred(base: Base) -> BoxedStrategy<Pred> {
    prop_oneof![
        3 => simple_atom(base),
        1 => simple_atom(base).prop_map(|a| Pred::Not(Box::new(a))),
    ]
    .boxed()
}

pub fn base() -> impl Strategy<Value = Base> {
    prop_oneof![3 => Just(Base::Scan), 1 => Just(Base::Expand)]
}

// ------------------------------------------------------------------------------------------------
// Three-valued evaluation over the spec (classification only)
// ------------------------------------------------------------------------------------------------

#[derive(Clone, Debug, PartialEq)]
pub enum Val {
    I(i64),
    F(f64),
}

pub struct Row<'a> {
    pub n: (usize, &'a NodeSpec),
    pub m: Option<(usize, &'a NodeSpec)>,
}

impl Row<'_> {
    fn node(&self, v: Var) -> (usize, &NodeSpec) {
        match v {
            Var::N => self.n,
            Var::M => self.m.unwrap_or(self.n),
        }
    }
}

pub fn eval_num(e: &Num, r: &Row) -> Option<Val> {
    Some(match e {
        Num::Prop(v, p) => {
            let (k, n) = r.node(*v);
            match p {
                NumProp::K => Val::I(k as i64),
                NumProp::A => Val::I(i64::from(n.a)),
                NumProp::X => Val::I(i64::from(n.x?)),
                NumProp::F => Val::F(f64::from(n.f) / 2.0),
                NumProp::D => Val::I(i64::from(n.d)),
            }
        }
        Num::Lit(c) => Val::I(i64::from(*c)),
        Num::LitF(c) => Val::F(f64::from(*c) / 2.0),
        Num::Add(a, b) => arith(eval_num(a, r)?, eval_num(b, r)?, |x, y| x + y, |x, y| x + y),
        Num::Sub(a, b) => arith(eval_num(a, r)?, eval_num(b, r)?, |x, y| x - y, |x, y| x - y),
        Num::Mul(a, b) => arith(eval_num(a, r)?, eval_num(b, r)?, |x, y| x * y, |x, y| x * y),
        Num::Mod(a, b) => arith(eval_num(a, r)?, Val::I(i64::from(*b)), |x, y| x % y, |x, y| x % y),
        Num::Neg(a) => match eval_num(a, r)? {
            Val::I(i) => Val::I(-i),
            Val::F(f) => Val::F(-f),
        },
    })
}

fn arith(a: Val, b: Val, fi: impl Fn(i64, i64) -> i64, ff: impl Fn(f64, f64) -> f64) -> Val {
    match (a, b) {
        (Val::I(x), Val::I(y)) => Val::I(fi(x, y)),
        (Val::I(x), Val::F(y)) => Val::F(ff(x as f64, y)),
        (Val::F(x), Val::I(y)) => Val::F(ff(x, y as f64)),
        (Val::F(x), Val::F(y)) => Val::F(ff(x, y)),
    }
}

fn as_f(v: &Val) -> f64 {
    match v {
        Val::I(i) => *i as f64,
        Val::F(f) => *f,
    }
}

pub fn eval_str<'a>(e: &Str, r: &'a Row) -> Option<&'static str> {
    match e {
        Str::Prop(v, p) => {
            let (_, n) = r.node(*v);
            match p {
                StrProp::S => Some(STR_POOL[n.s as usize % 8]),
                StrProp::T => n.t.map(|t| STR_POOL[t as usize % 8]),
            }
        }
        Str::Lit(i) => Some(STR_POOL[*i as usize % 8]),
    }
}

fn cmp<T: PartialOrd>(a: T, op: CmpOp, b: T) -> bool {
    match op {
        CmpOp::Eq => a == b,
        CmpOp::Ne => a != b,
        CmpOp::Lt => a < b,
        CmpOp::Le => a <= b,
        CmpOp::Gt => a > b,
        CmpOp::Ge => a >= b,
    }
}

/// SQL/Cypher three-valued logic. `None` = unknown.
pub fn eval_pred(p: &Pred, r: &Row) -> Option<bool> {
    match p {
        Pred::Cmp(a, op, b) => Some(cmp(as_f(&eval_num(a, r)?), *op, as_f(&eval_num(b, r)?))),
        Pred::StrCmp(a, op, b) => Some(cmp(eval_str(a, r)?, *op, eval_str(b, r)?)),
        Pred::StrMatch(a, op, pat) => {
            let s = eval_str(a, r)?;
            let p = PAT_POOL[*pat as usize % 5];
            Some(match op {
                StrOp::StartsWith => s.starts_with(p),
                StrOp::EndsWith => s.ends_with(p),
                StrOp::Contains => s.contains(p),
            })
        }
        Pred::InNum(a, l) => {
            let v = as_f(&eval_num(a, r)?);
            Some(l.iter().any(|c| f64::from(*c) == v))
        }
        Pred::InStr(a, l) => {
            let v = eval_str(a, r)?;
            Some(l.iter().any(|c| STR_POOL[*c as usize % 8] == v))
        }
        Pred::IsNull(v, p) => Some(eval_num(&Num::Prop(*v, *p), r).is_none()),
        Pred::IsNotNull(v, p) => Some(eval_num(&Num::Prop(*v, *p), r).is_some()),
        Pred::Mismatch(..) | Pred::EqNull(_) => None,
        Pred::Not(a) => eval_pred(a, r).map(|b| !b),
        Pred::And(a, b) => match (eval_pred(a, r), eval_pred(b, r)) {
            (Some(false), _) | (_, Some(false)) => Some(false),
            (Some(true), Some(true)) => Some(true),
            _ => None,
        },
        Pred::Or(a, b) => match (eval_pred(a, r), eval_pred(b, r)) {
            (Some(true), _) | (_, Some(true)) => Some(true),
            (Some(false), Some(false)) => Some(false),
            _ => None,
        },
    }
}

/// True when *every atom* of `p` is known on row `r` (the domain in which the two-way partition is
/// sound whatever way a front end collapses three-valued logic).
pub fn all_atoms_known(p: &Pred, r: &Row) -> bool {
    match p {
        Pred::Not(a) => all_atoms_known(a, r),
        Pred::And(a, b) | Pred::Or(a, b) => all_atoms_known(a, r) && all_atoms_known(b, r),
        Pred::IsNull(..) | Pred::IsNotNull(..) => true,
        atom => eval_pred(atom, r).is_some(),
    }
}

/// Does `p` apply unary minus to an expression that mentions a property?
pub fn contains_neg_of_prop(p: &Pred) -> bool {
    fn has_prop(e: &Num) -> bool {
        match e {
            Num::Prop(..) => true,
            Num::Lit(_) | Num::LitF(_) => false,
            Num::Add(a, b) | Num::Sub(a, b) | Num::Mul(a, b) => has_prop(a) || has_prop(b),
            Num::Mod(a, _) | Num::Neg(a) => has_prop(a),
        }
    }
    fn num(e: &Num) -> bool {
        match e {
            Num::Neg(a) => has_prop(a) || num(a),
            Num::Add(a, b) | Num::Sub(a, b) | Num::Mul(a, b) => num(a) || num(b),
            Num::Mod(a, _) => num(a),
            _ => false,
        }
    }
    match p {
        Pred::Not(a) => contains_neg_of_prop(a),
        Pred::And(a, b) | Pred::Or(a, b) => contains_neg_of_prop(a) || contains_neg_of_prop(b),
        Pred::Cmp(a, _, b) => num(a) || num(b),
        Pred::InNum(a, _) | Pred::EqNull(a) => num(a),
        _ => false,
    }
}

pub fn contains_in(p: &Pred) -> bool {
    match p {
        Pred::Not(a) => contains_in(a),
        Pred::And(a, b) | Pred::Or(a, b) => contains_in(a) || contains_in(b),
        Pred::InNum(..) | Pred::InStr(..) => true,
        _ => false,
    }
}

/// The rows of the base query over the spec: (n index, m index) pairs.
pub fn base_rows(g: &GraphSpec, base: Base) -> Vec<(usize, Option<usize>)> {
    match base {
        Base::Scan => (0..g.len()).map(|i| (i, None)).collect(),
        Base::Expand => g.edges().into_iter().map(|(a, b)| (a, Some(b))).collect(),
    }
}

/// Truth value of `p` per base row.
pub fn truth_table(g: &GraphSpec, base: Base, p: &Pred) -> Vec<((usize, Option<usize>), Option<bool>, bool)> {
    let nodes: Vec<NodeSpec> = (0..g.len()).map(|i| g.node(i)).collect();
    base_rows(g, base)
        .into_iter()
        .map(|(n, m)| {
            let row = Row { n: (n, &nodes[n]), m: m.map(|m| (m, &nodes[m])) };
            ((n, m), eval_pred(p, &row), all_atoms_known(p, &row))
        })
        .collect()
}
