//! C10 — not built yet.

use crate::driver::Run;

pub fn run(r: &mut Run) {
    r.inconclusive("C10: check not built yet");
}
