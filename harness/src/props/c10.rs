//! C10 — indexes, pruning, caching and execution strategy change speed, not answers.
//!
//! `physical`: one (graph history, query text) under index subsets x min/max summaries live/inert x
//! index+range shortcuts reachable/blocked x factorized off/on; reference = no index, inert summaries,
//! shortcuts blocked, flat. `cache`: session histories (execute / mutate / create+drop index / same text
//! through the other front end) where every answer must equal a cold session on an identical fresh database.

use std::collections::BTreeMap;

use proptest::prelude::*;
use serde::{Deserialize, Serialize};

use grafeo_engine::query::optimizer::Optimizer;
use grafeo_engine::query::plan::{BinaryOp, LogicalExpression, LogicalOperator, LogicalPlan};

use crate::driver::{CaseResult, Failure, Run, fail, guard, hash_dbg, ok};
use crate::props::c09::qgen::{
    self, Built, CmpOp, Dir, GraphSpec, Hop, Join, Lang, Mid, Mutation, NKEYS, Operand, PVal, PathSpec, Pred, PropRef, QuerySpec, Ret, Rows,
};

// ------------------------------------------------------------------------------------------------
// generators aimed at the planner's shortcuts
// ------------------------------------------------------------------------------------------------

fn eq_atom() -> impl Strategy<Value = Pred> {
    // equality on x (values 0..4, Int or Float), y or s with a literal that usually occurs in the data
    let key = prop_oneof![6 => Just(0u8), 2 => Just(1u8), 2 => Just(2u8), 1 => Just(3u8)];
    (key, prop_oneof![4 => Just(false), 1 => Just(true)]).prop_flat_map(|(k, rev)| {
        let l: BoxedStrategy<PVal> = match k {
            0 => prop_oneof![6 => (0i64..4).prop_map(PVal::I), 2 => (0i64..4).prop_map(|i| PVal::F(i as f64)), 1 => Just(PVal::F(2.5)), 1 => qgen::lit().boxed()].boxed(),
            1 => prop_oneof![6 => (-2i64..12).prop_map(PVal::I), 1 => (0i64..6).prop_map(|i| PVal::F(i as f64))].boxed(),
            _ => qgen::lit_for(k),
        };
        (Just(PropRef { var: 0, key: k }), l, Just(rev))
    }).prop_map(|(p, l, rev)| {
        if rev { Pred::Cmp(Operand::L(l), CmpOp::Eq, Operand::P(p)) } else { Pred::Cmp(Operand::P(p), CmpOp::Eq, Operand::L(l)) }
    })
}

fn range_atom() -> impl Strategy<Value = Pred> {
    (qgen::propref(1), prop_oneof![Just(CmpOp::Lt), Just(CmpOp::Le), Just(CmpOp::Gt), Just(CmpOp::Ge)], any::<bool>()).prop_flat_map(|(p, op, rev)| (Just(p), qgen::lit_for(p.key), Just(op), Just(rev))).prop_map(
        |(p, l, op, rev)| {
            if rev { Pred::Cmp(Operand::L(l), op, Operand::P(p)) } else { Pred::Cmp(Operand::P(p), op, Operand::L(l)) }
        },
    )
}

fn between() -> impl Strategy<Value = Pred> {
    (range_atom(), range_atom(), any::<bool>()).prop_map(|(a, b, same)| {
        // force the same property on both sides most of the time
        let b = match (&a, b, same) {
            (Pred::Cmp(Operand::P(p), _, _), Pred::Cmp(Operand::P(_), op, l), true) => Pred::Cmp(Operand::P(*p), op, l),
            (Pred::Cmp(_, _, Operand::P(p)), Pred::Cmp(l, op, Operand::P(_)), true) => Pred::Cmp(l, op, Operand::P(*p)),
            (_, b, _) => b,
        };
        Pred::And(Box::new(a), Box::new(b))
    })
}

fn and(a: Pred, b: Pred) -> Pred {
    Pred::And(Box::new(a), Box::new(b))
}

/// Predicates over a single scanned variable that *partly* match the index / range / min-max patterns.
fn scan_pred() -> BoxedStrategy<Pred> {
    prop_oneof![
        4 => (eq_atom(), qgen::atom(1)).prop_map(|(a, b)| and(a, b)).boxed(),
        1 => (qgen::atom(1), eq_atom()).prop_map(|(a, b)| and(a, b)).boxed(),
        2 => eq_atom().boxed(),
        1 => (eq_atom(), eq_atom()).prop_map(|(a, b)| and(a, b)).boxed(),
        1 => (eq_atom(), qgen::atom(1)).prop_map(|(a, b)| Pred::Or(Box::new(a), Box::new(b))).boxed(),
        1 => (eq_atom(), qgen::atom(1), qgen::atom(1)).prop_map(|(a, b, c)| and(a, Pred::Or(Box::new(b), Box::new(c)))).boxed(),
        3 => range_atom().boxed(),
        3 => between().boxed(),
        1 => (between(), qgen::atom(1)).prop_map(|(a, b)| and(a, b)).boxed(),
        3 => qgen::pred(1).boxed(),
    ]
    .boxed()
}

fn ret1(nvars: u8) -> impl Strategy<Value = Ret> {
    prop_oneof![
        3 => proptest::collection::vec(qgen::propref(nvars), 1..=2).prop_map(|items| Ret::Props { items, distinct: false, order: None, skip: None, limit: None }),
        2 => Just(Ret::CountStar),
    ]
}

fn label() -> impl Strategy<Value = Option<u8>> {
    prop_oneof![2 => Just(None), 3 => Just(Some(0u8)), 1 => Just(Some(1u8))]
}

/// `MATCH (n0[:L]) WHERE <scan_pred> RETURN ...`
fn scan_query() -> impl Strategy<Value = QuerySpec> {
    (label(), scan_pred(), ret1(1)).prop_map(|(label, p, ret)| QuerySpec {
        paths: vec![PathSpec { join: Join::Comma, share: None, label, inline: None, hops: vec![] }],
        pred: Some(p),
        mid: Mid::None,
        pred2: None,
        ret,
        write: None,
    })
}

/// One hop with an edge variable; the predicate mentions the edge's properties (whose names also
/// exist as node columns) and the end points.
fn edge_query() -> impl Strategy<Value = QuerySpec> {
    let dir = prop_oneof![3 => Just(Dir::Out), 1 => Just(Dir::In), 1 => Just(Dir::Both)];
    let ty = prop_oneof![1 => Just(None), 1 => Just(Some(0u8))];
    // vars: n0, n1, e0  (index 2 = the edge)
    let epred = (prop_oneof![Just(0u8), Just(1u8)], prop_oneof![3 => (0i64..20).prop_map(PVal::I).boxed(), 1 => qgen::lit().boxed()], prop_oneof![Just(CmpOp::Eq), Just(CmpOp::Gt), Just(CmpOp::Ge), Just(CmpOp::Lt), Just(CmpOp::Ne)])
        .prop_map(|(k, l, op)| Pred::Cmp(Operand::P(PropRef { var: 2, key: k }), op, Operand::L(l)))
        .boxed();
    let p = prop_oneof![
        3 => epred.clone(),
        2 => (epred.clone(), qgen::atom(3)).prop_map(|(a, b)| and(a, b)),
        1 => (epred, qgen::atom(3)).prop_map(|(a, b)| Pred::Or(Box::new(a), Box::new(b))),
        1 => qgen::pred(3),
    ];
    (label(), dir, ty, p, ret1(3)).prop_map(|(label, dir, ty, p, ret)| QuerySpec {
        paths: vec![PathSpec {
            join: Join::Comma,
            share: None,
            label,
            inline: None,
            hops: vec![Hop { dir, ty, evar: true, label: None, inline: None, einline: None, varlen: None }],
        }],
        pred: Some(p),
        mid: Mid::None,
        pred2: None,
        ret,
        write: None,
    })
}

/// 2-3 hop chains (what runs factorized), optionally filtered and aggregated.
fn chain_query() -> impl Strategy<Value = QuerySpec> {
    let hop = (prop_oneof![4 => Just(Dir::Out), 1 => Just(Dir::In)], prop_oneof![2 => Just(None), 2 => Just(Some(0u8)), 1 => Just(Some(1u8))], prop_oneof![3 => Just(false), 1 => Just(true)])
        .prop_map(|(dir, ty, evar)| Hop { dir, ty, evar, label: None, inline: None, einline: None, varlen: None });
    (label(), proptest::collection::vec(hop, 2..=3)).prop_flat_map(|(label, hops)| {
        let nv = (hops.len() + 1 + hops.iter().filter(|h| h.evar).count()) as u8;
        let ret = prop_oneof![
            3 => Just(Ret::CountStar),
            2 => proptest::collection::vec(qgen::propref(nv), 1..=2).prop_map(|items| Ret::Props { items, distinct: false, order: None, skip: None, limit: None }),
            1 => (qgen::propref(nv), qgen::propref(nv)).prop_map(|(a, g)| Ret::Agg { func: qgen::AggF::Count, arg: a, group: Some(g) }),
        ];
        (Just(label), Just(hops), prop_oneof![1 => Just(None), 1 => qgen::pred(nv).prop_map(Some)], ret).prop_map(|(label, hops, pred, ret)| QuerySpec {
            paths: vec![PathSpec { join: Join::Comma, share: None, label, inline: None, hops }],
            pred,
            mid: Mid::None,
            pred2: None,
            ret,
            write: None,
        })
    })
}

fn strip_limit(mut q: QuerySpec) -> QuerySpec {
    if let Ret::Props { skip, limit, .. } = &mut q.ret {
        *skip = None;
        *limit = None;
    }
    if matches!(q.mid, Mid::WithLimit(_)) {
        q.mid = Mid::None;
        q.pred2 = None;
    }
    q
}

fn phys_query() -> BoxedStrategy<QuerySpec> {
    prop_oneof![
        5 => scan_query().boxed(),
        2 => edge_query().boxed(),
        2 => chain_query().boxed(),
        2 => qgen::query(0).prop_map(strip_limit).boxed(),
    ]
    .boxed()
}

// ------------------------------------------------------------------------------------------------
// physical configurations
// ------------------------------------------------------------------------------------------------

#[derive(Debug, Clone, Serialize, Deserialize)]
pub struct PCase {
    pub graph: GraphSpec,
    /// applied after the indexes exist (index and min/max maintenance) ...
    pub after_index: Vec<Mutation>,
    /// ... unless the indexes are created last (built from existing data)
    pub index_last: bool,
    pub indexed: [bool; 4],
    pub query: QuerySpec,
    pub lang: Lang,
}

fn pcase(max_nodes: usize) -> impl Strategy<Value = PCase> {
    (
        prop_oneof![4 => qgen::graph(max_nodes, max_nodes * 2, false), 1 => qgen::graph(max_nodes, max_nodes * 2, true)],
        qgen::mutations(6, false),
        prop_oneof![3 => Just(false), 1 => Just(true)],
        any::<[bool; 4]>(),
        phys_query(),
        prop_oneof![Just(Lang::Gql), Just(Lang::Cypher)],
        0u8..10,
    )
        .prop_map(|(graph, after_index, index_last, indexed, query, lang, shape)| {
            // one case in five: a key column starts as explicit NULL placeholders on every node that has it and is
            // filled with the real values by the mutation batch (no removal touches that column, so the column's
            // min/max / null summary stays live): "placeholder first, value later" histories
            let (graph, after_index) = if shape < 2 { null_placeholders(graph, after_index, shape) } else { (graph, after_index) };
            PCase { graph, after_index, index_last, indexed, query, lang }
        })
}

/// Rewrites (graph, batch) so that node key `k` is NULL in the initial graph and set to its value by the batch.
fn null_placeholders(mut graph: GraphSpec, batch: Vec<Mutation>, k: u8) -> (GraphSpec, Vec<Mutation>) {
    let n = graph.nodes.len();
    let mut sets = Vec::new();
    for (j, node) in graph.nodes.iter_mut().enumerate() {
        for (key, val) in node.props.iter_mut() {
            if *key == k && *val != qgen::PVal::Null {
                // inverse of driver::pick: a selector that maps to node j of n
                let sel = (((j as u64) * 65536 + n as u64 - 1) / n as u64).min(65535) as u16;
                sets.push(Mutation::SetProp(sel, k, val.clone()));
                *val = qgen::PVal::Null;
            }
        }
    }
    // the node list must stay as loaded (selectors above), and nothing may remove from column k
    let mut out: Vec<Mutation> = batch
        .into_iter()
        .filter(|m| !matches!(m, Mutation::AddNode(_) | Mutation::DelNode(_)) && !matches!(m, Mutation::RemProp(_, key) if *key == k))
        .collect();
    out.extend(sets);
    (graph, out)
}

type Outcome = Result<Rows, String>;

#[derive(Debug, Clone, Copy, PartialEq, Eq, PartialOrd, Ord)]
struct Cfg {
    idx: u8, // 0 none, 1 the generated subset, 2 all keys
    zm_live: bool,
    shortcuts: bool,
    fact: bool,
}

const REF: Cfg = Cfg { idx: 0, zm_live: false, shortcuts: false, fact: false };

fn build_p(c: &PCase, idx: u8, zm_live: bool) -> Built {
    let mut b = Built::new(true);
    b.load(&c.graph);
    let create = |b: &Built| {
        for (k, on) in c.indexed.iter().enumerate() {
            if idx == 2 || (idx == 1 && *on) {
                b.db.create_property_index(NKEYS[k]);
            }
        }
    };
    if !c.index_last {
        create(&b);
    }
    for m in &c.after_index {
        b.apply(m);
    }
    if c.index_last {
        create(&b);
    }
    if !zm_live {
        b.neutralize_zone_maps();
    }
    b
}

fn agree(a: &Outcome, b: &Outcome) -> bool {
    match (a, b) {
        (Ok(x), Ok(y)) => qgen::sorted(x) == qgen::sorted(y),
        (Err(_), Err(_)) => true,
        _ => false,
    }
}

fn short(o: &Outcome) -> String {
    match o {
        Ok(r) => crate::driver::truncate(&format!("{} rows {:?}", r.len(), qgen::sorted(r)), 400),
        Err(e) => format!("Err({e})"),
    }
}

fn relation(base: &Outcome, other: &Outcome) -> &'static str {
    match (base, other) {
        (Ok(b), Ok(o)) => {
            if qgen::sub_multiset(b, o) {
                "extra-rows"
            } else if qgen::sub_multiset(o, b) {
                "missing-rows"
            } else {
                "rows-differ"
            }
        }
        (Ok(_), Err(e)) if e.contains("not found") => "column-not-found",
        (Ok(_), Err(_)) => "error",
        (Err(_), Ok(_)) => "rows-for-error",
        _ => "other",
    }
}

/// Facts about the `Filter(NodeScan)` operators of a plan (where the index / range shortcuts apply) and
/// about filters in general (where the min/max check applies).
#[derive(Default, Debug)]
struct PlanFacts {
    /// Filter directly over a plain NodeScan with an `var.key = literal` conjunct on an indexed key
    index_applicable: bool,
    /// ... and a further conjunct that is not such an equality
    index_extra_conjunct: bool,
    /// ... and the equality literal is numeric
    index_numeric_literal: bool,
    /// Filter directly over a plain NodeScan whose whole predicate is a range comparison / BETWEEN pair
    range_applicable: bool,
    range_numeric_literal: bool,
    range_bool_literal: bool,
    /// some filter compares a property of an edge variable with a literal
    edge_prop_vs_literal: bool,
    /// some filter compares a property with a literal using <>
    ne_literal: bool,
    /// some filter has a `prop op literal` comparison at all (min/max check reachable)
    prop_vs_literal: bool,
}

fn and_chain<'a>(e: &'a LogicalExpression, out: &mut Vec<&'a LogicalExpression>) {
    match e {
        LogicalExpression::Binary { left, op: BinaryOp::And, right } => {
            and_chain(left, out);
            and_chain(right, out);
        }
        other => out.push(other),
    }
}

fn prop_lit(e: &LogicalExpression) -> Option<(&str, &str, BinaryOp, &grafeo_common::types::Value)> {
    if let LogicalExpression::Binary { left, op, right } = e {
        match (left.as_ref(), right.as_ref()) {
            (LogicalExpression::Property { variable, property }, LogicalExpression::Literal(v)) | (LogicalExpression::Literal(v), LogicalExpression::Property { variable, property }) => {
                return Some((variable.as_str(), property.as_str(), *op, v));
            }
            _ => {}
        }
    }
    None
}

fn walk_expr(e: &LogicalExpression, edge_vars: &[String], f: &mut PlanFacts) {
    if let Some((var, _, op, _)) = prop_lit(e) {
        if matches!(op, BinaryOp::Eq | BinaryOp::Ne | BinaryOp::Lt | BinaryOp::Le | BinaryOp::Gt | BinaryOp::Ge) {
            f.prop_vs_literal = true;
            if edge_vars.iter().any(|v| v == var) {
                f.edge_prop_vs_literal = true;
            }
            if op == BinaryOp::Ne {
                f.ne_literal = true;
            }
        }
    }
    match e {
        LogicalExpression::Binary { left, right, .. } => {
            walk_expr(left, edge_vars, f);
            walk_expr(right, edge_vars, f);
        }
        LogicalExpression::Unary { operand, .. } => walk_expr(operand, edge_vars, f),
        _ => {}
    }
}

fn facts(op: &LogicalOperator, indexed: &dyn Fn(&str) -> bool, edge_vars: &mut Vec<String>, f: &mut PlanFacts) {
    use grafeo_common::types::Value;
    use LogicalOperator as L;
    match op {
        L::Filter(fl) => {
            // children first so that edge variables below are known
            facts(&fl.input, indexed, edge_vars, f);
            walk_expr(&fl.predicate, edge_vars, f);
            if let L::NodeScan(s) = fl.input.as_ref() {
                if s.input.is_none() {
                    let mut cs = Vec::new();
                    and_chain(&fl.predicate, &mut cs);
                    let is_eq = |c: &LogicalExpression| matches!(prop_lit(c), Some((v, _, BinaryOp::Eq, _)) if v == s.variable);
                    let eqs: Vec<&LogicalExpression> = cs.iter().copied().filter(|c| is_eq(c)).collect();
                    let hit = eqs.iter().any(|c| prop_lit(c).is_some_and(|(_, k, _, _)| indexed(k)));
                    if hit {
                        f.index_applicable = true;
                        if cs.len() > eqs.len() {
                            f.index_extra_conjunct = true;
                        }
                        if eqs.iter().any(|c| matches!(prop_lit(c), Some((_, _, _, Value::Int64(_) | Value::Float64(_))))) {
                            f.index_numeric_literal = true;
                        }
                    }
                    let is_range = |c: &LogicalExpression| matches!(prop_lit(c), Some((v, _, BinaryOp::Lt | BinaryOp::Le | BinaryOp::Gt | BinaryOp::Ge, _)) if v == s.variable);
                    let whole_range = match &fl.predicate {
                        LogicalExpression::Binary { left, op: BinaryOp::And, right } => is_range(left) && is_range(right),
                        p => is_range(p),
                    };
                    if whole_range {
                        f.range_applicable = true;
                        for c in &cs {
                            match prop_lit(c) {
                                Some((_, _, _, Value::Int64(_) | Value::Float64(_))) => f.range_numeric_literal = true,
                                Some((_, _, _, Value::Bool(_))) => f.range_bool_literal = true,
                                _ => {}
                            }
                        }
                    }
                }
            }
        }
        L::Expand(e) => {
            facts(&e.input, indexed, edge_vars, f);
            if let Some(v) = &e.edge_variable {
                edge_vars.push(v.clone());
            }
        }
        L::NodeScan(s) => {
            if let Some(i) = &s.input {
                facts(i, indexed, edge_vars, f);
            }
        }
        L::Project(p) => facts(&p.input, indexed, edge_vars, f),
        L::Join(j) => {
            facts(&j.left, indexed, edge_vars, f);
            facts(&j.right, indexed, edge_vars, f);
        }
        L::LeftJoin(j) => {
            facts(&j.left, indexed, edge_vars, f);
            facts(&j.right, indexed, edge_vars, f);
        }
        L::Aggregate(a) => facts(&a.input, indexed, edge_vars, f),
        L::Limit(l) => facts(&l.input, indexed, edge_vars, f),
        L::Skip(l) => facts(&l.input, indexed, edge_vars, f),
        L::Sort(l) => facts(&l.input, indexed, edge_vars, f),
        L::Distinct(l) => facts(&l.input, indexed, edge_vars, f),
        L::Return(r) => facts(&r.input, indexed, edge_vars, f),
        _ => {}
    }
}

fn plan_facts(plan: &LogicalPlan, indexed: &dyn Fn(&str) -> bool) -> PlanFacts {
    let mut f = PlanFacts::default();
    let mut ev = Vec::new();
    facts(&plan.root, indexed, &mut ev, &mut f);
    f
}

fn has_del_node(ms: &[Mutation]) -> bool {
    ms.iter().any(|m| matches!(m, Mutation::DelNode(_)))
}

fn hetero_graph(c: &PCase) -> bool {
    // a column holding values of more than one kind (numeric / string / bool / null)
    let kind = |v: &PVal| match v {
        PVal::I(_) | PVal::F(_) => 0,
        PVal::S(_) => 1,
        PVal::B(_) => 2,
        PVal::Null => 3,
    };
    let mut seen: BTreeMap<u8, Vec<i32>> = BTreeMap::new();
    let mut add = |k: u8, v: &PVal| {
        let e = seen.entry(k % 4).or_default();
        if !e.contains(&kind(v)) {
            e.push(kind(v));
        }
    };
    for n in &c.graph.nodes {
        for (k, v) in &n.props {
            add(*k, v);
        }
    }
    for m in &c.after_index {
        match m {
            Mutation::AddNode(n) => n.props.iter().for_each(|(k, v)| add(*k, v)),
            Mutation::SetProp(_, k, v) => add(*k, v),
            _ => {}
        }
    }
    seen.values().any(|v| v.len() > 1)
}

pub fn check_physical(c: &PCase) -> CaseResult {
    let lang = match c.lang {
        Lang::Gql => "gql",
        Lang::Cypher => "cypher",
    };
    let Some(text) = c.query.render(c.lang, false) else {
        return ok(false, format!("{lang}/not-expressible"), hash_dbg(c));
    };
    let plan = match guard("translate", || qgen::translate(c.lang, &text))? {
        Ok(p) => p,
        Err(_) => return ok(false, format!("{lang}/rejected"), hash_dbg(c)),
    };

    let mut results: BTreeMap<Cfg, Outcome> = BTreeMap::new();
    let mut opt_plan: Option<LogicalPlan> = None;
    let idx_levels: &[u8] = if c.indexed.iter().any(|b| *b) && !c.indexed.iter().all(|b| *b) { &[0, 1, 2] } else { &[0, 2] };
    for &idx in idx_levels {
        for zm_live in [false, true] {
            let b = guard("build", || build_p(c, idx, zm_live))?;
            // same pipeline as Session::execute: statistics-backed optimizer with every rewrite on
            let optimized = match guard("optimize", || Optimizer::from_store(b.db.store()).optimize(plan.clone()))? {
                Ok(p) => p,
                Err(e) => return fail("c10/optimize-error", format!("{text}: {e}")),
            };
            let blocked = LogicalPlan::new(qgen::with_scan_barrier(&optimized.root));
            if opt_plan.is_none() {
                opt_plan = Some(optimized.clone());
            }
            for shortcuts in [false, true] {
                for fact in [false, true] {
                    let p = if shortcuts { &optimized } else { &blocked };
                    let o = guard("execute", || qgen::execute(&b.db, p, fact))?;
                    results.insert(Cfg { idx, zm_live, shortcuts, fact }, o);
                }
            }
        }
    }
    let opt_plan = opt_plan.unwrap();
    let reference = results[&REF].clone();

    let mismatch: Vec<Cfg> = results.iter().filter(|(_, o)| !agree(&reference, o)).map(|(k, _)| *k).collect();
    if !mismatch.is_empty() {
        let any_idx = |k: &str| NKEYS.iter().position(|n| *n == k).is_some();
        let sub_idx = |k: &str| NKEYS.iter().position(|n| *n == k).is_some_and(|i| c.indexed[i]);
        // single-feature probes, in order
        let probe = |cfg: Cfg| -> Option<&Outcome> { results.get(&cfg).filter(|o| !agree(&reference, o)) };
        let (sig, cfg): (String, Cfg) = if let Some(o) = probe(Cfg { fact: true, ..REF }) {
            let chains = qgen::expand_chains(&opt_plan.root);
            (format!("c10/factorized/{}{}", relation(&reference, o), if chains == 0 { "/no-chain" } else { "" }), Cfg { fact: true, ..REF })
        } else if let Some(o) = probe(Cfg { zm_live: true, ..REF }) {
            let f = plan_facts(&opt_plan, &any_idx);
            let why = if f.edge_prop_vs_literal {
                "edge-predicate"
            } else if f.ne_literal && hetero_graph(c) {
                "ne-on-mixed-type-column"
            } else if hetero_graph(c) {
                "mixed-type-column"
            } else {
                "node-predicate"
            };
            (format!("c10/minmax/{}/{why}", relation(&reference, o)), Cfg { zm_live: true, ..REF })
        } else if let Some(o) = probe(Cfg { shortcuts: true, ..REF }) {
            let f = plan_facts(&opt_plan, &any_idx);
            let why = if !f.range_applicable {
                "not-a-range-filter"
            } else if f.range_bool_literal {
                "bool-literal"
            } else if f.range_numeric_literal {
                "numeric-literal"
            } else {
                "other-literal"
            };
            (format!("c10/range-path/{}/{why}", relation(&reference, o)), Cfg { shortcuts: true, ..REF })
        } else if let Some((cfg, o, f)) = [2u8, 1u8].iter().find_map(|&i| {
            let cfg = Cfg { idx: i, shortcuts: true, ..REF };
            let base = results.get(&Cfg { idx: 0, shortcuts: true, ..REF })?;
            let o = results.get(&cfg)?;
            if agree(base, o) {
                return None;
            }
            let f = if i == 2 { plan_facts(&opt_plan, &any_idx) } else { plan_facts(&opt_plan, &sub_idx) };
            Some((cfg, o, f))
        }) {
            let base = &results[&Cfg { idx: 0, shortcuts: true, ..REF }];
            let why = if !f.index_applicable {
                "index-path-not-applicable"
            } else {
                match (relation(base, o), f.index_extra_conjunct, f.index_numeric_literal, has_del_node(&c.after_index)) {
                    ("extra-rows", true, _, _) => "extra-conjunct-dropped",
                    ("extra-rows", false, _, true) => "deleted-node-still-indexed",
                    ("missing-rows", _, true, _) => "numeric-literal-typed-lookup",
                    _ => "other",
                }
            };
            (format!("c10/index-path/{}/{why}", relation(base, o)), cfg)
        } else {
            (format!("c10/combination/{}", relation(&reference, &results[&mismatch[0]])), mismatch[0])
        };
        return fail(
            sig,
            format!(
                "{text}\n reference (no index, inert min/max, shortcuts blocked, flat): {}\n {cfg:?}: {}\n all mismatching configurations: {:?}\n plan: {}",
                short(&reference),
                short(&results[&cfg]),
                mismatch,
                crate::driver::truncate(&format!("{:?}", opt_plan.root), 1200)
            ),
        );
    }

    // non-trivial: a predicate on an indexed or min/max-summarised property, rows in some configuration
    let f = plan_facts(&opt_plan, &|k| NKEYS.iter().any(|n| *n == k));
    let rows = results.values().any(|o| matches!(o, Ok(r) if !(r.is_empty() || (r.len() == 1 && r[0].iter().all(|v| v == "i:0" || v == "null")))));
    let shape = if f.index_applicable && f.index_extra_conjunct {
        "index+extra"
    } else if f.index_applicable {
        "index"
    } else if f.range_applicable {
        "range"
    } else if f.edge_prop_vs_literal {
        "edge-pred"
    } else if qgen::expand_chains(&opt_plan.root) > 0 {
        "chain"
    } else if f.prop_vs_literal {
        "minmax"
    } else {
        "other"
    };
    let class = format!("{lang}/{shape}/{}", if reference.is_err() { "err" } else if rows { "rows" } else { "empty" });
    ok(f.prop_vs_literal && rows, class, hash_dbg(&(&c.graph, &c.after_index, c.index_last, c.indexed, &text)))
}

// ------------------------------------------------------------------------------------------------
// plan cache / session histories
// ------------------------------------------------------------------------------------------------

#[derive(Debug, Clone, Serialize, Deserialize)]
pub enum Step {
    /// execute query `q` rendered for `text_lang` through the `run_lang` front end
    Exec { q: u8, text_lang: Lang, run_lang: Lang },
    Mutate(Vec<Mutation>),
    CreateIndex(u8),
    DropIndex(u8),
}

#[derive(Debug, Clone, Serialize, Deserialize)]
pub struct HCase {
    pub graph: GraphSpec,
    pub queries: Vec<QuerySpec>,
    pub steps: Vec<Step>,
    pub factorized: bool,
}

fn lang() -> impl Strategy<Value = Lang> {
    prop_oneof![Just(Lang::Gql), Just(Lang::Cypher)]
}

fn hcase(max_nodes: usize) -> impl Strategy<Value = HCase> {
    let step = prop_oneof![
        6 => (0u8..2, lang(), any::<bool>()).prop_map(|(q, l, cross)| {
            let other = if l == Lang::Gql { Lang::Cypher } else { Lang::Gql };
            Step::Exec { q, text_lang: l, run_lang: if cross { other } else { l } }
        }),
        2 => qgen::mutations(4, false).prop_map(Step::Mutate),
        1 => (0u8..4).prop_map(Step::CreateIndex),
        1 => (0u8..4).prop_map(Step::DropIndex),
    ];
    let q = prop_oneof![2 => scan_query().boxed(), 1 => chain_query().boxed(), 3 => qgen::query(0).boxed()].boxed();
    (qgen::graph(max_nodes, max_nodes * 2, false), proptest::collection::vec(q, 2), proptest::collection::vec(step, 2..10), any::<bool>())
        .prop_map(|(graph, queries, steps, factorized)| HCase { graph, queries, steps, factorized })
}

fn session_exec(b: &Built, session: &grafeo_engine::Session, lang: Lang, text: &str) -> Result<Outcome, Failure> {
    let _ = b;
    let r = guard("session.execute", || match lang {
        Lang::Gql => session.execute(text),
        Lang::Cypher => session.execute_cypher(text),
    })?;
    Ok(match r {
        Ok(qr) => Ok(qr.rows.iter().map(|r| r.iter().map(qgen::canon).collect()).collect()),
        Err(e) => Err(e.to_string()),
    })
}

fn apply_step(b: &mut Built, s: &Step) {
    match s {
        Step::Mutate(ms) => ms.iter().for_each(|m| b.apply(m)),
        Step::CreateIndex(k) => b.db.create_property_index(NKEYS[*k as usize % 4]),
        Step::DropIndex(k) => {
            b.db.drop_property_index(NKEYS[*k as usize % 4]);
        }
        Step::Exec { .. } => {}
    }
}

pub fn check_history(c: &HCase) -> CaseResult {
    let mut live = guard("build", || {
        let mut b = Built::new(c.factorized);
        b.load(&c.graph);
        b
    })?;
    let session = live.db.session();
    let mut seen_texts: Vec<(String, Lang)> = Vec::new();
    let mut warm = 0usize;
    let mut cross = 0usize;
    let mut after_change = 0usize;
    let mut rows_seen = false;
    let mut changed_since: BTreeMap<String, bool> = BTreeMap::new();
    for (i, s) in c.steps.iter().enumerate() {
        match s {
            Step::Exec { q, text_lang, run_lang } => {
                let spec = &c.queries[*q as usize % c.queries.len()];
                let Some(text) = spec.render(*text_lang, true) else { continue };
                let got = session_exec(&live, &session, *run_lang, &text)?;
                // cold: identical fresh database, fresh session, empty cache
                let cold_db = guard("rebuild", || {
                    let mut b = Built::new(c.factorized);
                    b.load(&c.graph);
                    for p in &c.steps[..i] {
                        apply_step(&mut b, p);
                    }
                    b
                })?;
                let cold_session = cold_db.db.session();
                let want = session_exec(&cold_db, &cold_session, *run_lang, &text)?;
                let same = match (&got, &want) {
                    (Ok(a), Ok(b)) => qgen::sorted(a) == qgen::sorted(b),
                    (Err(_), Err(_)) => true,
                    _ => false,
                };
                let was_seen_same = seen_texts.iter().any(|(t, l)| *t == text && l == run_lang);
                let was_seen_other = seen_texts.iter().any(|(t, l)| *t == text && l != run_lang);
                if !same {
                    let sig = if was_seen_other && !was_seen_same {
                        "c10/cache/answer-from-other-language"
                    } else if was_seen_same {
                        "c10/cache/warm-differs-from-cold"
                    } else {
                        "c10/cache/first-execution-differs-from-cold"
                    };
                    return fail(
                        sig,
                        format!("step {i}: {run_lang:?} {text}\n this session: {}\n cold session on an identical database: {}", short(&got), short(&want)),
                    );
                }
                if was_seen_same {
                    warm += 1;
                    if changed_since.get(&text).copied().unwrap_or(false) {
                        after_change += 1;
                    }
                }
                if was_seen_other {
                    cross += 1;
                }
                if matches!(&got, Ok(r) if !r.is_empty()) {
                    rows_seen = true;
                }
                seen_texts.push((text.clone(), *run_lang));
                changed_since.insert(text, false);
            }
            other => {
                guard("step", || apply_step(&mut live, other))?;
                for v in changed_since.values_mut() {
                    *v = true;
                }
            }
        }
    }
    let class = format!(
        "{}{}{}{}",
        if warm > 0 { "warm" } else { "cold-only" },
        if after_change > 0 { "+after-change" } else { "" },
        if cross > 0 { "+cross-language" } else { "" },
        if rows_seen { "/rows" } else { "/empty" }
    );
    ok(warm > 0 && rows_seen, class, hash_dbg(c))
}

pub fn run(r: &mut Run) {
    r.level = "exploration";
    r.rule = "physical: generated (graph history with index creation before or after a mutation batch, query text) with predicates that partly \
              match the index / range / min-max patterns (equality + extra conjuncts, OR, Int/Float literal forms, reversed operands, BETWEEN pairs, \
              literals inside/outside the column range, edge properties named like node columns, missing properties, mixed-type columns in 1/5 of graphs), \
              executed under index subsets {none, generated, all} x min/max summaries {live, made inert by a set+remove on a scratch node} x \
              index/range shortcuts {reachable, blocked by an identity Skip(0) between Filter and NodeScan} x factorized {off,on}; \
              non-trivial = the plan compares a property with a literal (index / range / min-max reachable) and some configuration returns rows. \
              cache: session histories (execute, mutate, create/drop index, same text through the other front end); every answer is compared with a cold \
              session on an identically rebuilt database; non-trivial = a plan-cache hit (same text, same language) that returns rows. \
              distinct by hash of the case"
        .into();
    r.assumptions.push("the generic filter (FilterOperator + ExpressionPredicate over a full scan) defines the answer; shortcuts must agree with it".into());
    r.assumptions.push("Skip(0) is the identity; it is inserted only to make the planner fall through to the generic filter".into());
    r.assumptions.push("databases rebuilt from the same operation sequence are identical (ids are allocated sequentially)".into());

    let nodes = if r.is_thorough() { 30 } else { 16 };
    r.subcheck("physical", r.cases(10_000, 200_000), move || pcase(nodes), check_physical);
    r.subcheck("cache", r.cases(4_000, 60_000), move || hcase(nodes), check_history);
}
