//! C08 — not built yet.

use crate::driver::Run;

pub fn run(r: &mut Run) {
    r.inconclusive("C08: check not built yet");
}
