//! Shared by C09 and C10: plain-data graph spec, mutation batches, a small query AST rendered to GQL
//! and Cypher text, a database builder and the query pipeline assembled from the public pieces
//! (translate -> Binder -> Optimizer -> Planner -> Executor) the way `session.rs` does it.

use std::sync::Arc;

use proptest::prelude::*;
use serde::{Deserialize, Serialize};

use grafeo_common::types::{EdgeId, NodeId, Value};
use grafeo_engine::query::binder::Binder;
use grafeo_engine::query::plan::{LogicalOperator, LogicalPlan, SkipOp};
use grafeo_engine::query::{Executor, Planner};
use grafeo_engine::{Config, GrafeoDB};

use crate::driver::pick;

pub const LABELS: [&str; 3] = ["A", "B", "C"];
pub const ETYPES: [&str; 2] = ["R", "S"];
pub const NKEYS: [&str; 4] = ["x", "y", "s", "w"];
/// Edge property keys deliberately reuse node key names (the min/max check looks at node columns).
pub const EKEYS: [&str; 2] = ["w", "x"];

// ------------------------------------------------------------------------------------------------
// Values
// ------------------------------------------------------------------------------------------------

#[derive(Debug, Clone, PartialEq, Serialize, Deserialize)]
pub enum PVal {
    I(i64),
    F(f64),
    S(String),
    B(bool),
    Null,
}

impl PVal {
    pub fn to_value(&self) -> Value {
        match self {
            PVal::I(i) => Value::Int64(*i),
            PVal::F(f) => Value::Float64(*f),
            PVal::S(s) => Value::from(s.as_str()),
            PVal::B(b) => Value::Bool(*b),
            PVal::Null => Value::Null,
        }
    }
    pub fn render(&self) -> String {
        match self {
            PVal::I(i) => format!("{i}"),
            PVal::F(f) => format!("{f:?}"),
            PVal::S(s) => format!("'{s}'"),
            PVal::B(b) => format!("{b}"),
            PVal::Null => "null".into(),
        }
    }
    pub fn is_numeric(&self) -> bool {
        matches!(self, PVal::I(_) | PVal::F(_))
    }
}

fn float_pool() -> impl Strategy<Value = f64> {
    prop_oneof![Just(1.0), Just(2.5), Just(3.0), Just(0.5), Just(4.0), Just(7.5)]
}

/// Values for node key `k` (index into NKEYS). `hetero` allows off-type values in a column.
fn node_val(k: usize, hetero: bool) -> BoxedStrategy<PVal> {
    let off: BoxedStrategy<PVal> = prop_oneof![
        Just(PVal::S("a".into())),
        Just(PVal::B(true)),
        Just(PVal::Null),
        (0i64..4).prop_map(PVal::I)
    ]
    .boxed();
    let main: BoxedStrategy<PVal> = match k {
        0 => prop_oneof![8 => (0i64..4).prop_map(PVal::I), 2 => float_pool().prop_map(PVal::F)].boxed(),
        1 => (-2i64..12).prop_map(PVal::I).boxed(), // homogeneous Int column (ORDER BY over mixed Int/Float is not a total order in this engine)
        2 => prop_oneof![Just("a"), Just("b"), Just("c"), Just("ab")].prop_map(|s| PVal::S(s.into())).boxed(),
        _ => prop_oneof![3 => float_pool().prop_map(PVal::F), 2 => (0i64..5).prop_map(PVal::I)].boxed(),
    };
    if hetero { prop_oneof![12 => main, 1 => off].boxed() } else { main }
}

fn edge_val(k: usize) -> BoxedStrategy<PVal> {
    match k {
        0 => prop_oneof![3 => (0i64..6).prop_map(PVal::I), 1 => float_pool().prop_map(PVal::F)].boxed(),
        // edge x reaches beyond the node column x (0..6) on purpose
        _ => (0i64..20).prop_map(PVal::I).boxed(),
    }
}

/// Literals for predicates: inside and outside the data ranges, Int and Float forms of the same number.
pub fn lit() -> impl Strategy<Value = PVal> {
    prop_oneof![
        8 => (-3i64..15).prop_map(PVal::I),
        3 => float_pool().prop_map(PVal::F),
        2 => (0i64..6).prop_map(|i| PVal::F(i as f64)),
        2 => prop_oneof![Just("a"), Just("b"), Just("c"), Just("zz")].prop_map(|s| PVal::S(s.into())),
        1 => any::<bool>().prop_map(PVal::B),
    ]
}

// ------------------------------------------------------------------------------------------------
// Graph spec and mutations
// ------------------------------------------------------------------------------------------------

#[derive(Debug, Clone, PartialEq, Serialize, Deserialize)]
pub struct GNode {
    pub labels: Vec<u8>,
    pub props: Vec<(u8, PVal)>,
}

#[derive(Debug, Clone, PartialEq, Serialize, Deserialize)]
pub struct GEdge {
    pub src: u16,
    pub dst: u16,
    pub ty: u8,
    pub props: Vec<(u8, PVal)>,
}

#[derive(Debug, Clone, PartialEq, Serialize, Deserialize)]
pub struct GraphSpec {
    pub nodes: Vec<GNode>,
    pub edges: Vec<GEdge>,
}

#[derive(Debug, Clone, PartialEq, Serialize, Deserialize)]
pub enum Mutation {
    AddNode(GNode),
    AddEdge(GEdge),
    DelNode(u16),
    DelEdge(u16),
    SetProp(u16, u8, PVal),
    RemProp(u16, u8),
    SetEdgeProp(u16, u8, PVal),
}

pub fn gnode(hetero: bool) -> impl Strategy<Value = GNode> {
    let labels = prop_oneof![
        6 => Just(vec![0u8]),
        3 => Just(vec![1u8]),
        1 => Just(vec![2u8]),
        1 => Just(vec![]),
        1 => Just(vec![0u8, 1u8]),
    ];
    let p = move |k: usize, pct: u32| {
        prop_oneof![pct => node_val(k, hetero).prop_map(Some), (100 - pct) => Just(None)]
    };
    (labels, p(0, 90), p(1, 80), p(2, 60), p(3, 60)).prop_map(|(labels, x, y, s, w)| {
        let mut props = Vec::new();
        for (k, v) in [x, y, s, w].into_iter().enumerate() {
            if let Some(v) = v {
                props.push((k as u8, v));
            }
        }
        GNode { labels, props }
    })
}

pub fn gedge() -> impl Strategy<Value = GEdge> {
    let src = prop_oneof![2 => 0u16..8192, 3 => any::<u16>()]; // hubs: the first eighth of the nodes
    let ty = prop_oneof![5 => Just(0u8), 1 => Just(1u8)];
    let w = prop_oneof![4 => edge_val(0).prop_map(Some), 1 => Just(None)];
    let x = prop_oneof![1 => edge_val(1).prop_map(Some), 2 => Just(None)];
    (src, any::<u16>(), ty, w, x).prop_map(|(src, dst, ty, w, x)| {
        let mut props = Vec::new();
        if let Some(v) = w {
            props.push((0u8, v));
        }
        if let Some(v) = x {
            props.push((1u8, v));
        }
        GEdge { src, dst, ty, props }
    })
}

pub fn graph(max_nodes: usize, max_edges: usize, hetero: bool) -> impl Strategy<Value = GraphSpec> {
    let n = prop_oneof![1 => 0usize..3, 6 => 3usize..=max_nodes.max(3)];
    n.prop_flat_map(move |n| {
        let e = if n == 0 { 0..1 } else { (n.min(max_edges) / 2)..(max_edges.min(n * 3) + 1) };
        (proptest::collection::vec(gnode(hetero), n), proptest::collection::vec(gedge(), e))
            .prop_map(|(nodes, edges)| GraphSpec { nodes, edges })
    })
}

pub fn mutation(hetero: bool) -> impl Strategy<Value = Mutation> {
    prop_oneof![
        3 => gnode(hetero).prop_map(Mutation::AddNode),
        3 => gedge().prop_map(Mutation::AddEdge),
        1 => any::<u16>().prop_map(Mutation::DelNode),
        2 => any::<u16>().prop_map(Mutation::DelEdge),
        4 => (any::<u16>(), 0u8..4).prop_flat_map(move |(n, k)| node_val(k as usize, hetero).prop_map(move |v| Mutation::SetProp(n, k, v))),
        2 => (any::<u16>(), 0u8..4).prop_map(|(n, k)| Mutation::RemProp(n, k)),
        1 => (any::<u16>(), 0u8..2).prop_flat_map(|(e, k)| edge_val(k as usize).prop_map(move |v| Mutation::SetEdgeProp(e, k, v))),
    ]
}

pub fn mutations(max: usize, hetero: bool) -> impl Strategy<Value = Vec<Mutation>> {
    proptest::collection::vec(mutation(hetero), 0..=max)
}

/// A database plus the live ids (in creation order) the spec indices are mapped onto.
pub struct Built {
    pub db: GrafeoDB,
    pub nodes: Vec<NodeId>,
    pub edges: Vec<(EdgeId, NodeId, NodeId)>,
}

impl Built {
    pub fn new(factorized: bool) -> Built {
        let cfg = if factorized { Config::in_memory() } else { Config::in_memory().without_factorized_execution() };
        let db = GrafeoDB::with_config(cfg).expect("in-memory database");
        Built { db, nodes: Vec::new(), edges: Vec::new() }
    }

    /// Burns `n` node ids (creates and deletes `n` nodes) so that every live node id is larger than
    /// every edge id. Untyped id columns (above joins, LIMIT, ...) are resolved "as node first, then as
    /// edge"; with disjoint id ranges that ambiguity cannot pick the wrong entity.
    pub fn pad_ids(&mut self, n: usize) {
        let ids: Vec<NodeId> = (0..n).map(|_| self.db.create_node(&[])).collect();
        for id in ids {
            self.db.delete_node(id);
        }
    }

    pub fn add_node(&mut self, n: &GNode) {
        let labels: Vec<&str> = n.labels.iter().map(|l| LABELS[*l as usize % 3]).collect();
        let props: Vec<(&str, Value)> = n.props.iter().map(|(k, v)| (NKEYS[*k as usize % 4], v.to_value())).collect();
        let id = self.db.create_node_with_props(&labels, props);
        self.nodes.push(id);
    }

    pub fn add_edge(&mut self, e: &GEdge) {
        if self.nodes.is_empty() {
            return;
        }
        let s = self.nodes[pick(e.src, self.nodes.len())];
        let d = self.nodes[pick(e.dst, self.nodes.len())];
        let props: Vec<(&str, Value)> = e.props.iter().map(|(k, v)| (EKEYS[*k as usize % 2], v.to_value())).collect();
        let id = self.db.create_edge_with_props(s, d, ETYPES[e.ty as usize % 2], props);
        self.edges.push((id, s, d));
    }

    pub fn load(&mut self, g: &GraphSpec) {
        for n in &g.nodes {
            self.add_node(n);
        }
        for e in &g.edges {
            self.add_edge(e);
        }
    }

    pub fn apply(&mut self, m: &Mutation) {
        match m {
            Mutation::AddNode(n) => self.add_node(n),
            Mutation::AddEdge(e) => self.add_edge(e),
            Mutation::DelNode(i) => {
                if self.nodes.is_empty() {
                    return;
                }
                let id = self.nodes.remove(pick(*i, self.nodes.len()));
                // detach first (delete_node does not cascade)
                let mut keep = Vec::new();
                for (eid, s, d) in self.edges.drain(..) {
                    if s == id || d == id {
                        self.db.delete_edge(eid);
                    } else {
                        keep.push((eid, s, d));
                    }
                }
                self.edges = keep;
                self.db.delete_node(id);
            }
            Mutation::DelEdge(i) => {
                if self.edges.is_empty() {
                    return;
                }
                let (eid, _, _) = self.edges.remove(pick(*i, self.edges.len()));
                self.db.delete_edge(eid);
            }
            Mutation::SetProp(i, k, v) => {
                if self.nodes.is_empty() {
                    return;
                }
                let id = self.nodes[pick(*i, self.nodes.len())];
                self.db.set_node_property(id, NKEYS[*k as usize % 4], v.to_value());
            }
            Mutation::RemProp(i, k) => {
                if self.nodes.is_empty() {
                    return;
                }
                let id = self.nodes[pick(*i, self.nodes.len())];
                self.db.remove_node_property(id, NKEYS[*k as usize % 4]);
            }
            Mutation::SetEdgeProp(i, k, v) => {
                if self.edges.is_empty() {
                    return;
                }
                let (eid, _, _) = self.edges[pick(*i, self.edges.len())];
                self.db.set_edge_property(eid, EKEYS[*k as usize % 2], v.to_value());
            }
        }
    }

    /// Makes every node- and edge-property min/max summary inert without changing the graph: a scratch node
    /// receives every key, the keys are removed again (a removal marks the column summary stale,
    /// after which `might_match` answers "maybe"), and the scratch node is deleted.
    pub fn neutralize_zone_maps(&self) {
        let id = self.db.create_node(&[]);
        for k in NKEYS {
            self.db.set_node_property(id, k, Value::Int64(2));
        }
        for k in NKEYS {
            self.db.remove_node_property(id, k);
        }
        // the same for the edge columns
        let e = self.db.create_edge(id, id, "R");
        for k in EKEYS {
            self.db.set_edge_property(e, k, Value::Int64(2));
        }
        for k in EKEYS {
            self.db.remove_edge_property(e, k);
        }
        self.db.delete_edge(e);
        self.db.delete_node(id);
    }

    /// Canonical dump (sorted) used to compare database states after read-write statements.
    pub fn dump(&self) -> Vec<String> {
        let mut out = Vec::new();
        for n in self.db.iter_nodes() {
            let mut labels: Vec<String> = n.labels.iter().map(|l| l.to_string()).collect();
            labels.sort();
            let mut props: Vec<String> = n.properties.iter().map(|(k, v)| format!("{}={}", k.as_str(), canon(v))).collect();
            props.sort();
            out.push(format!("N{} {:?} {:?}", n.id.0, labels, props));
        }
        for e in self.db.iter_edges() {
            let mut props: Vec<String> = e.properties.iter().map(|(k, v)| format!("{}={}", k.as_str(), canon(v))).collect();
            props.sort();
            out.push(format!("E{} {}-{}->{} {:?}", e.id.0, e.src.0, e.edge_type, e.dst.0, props));
        }
        out.sort();
        out
    }
}

// ------------------------------------------------------------------------------------------------
// Query AST
// ------------------------------------------------------------------------------------------------

#[derive(Debug, Clone, Copy, PartialEq, Serialize, Deserialize)]
pub enum Dir {
    Out,
    In,
    Both,
}

#[derive(Debug, Clone, Copy, PartialEq, Serialize, Deserialize)]
pub enum Join {
    Comma,
    Match,
    Optional,
}

#[derive(Debug, Clone, PartialEq, Serialize, Deserialize)]
pub struct Hop {
    pub dir: Dir,
    pub ty: Option<u8>,
    pub evar: bool,
    pub label: Option<u8>,
    pub inline: Option<(u8, PVal)>,
    pub einline: Option<(u8, PVal)>,
    pub varlen: Option<(u8, u8)>,
}

#[derive(Debug, Clone, PartialEq, Serialize, Deserialize)]
pub struct PathSpec {
    pub join: Join,
    /// start at an already bound node variable (index modulo the bound ones) instead of a fresh one
    pub share: Option<u8>,
    pub label: Option<u8>,
    pub inline: Option<(u8, PVal)>,
    pub hops: Vec<Hop>,
}

#[derive(Debug, Clone, Copy, PartialEq, Serialize, Deserialize)]
pub struct PropRef {
    pub var: u8,
    pub key: u8,
}

#[derive(Debug, Clone, Copy, PartialEq, Eq, Serialize, Deserialize)]
pub enum CmpOp {
    Eq,
    Ne,
    Lt,
    Le,
    Gt,
    Ge,
}

impl CmpOp {
    pub fn text(self) -> &'static str {
        match self {
            CmpOp::Eq => "=",
            CmpOp::Ne => "<>",
            CmpOp::Lt => "<",
            CmpOp::Le => "<=",
            CmpOp::Gt => ">",
            CmpOp::Ge => ">=",
        }
    }
}

#[derive(Debug, Clone, PartialEq, Serialize, Deserialize)]
pub enum Operand {
    P(PropRef),
    L(PVal),
}

#[derive(Debug, Clone, PartialEq, Serialize, Deserialize)]
pub enum Pred {
    Cmp(Operand, CmpOp, Operand),
    And(Box<Pred>, Box<Pred>),
    Or(Box<Pred>, Box<Pred>),
    Not(Box<Pred>),
    IsNull(PropRef, bool),
}

#[derive(Debug, Clone, Copy, PartialEq, Serialize, Deserialize)]
pub enum AggF {
    Count,
    Sum,
    Min,
    Max,
    Avg,
}

#[derive(Debug, Clone, PartialEq, Serialize, Deserialize)]
pub enum Ret {
    Props { items: Vec<PropRef>, distinct: bool, order: Option<(u8, bool)>, skip: Option<u8>, limit: Option<u8> },
    CountStar,
    Agg { func: AggF, arg: PropRef, group: Option<PropRef> },
}

#[derive(Debug, Clone, PartialEq, Serialize, Deserialize)]
pub enum Mid {
    None,
    /// `WITH <all variables> [DISTINCT]` followed by `WHERE pred2`
    With { distinct: bool },
    /// Cypher only: `WITH <all variables> LIMIT k` followed by `WHERE pred2`
    WithLimit(u8),
    /// `WITH n<from> AS n<to>` (the alias *shadows* another bound variable when from != to; from == to is the
    /// plain re-projection of one variable) followed by `WHERE pred2`; only the alias is in scope afterwards
    WithRename { from: u8, to: u8 },
}

#[derive(Debug, Clone, PartialEq, Serialize, Deserialize)]
pub enum WriteSpec {
    /// `SET <node var>.<key> = lit`
    Set(u8, u8, PVal),
    /// `DETACH DELETE <node var>`
    Delete(u8),
}

#[derive(Debug, Clone, PartialEq, Serialize, Deserialize)]
pub struct QuerySpec {
    pub paths: Vec<PathSpec>,
    pub pred: Option<Pred>,
    pub mid: Mid,
    pub pred2: Option<Pred>,
    pub ret: Ret,
    pub write: Option<WriteSpec>,
}

#[derive(Debug, Clone, Copy, PartialEq, Eq, Serialize, Deserialize)]
pub enum Lang {
    Gql,
    Cypher,
}

pub struct Scope {
    pub nodes: Vec<String>,
    pub edges: Vec<String>,
}

impl Scope {
    pub fn resolve(&self, p: PropRef) -> (String, &'static str, bool) {
        let total = self.nodes.len() + self.edges.len();
        let i = p.var as usize % total.max(1);
        if i < self.nodes.len() {
            (self.nodes[i].clone(), NKEYS[p.key as usize % 4], false)
        } else {
            (self.edges[i - self.nodes.len()].clone(), EKEYS[p.key as usize % 2], true)
        }
    }
    fn prop(&self, p: PropRef) -> String {
        let (v, k, _) = self.resolve(p);
        format!("{v}.{k}")
    }
}

impl QuerySpec {
    /// Renders the MATCH part and returns the variable scope.
    fn render_match(&self) -> (String, Scope) {
        let mut sc = Scope { nodes: Vec::new(), edges: Vec::new() };
        let mut out = String::new();
        for (pi, p) in self.paths.iter().enumerate() {
            let start = match p.share {
                Some(s) if !sc.nodes.is_empty() => sc.nodes[s as usize % sc.nodes.len()].clone(),
                _ => {
                    let v = format!("n{}", sc.nodes.len());
                    sc.nodes.push(v.clone());
                    v
                }
            };
            if pi == 0 {
                out.push_str("MATCH ");
            } else {
                match p.join {
                    Join::Comma => out.push_str(", "),
                    Join::Match => out.push_str(" MATCH "),
                    Join::Optional => out.push_str(" OPTIONAL MATCH "),
                }
            }
            out.push_str(&node_pat(&start, p.label, &p.inline));
            for h in &p.hops {
                let ev = if h.evar {
                    let v = format!("e{}", sc.edges.len());
                    sc.edges.push(v.clone());
                    v
                } else {
                    String::new()
                };
                let ty = h.ty.map(|t| format!(":{}", ETYPES[t as usize % 2])).unwrap_or_default();
                let vl = h.varlen.map(|(a, b)| format!("*{}..{}", a, a.max(b))).unwrap_or_default();
                let ein = match (&h.einline, h.evar) {
                    (Some((k, v)), true) => format!(" {{{}: {}}}", EKEYS[*k as usize % 2], v.render()),
                    _ => String::new(),
                };
                let body = format!("[{ev}{ty}{vl}{ein}]");
                let arrow = match h.dir {
                    Dir::Out => format!("-{body}->"),
                    Dir::In => format!("<-{body}-"),
                    Dir::Both => format!("-{body}-"),
                };
                out.push_str(&arrow);
                let v = format!("n{}", sc.nodes.len());
                sc.nodes.push(v.clone());
                out.push_str(&node_pat(&v, h.label, &h.inline));
            }
        }
        (out, sc)
    }

    pub fn scope(&self) -> Scope {
        self.render_match().1
    }

    /// `with_limit = false` renders the same query without the trailing SKIP/LIMIT.
    pub fn render(&self, lang: Lang, with_limit: bool) -> Option<String> {
        if lang == Lang::Gql && (self.pred.as_ref().is_some_and(has_is_null) || self.pred2.as_ref().is_some_and(has_is_null)) {
            return None; // the GQL front end has no IS [NOT] NULL
        }
        let (mut out, mut sc) = self.render_match();
        if let Some(p) = &self.pred {
            out.push_str(" WHERE ");
            out.push_str(&render_pred(p, &sc));
        }
        match &self.mid {
            Mid::None => {}
            Mid::With { distinct } => {
                if self.write.is_some() {
                    return None;
                }
                let vars: Vec<String> = sc.nodes.iter().chain(sc.edges.iter()).cloned().collect();
                out.push_str(&format!(" WITH {}{}", if *distinct { "DISTINCT " } else { "" }, vars.join(", ")));
                if let Some(p) = &self.pred2 {
                    out.push_str(" WHERE ");
                    out.push_str(&render_pred(p, &sc));
                }
            }
            Mid::WithRename { from, to } => {
                if self.write.is_some() {
                    return None;
                }
                let f = sc.nodes[*from as usize % sc.nodes.len()].clone();
                let t = sc.nodes[*to as usize % sc.nodes.len()].clone();
                out.push_str(&format!(" WITH {f} AS {t}"));
                // only the alias is visible from here on
                sc = Scope { nodes: vec![t], edges: Vec::new() };
                if let Some(p) = &self.pred2 {
                    out.push_str(" WHERE ");
                    out.push_str(&render_pred(p, &sc));
                }
            }
            Mid::WithLimit(k) => {
                if lang != Lang::Cypher || self.write.is_some() {
                    return None;
                }
                let vars: Vec<String> = sc.nodes.iter().chain(sc.edges.iter()).cloned().collect();
                out.push_str(&format!(" WITH {} LIMIT {}", vars.join(", "), k));
                if let Some(p) = &self.pred2 {
                    out.push_str(" WHERE ");
                    out.push_str(&render_pred(p, &sc));
                }
            }
        }
        if let Some(w) = &self.write {
            match w {
                WriteSpec::Set(v, k, val) => {
                    let var = &sc.nodes[*v as usize % sc.nodes.len()];
                    out.push_str(&format!(" SET {var}.{} = {}", NKEYS[*k as usize % 4], val.render()));
                }
                WriteSpec::Delete(v) => {
                    let var = &sc.nodes[*v as usize % sc.nodes.len()];
                    out.push_str(&format!(" DETACH DELETE {var}"));
                }
            }
        }
        if matches!(self.write, Some(WriteSpec::Delete(_))) {
            // the deleted variable cannot be returned; the database state is compared instead
            return Some(out);
        }
        match &self.ret {
            Ret::Props { items, distinct, order, skip, limit } => {
                let cols: Vec<String> = items.iter().enumerate().map(|(i, p)| format!("{} AS c{i}", sc.prop(*p))).collect();
                let order_text = order.map(|(i, desc)| {
                    let i = i as usize % items.len();
                    format!(" ORDER BY {}{}", sc.prop(items[i]), if desc { " DESC" } else { "" })
                });
                // The Cypher front end resolves ORDER BY against the rows *before* RETURN (its clauses are
                // translated in textual order), so the clause is written before RETURN there.
                if lang == Lang::Cypher {
                    if let Some(o) = &order_text {
                        out.push_str(o);
                    }
                }
                out.push_str(&format!(" RETURN {}{}", if *distinct { "DISTINCT " } else { "" }, cols.join(", ")));
                if lang == Lang::Gql {
                    if let Some(o) = &order_text {
                        out.push_str(o);
                    }
                }
                if with_limit {
                    if let Some(s) = skip {
                        out.push_str(&format!(" SKIP {s}"));
                    }
                    if let Some(l) = limit {
                        out.push_str(&format!(" LIMIT {l}"));
                    }
                }
            }
            Ret::CountStar => out.push_str(&format!(" RETURN count({}) AS c0", sc.nodes[0])),
            Ret::Agg { func, arg, group } => {
                let f = match func {
                    AggF::Count => "count",
                    AggF::Sum => "sum",
                    AggF::Min => "min",
                    AggF::Max => "max",
                    AggF::Avg => "avg",
                };
                match group {
                    Some(g) => out.push_str(&format!(" RETURN {} AS c0, {f}({}) AS c1", sc.prop(*g), sc.prop(*arg))),
                    None => out.push_str(&format!(" RETURN {f}({}) AS c0", sc.prop(*arg))),
                }
            }
        }
        Some(out)
    }

    pub fn has_limit(&self) -> bool {
        matches!(&self.ret, Ret::Props { skip, limit, .. } if skip.is_some() || limit.is_some())
    }

    /// Output column index of the ORDER BY key, if the query orders.
    pub fn order_col(&self) -> Option<usize> {
        match &self.ret {
            Ret::Props { items, order: Some((i, _)), .. } => Some(*i as usize % items.len()),
            _ => None,
        }
    }

    pub fn hop_count(&self) -> usize {
        self.paths.iter().map(|p| p.hops.len()).sum()
    }
}

fn node_pat(var: &str, label: Option<u8>, inline: &Option<(u8, PVal)>) -> String {
    let l = label.map(|l| format!(":{}", LABELS[l as usize % 3])).unwrap_or_default();
    let i = inline.as_ref().map(|(k, v)| format!(" {{{}: {}}}", NKEYS[*k as usize % 4], v.render())).unwrap_or_default();
    format!("({var}{l}{i})")
}

fn render_operand(o: &Operand, sc: &Scope) -> String {
    match o {
        Operand::P(p) => sc.prop(*p),
        Operand::L(v) => v.render(),
    }
}

pub fn render_pred(p: &Pred, sc: &Scope) -> String {
    match p {
        Pred::Cmp(a, op, b) => format!("{} {} {}", render_operand(a, sc), op.text(), render_operand(b, sc)),
        Pred::And(a, b) => format!("({} AND {})", render_pred(a, sc), render_pred(b, sc)),
        Pred::Or(a, b) => format!("({} OR {})", render_pred(a, sc), render_pred(b, sc)),
        Pred::Not(a) => format!("(NOT ({}))", render_pred(a, sc)),
        Pred::IsNull(pr, neg) => format!("{} IS {}NULL", sc.prop(*pr), if *neg { "NOT " } else { "" }),
    }
}

pub fn has_is_null(p: &Pred) -> bool {
    match p {
        Pred::IsNull(..) => true,
        Pred::And(a, b) | Pred::Or(a, b) => has_is_null(a) || has_is_null(b),
        Pred::Not(a) => has_is_null(a),
        Pred::Cmp(..) => false,
    }
}

/// Does the predicate mention a property of an edge variable?
pub fn mentions_edge_prop(p: &Pred, sc: &Scope) -> bool {
    let is_edge = |r: &PropRef| sc.resolve(*r).2;
    match p {
        Pred::IsNull(r, _) => is_edge(r),
        Pred::And(a, b) | Pred::Or(a, b) => mentions_edge_prop(a, sc) || mentions_edge_prop(b, sc),
        Pred::Not(a) => mentions_edge_prop(a, sc),
        Pred::Cmp(a, _, b) => [a, b].iter().any(|o| matches!(o, Operand::P(r) if is_edge(r))),
    }
}

/// Upper bound on the number of edges a history can create.
pub fn edge_budget(g: &GraphSpec, ms: &[Mutation]) -> usize {
    g.edges.len() + ms.iter().filter(|m| matches!(m, Mutation::AddEdge(_))).count() + 2
}

/// Top-level conjuncts of a predicate.
pub fn conjuncts(p: &Pred) -> Vec<&Pred> {
    match p {
        Pred::And(a, b) => {
            let mut v = conjuncts(a);
            v.extend(conjuncts(b));
            v
        }
        other => vec![other],
    }
}

// ------------------------------------------------------------------------------------------------
// Query strategies
// ------------------------------------------------------------------------------------------------

fn cmp_op() -> impl Strategy<Value = CmpOp> {
    prop_oneof![
        3 => Just(CmpOp::Eq),
        2 => Just(CmpOp::Ne),
        2 => Just(CmpOp::Lt),
        3 => Just(CmpOp::Le),
        2 => Just(CmpOp::Gt),
        3 => Just(CmpOp::Ge),
    ]
}

/// Property references biased to the numeric keys x / y (index 0 / 1).
pub fn propref(nvars: u8) -> impl Strategy<Value = PropRef> {
    (0u8..nvars.max(1), prop_oneof![4 => Just(0u8), 3 => Just(1u8), 1 => Just(2u8), 2 => Just(3u8)])
        .prop_map(|(var, key)| PropRef { var, key })
}

/// A literal suited to the key it is compared with (4 in 5), or any literal (outside the range / other type).
pub fn lit_for(key: u8) -> BoxedStrategy<PVal> {
    let fit: BoxedStrategy<PVal> = match key % 4 {
        0 => prop_oneof![4 => (0i64..5).prop_map(PVal::I), 1 => float_pool().prop_map(PVal::F), 1 => (0i64..5).prop_map(|i| PVal::F(i as f64))].boxed(),
        1 => prop_oneof![5 => (-2i64..12).prop_map(PVal::I), 1 => (0i64..6).prop_map(|i| PVal::F(i as f64))].boxed(),
        2 => prop_oneof![Just("a"), Just("b"), Just("c"), Just("ab")].prop_map(|s| PVal::S(s.into())).boxed(),
        _ => prop_oneof![2 => float_pool().prop_map(PVal::F), 2 => (0i64..5).prop_map(PVal::I)].boxed(),
    };
    prop_oneof![4 => fit, 1 => lit().boxed()].boxed()
}

pub fn atom(nvars: u8) -> BoxedStrategy<Pred> {
    prop_oneof![
        20 => (propref(nvars), cmp_op()).prop_flat_map(|(p, op)| lit_for(p.key).prop_map(move |l| Pred::Cmp(Operand::P(p), op, Operand::L(l)))),
        6 => (propref(nvars), cmp_op()).prop_flat_map(|(p, op)| lit_for(p.key).prop_map(move |l| Pred::Cmp(Operand::L(l), op, Operand::P(p)))),
        4 => (propref(nvars), cmp_op(), propref(nvars)).prop_map(|(a, op, b)| Pred::Cmp(Operand::P(a), op, Operand::P(b))),
        1 => (propref(nvars), any::<bool>()).prop_map(|(p, n)| Pred::IsNull(p, n)),
    ]
    .boxed()
}

/// BETWEEN-like pair on one property.
fn between(nvars: u8) -> impl Strategy<Value = Pred> {
    (propref(nvars), any::<bool>(), any::<bool>(), any::<bool>()).prop_flat_map(|(p, a, b, c)| (Just(p), lit_for(p.key), lit_for(p.key), Just(a), Just(b), Just(c))).prop_map(|(p, lo, hi, li, hi_inc, swap)| {
        let a = Pred::Cmp(Operand::P(p), if li { CmpOp::Ge } else { CmpOp::Gt }, Operand::L(lo));
        let b = Pred::Cmp(Operand::P(p), if hi_inc { CmpOp::Le } else { CmpOp::Lt }, Operand::L(hi));
        if swap { Pred::And(Box::new(b), Box::new(a)) } else { Pred::And(Box::new(a), Box::new(b)) }
    })
}

pub fn pred(nvars: u8) -> impl Strategy<Value = Pred> {
    let leaf = prop_oneof![6 => atom(nvars).boxed(), 1 => between(nvars).boxed()];
    leaf.prop_recursive(2, 4, 2, |inner| {
        prop_oneof![
            3 => (inner.clone(), inner.clone()).prop_map(|(a, b)| Pred::And(Box::new(a), Box::new(b))),
            5 => (inner.clone(), inner.clone()).prop_map(|(a, b)| Pred::Or(Box::new(a), Box::new(b))),
            1 => inner.prop_map(|a| Pred::Not(Box::new(a))),
        ]
    })
}

fn hop(plain: bool) -> impl Strategy<Value = Hop> {
    let dir = prop_oneof![5 => Just(Dir::Out), 2 => Just(Dir::In), 1 => Just(Dir::Both)];
    let ty = prop_oneof![12 => Just(None), 7 => Just(Some(0u8)), 1 => Just(Some(1u8))];
    let label = if plain { Just(None).boxed() } else { prop_oneof![4 => Just(None), 1 => (0u8..3).prop_map(Some)].boxed() };
    let inline = if plain {
        Just(None).boxed()
    } else {
        prop_oneof![8 => Just(None), 1 => (0u8..2, (0i64..6).prop_map(PVal::I)).prop_map(Some)].boxed()
    };
    let einline = prop_oneof![10 => Just(None), 1 => (0u8..2, (0i64..6).prop_map(PVal::I)).prop_map(Some)];
    let varlen = if plain { Just(None).boxed() } else { prop_oneof![12 => Just(None), 1 => (1u8..3, 1u8..3).prop_map(Some)].boxed() };
    (dir, ty, prop_oneof![1 => Just(true), 2 => Just(false)], label, inline, einline, varlen)
        .prop_map(|(dir, ty, evar, label, inline, einline, varlen)| Hop { dir, ty, evar, label, inline, einline, varlen })
}

fn path(first: bool, max_hops: usize) -> impl Strategy<Value = PathSpec> {
    let join = prop_oneof![3 => Just(Join::Comma), 3 => Just(Join::Match), 2 => Just(Join::Optional)];
    let share = if first { Just(None).boxed() } else { prop_oneof![3 => any::<u8>().prop_map(Some), 1 => Just(None)].boxed() };
    let label = prop_oneof![8 => Just(None), 9 => Just(Some(0u8)), 2 => Just(Some(1u8)), 1 => Just(Some(2u8))];
    let inline = prop_oneof![12 => Just(None), 1 => (0u8..2, (0i64..4).prop_map(PVal::I)).prop_map(Some)];
    let plain = prop_oneof![3 => Just(true), 1 => Just(false)];
    (join, share, label, inline, plain).prop_flat_map(move |(join, share, label, inline, plain)| {
        let hops = if first { 0..=max_hops } else { 0..=max_hops.min(2) };
        proptest::collection::vec(hop(plain), hops).prop_map(move |hops| PathSpec {
            join,
            share,
            label: if share.is_some() { None } else { label },
            inline: if share.is_some() { None } else { inline.clone() },
            hops,
        })
    })
}

fn ret(nvars: u8) -> impl Strategy<Value = Ret> {
    let props = (
        proptest::collection::vec(propref(nvars), 1..=3),
        prop_oneof![5 => Just(false), 1 => Just(true)],
        prop_oneof![2 => Just(None), 1 => (any::<u8>(), any::<bool>()).prop_map(Some)],
        prop_oneof![6 => Just(None), 1 => (0u8..3).prop_map(Some)],
        prop_oneof![4 => Just(None), 1 => (0u8..6).prop_map(Some)],
        prop_oneof![3 => Just(Some(1u8)), 2 => Just(Some(2u8)), 1 => Just(None)],
    )
        .prop_map(|(mut items, distinct, order, skip, limit, order_key)| {
            // ORDER BY mostly on y (Int only) or s (String only): the engine's sort comparator is not a total
            // order over a key column that mixes Int64 and Float64 (x, w), see the known findings
            if let (Some((i, _)), Some(k)) = (order, order_key) {
                let n = items.len();
                items[i as usize % n].key = k;
            }
            Ret::Props { items, distinct, order, skip, limit }
        });
    let aggf = prop_oneof![Just(AggF::Count), Just(AggF::Sum), Just(AggF::Min), Just(AggF::Max), Just(AggF::Avg)];
    prop_oneof![
        5 => props,
        3 => Just(Ret::CountStar),
        2 => (aggf, propref(nvars), prop_oneof![1 => Just(None), 1 => propref(nvars).prop_map(Some)])
            .prop_map(|(func, arg, group)| Ret::Agg { func, arg, group }),
    ]
}

/// General query: 1-3 paths (0-3 hops in the first), WHERE over all variables, optional WITH, optional write.
pub fn query(write_pct: u32) -> impl Strategy<Value = QuerySpec> {
    let npaths = prop_oneof![5 => Just(1usize), 5 => Just(2usize), 1 => Just(3usize)];
    npaths
        .prop_flat_map(|n| {
            // result sizes are products over the patterns: only the first pattern may be long
            let mut v: Vec<BoxedStrategy<PathSpec>> = vec![path(true, if n == 1 { 3 } else { 2 }).boxed()];
            for _ in 1..n {
                v.push(path(false, 1).boxed());
            }
            v
        })
        .prop_flat_map(move |paths| {
            let q0 = QuerySpec { paths: paths.clone(), pred: None, mid: Mid::None, pred2: None, ret: Ret::CountStar, write: None };
            let sc = q0.scope();
            let nvars = (sc.nodes.len() + sc.edges.len()) as u8;
            let nnodes = sc.nodes.len() as u8;
            let single_scan = paths.len() == 1 && paths[0].hops.is_empty();
            let mid = if single_scan {
                prop_oneof![3 => Just(Mid::None), 1 => any::<bool>().prop_map(|d| Mid::With { distinct: d }), 3 => (1u8..5).prop_map(Mid::WithLimit), 2 => (0u8..4, 0u8..4).prop_map(|(from, to)| Mid::WithRename { from, to })].boxed()
            } else {
                prop_oneof![6 => Just(Mid::None), 1 => any::<bool>().prop_map(|d| Mid::With { distinct: d }), 2 => (0u8..4, 0u8..4).prop_map(|(from, to)| Mid::WithRename { from, to })].boxed()
            };
            let write = prop_oneof![
                (100 - write_pct) => Just(None),
                write_pct => prop_oneof![
                    2 => (0u8..nnodes.max(1), 0u8..4, lit()).prop_map(|(v, k, l)| Some(WriteSpec::Set(v, k, l))),
                    1 => (0u8..nnodes.max(1)).prop_map(|v| Some(WriteSpec::Delete(v))),
                ],
            ];
            (
                Just(paths),
                prop_oneof![1 => Just(None), 5 => pred(nvars).prop_map(Some)],
                mid,
                pred(nvars),
                ret(nvars),
                write,
            )
        })
        .prop_map(|(paths, pred, mid, p2, ret, write)| {
            let pred2 = if matches!(mid, Mid::None) { None } else { Some(p2) };
            // a mid-query LIMIT is only deterministic when nothing below it can reorder rows: keep the
            // predicate below it out of the query
            let pred = if matches!(mid, Mid::WithLimit(_)) { None } else { pred };
            let mid = if write.is_some() { Mid::None } else { mid };
            let pred2 = if matches!(mid, Mid::None) { None } else { pred2 };
            QuerySpec { paths, pred, mid, pred2, ret, write }
        })
}

// ------------------------------------------------------------------------------------------------
// Pipeline
// ------------------------------------------------------------------------------------------------

pub type Rows = Vec<Vec<String>>;

/// Canonical text of a value; floats are rendered with 9 significant digits (aggregates may be
/// summed in a different order by different physical plans).
pub fn canon(v: &Value) -> String {
    match v {
        Value::Null => "null".into(),
        Value::Bool(b) => format!("b:{b}"),
        Value::Int64(i) => format!("i:{i}"),
        Value::Float64(f) => {
            if f.is_nan() {
                "f:nan".into()
            } else if *f == 0.0 {
                "f:0".into()
            } else {
                format!("f:{f:.9e}")
            }
        }
        Value::String(s) => format!("s:{s}"),
        Value::List(l) => format!("[{}]", l.iter().map(canon).collect::<Vec<_>>().join(",")),
        other => format!("{other:?}"),
    }
}

pub fn translate(lang: Lang, text: &str) -> Result<LogicalPlan, String> {
    let plan = match lang {
        Lang::Gql => grafeo_engine::query::translate_gql(text),
        Lang::Cypher => grafeo_engine::query::translate_cypher(text),
    }
    .map_err(|e| format!("translate: {e}"))?;
    let mut binder = Binder::new();
    binder.bind(&plan).map_err(|e| format!("bind: {e}"))?;
    Ok(plan)
}

/// Plans and executes an (already optimized) logical plan exactly as `Session::execute` does.
pub fn execute(db: &GrafeoDB, plan: &LogicalPlan, factorized: bool) -> Result<Rows, String> {
    let txm = db.verif_tx_manager();
    let planner = Planner::with_context(Arc::clone(db.store()), Arc::clone(txm), None, txm.current_epoch())
        .with_factorized_execution(factorized);
    let mut physical = planner.plan(plan).map_err(|e| format!("plan: {e}"))?;
    let executor = Executor::with_columns(physical.columns.clone());
    let result = executor.execute(physical.operator.as_mut()).map_err(|e| format!("exec: {e}"))?;
    Ok(result.rows.iter().map(|r| r.iter().map(canon).collect()).collect())
}

pub fn sorted(rows: &Rows) -> Rows {
    let mut r = rows.clone();
    r.sort();
    r
}

/// `a` is a sub-multiset of `b`.
pub fn sub_multiset(a: &Rows, b: &Rows) -> bool {
    let a = sorted(a);
    let b = sorted(b);
    let mut j = 0;
    for x in &a {
        while j < b.len() && &b[j] < x {
            j += 1;
        }
        if j >= b.len() || &b[j] != x {
            return false;
        }
        j += 1;
    }
    true
}

/// Rewrites every `Filter(NodeScan)` into `Filter(Skip 0 (NodeScan))`: the identity operator between the
/// filter and the scan keeps the planner's index and range shortcuts (which require the scan to be
/// the filter's direct input) from applying, so the predicate is evaluated by the generic filter.
pub fn with_scan_barrier(op: &LogicalOperator) -> LogicalOperator {
    use LogicalOperator as L;
    let b = |x: &LogicalOperator| Box::new(with_scan_barrier(x));
    match op {
        L::Filter(f) => {
            let mut f = f.clone();
            f.input = match f.input.as_ref() {
                L::NodeScan(s) if s.input.is_none() => Box::new(L::Skip(SkipOp { count: 0, input: Box::new(L::NodeScan(s.clone())) })),
                other => Box::new(with_scan_barrier(other)),
            };
            L::Filter(f)
        }
        L::NodeScan(s) => {
            let mut s = s.clone();
            s.input = s.input.as_ref().map(|i| b(i));
            L::NodeScan(s)
        }
        L::Expand(e) => {
            let mut e = e.clone();
            e.input = b(&e.input);
            L::Expand(e)
        }
        L::Project(p) => {
            let mut p = p.clone();
            p.input = b(&p.input);
            L::Project(p)
        }
        L::Join(j) => {
            let mut j = j.clone();
            j.left = b(&j.left);
            j.right = b(&j.right);
            L::Join(j)
        }
        L::LeftJoin(j) => {
            let mut j = j.clone();
            j.left = b(&j.left);
            j.right = b(&j.right);
            L::LeftJoin(j)
        }
        L::Aggregate(a) => {
            let mut a = a.clone();
            a.input = b(&a.input);
            L::Aggregate(a)
        }
        L::Limit(l) => {
            let mut l = l.clone();
            l.input = b(&l.input);
            L::Limit(l)
        }
        L::Skip(l) => {
            let mut l = l.clone();
            l.input = b(&l.input);
            L::Skip(l)
        }
        L::Sort(l) => {
            let mut l = l.clone();
            l.input = b(&l.input);
            L::Sort(l)
        }
        L::Distinct(l) => {
            let mut l = l.clone();
            l.input = b(&l.input);
            L::Distinct(l)
        }
        L::Return(r) => {
            let mut r = r.clone();
            r.input = b(&r.input);
            L::Return(r)
        }
        L::SetProperty(s) => {
            let mut s = s.clone();
            s.input = b(&s.input);
            L::SetProperty(s)
        }
        L::DeleteNode(s) => {
            let mut s = s.clone();
            s.input = b(&s.input);
            L::DeleteNode(s)
        }
        other => other.clone(),
    }
}

/// True when a LIMIT/SKIP sits above the Sort (top-k semantics): the key sequence is then determined.
/// GQL applies SKIP/LIMIT *below* the Sort, in which case any k rows are a valid answer.
pub fn limit_above_sort(op: &LogicalOperator) -> bool {
    fn walk(op: &LogicalOperator, seen_limit: bool) -> bool {
        use LogicalOperator as L;
        match op {
            L::Limit(l) => walk(&l.input, true),
            L::Skip(l) => walk(&l.input, true),
            L::Return(r) => walk(&r.input, seen_limit),
            L::Project(r) => walk(&r.input, seen_limit),
            L::Distinct(r) => walk(&r.input, seen_limit),
            L::Sort(_) => seen_limit,
            _ => false,
        }
    }
    walk(op, false)
}

/// The same plan with every LIMIT made unbounded and every SKIP zero: the operators stay where they are
/// (and keep whatever effect they have on column typing) but let every row through.
pub fn neutralize_limits(op: &LogicalOperator) -> LogicalOperator {
    use LogicalOperator as L;
    let b = |x: &LogicalOperator| Box::new(neutralize_limits(x));
    match op {
        L::Limit(l) => {
            let mut l = l.clone();
            l.count = usize::MAX;
            l.input = b(&l.input);
            L::Limit(l)
        }
        L::Skip(l) => {
            let mut l = l.clone();
            l.count = 0;
            l.input = b(&l.input);
            L::Skip(l)
        }
        L::Filter(f) => {
            let mut f = f.clone();
            f.input = b(&f.input);
            L::Filter(f)
        }
        L::NodeScan(s) => {
            let mut s = s.clone();
            s.input = s.input.as_ref().map(|i| b(i));
            L::NodeScan(s)
        }
        L::Expand(e) => {
            let mut e = e.clone();
            e.input = b(&e.input);
            L::Expand(e)
        }
        L::Project(p) => {
            let mut p = p.clone();
            p.input = b(&p.input);
            L::Project(p)
        }
        L::Join(j) => {
            let mut j = j.clone();
            j.left = b(&j.left);
            j.right = b(&j.right);
            L::Join(j)
        }
        L::LeftJoin(j) => {
            let mut j = j.clone();
            j.left = b(&j.left);
            j.right = b(&j.right);
            L::LeftJoin(j)
        }
        L::Sort(l) => {
            let mut l = l.clone();
            l.input = b(&l.input);
            L::Sort(l)
        }
        L::Distinct(l) => {
            let mut l = l.clone();
            l.input = b(&l.input);
            L::Distinct(l)
        }
        L::Return(r) => {
            let mut r = r.clone();
            r.input = b(&r.input);
            L::Return(r)
        }
        other => other.clone(),
    }
}

/// Variables bound below an operator (scans, expands).
pub fn bound_vars(op: &LogicalOperator, out: &mut std::collections::BTreeSet<String>) {
    use LogicalOperator as L;
    match op {
        L::NodeScan(s) => {
            out.insert(s.variable.clone());
            if let Some(i) = &s.input {
                bound_vars(i, out);
            }
        }
        L::Expand(e) => {
            out.insert(e.to_variable.clone());
            if let Some(v) = &e.edge_variable {
                out.insert(v.clone());
            }
            bound_vars(&e.input, out);
        }
        L::Filter(f) => bound_vars(&f.input, out),
        L::Project(p) => bound_vars(&p.input, out),
        L::Join(j) => {
            bound_vars(&j.left, out);
            bound_vars(&j.right, out);
        }
        L::LeftJoin(j) => {
            bound_vars(&j.left, out);
            bound_vars(&j.right, out);
        }
        L::Aggregate(a) => bound_vars(&a.input, out),
        L::Limit(l) => bound_vars(&l.input, out),
        L::Skip(l) => bound_vars(&l.input, out),
        L::Sort(l) => bound_vars(&l.input, out),
        L::Distinct(l) => bound_vars(&l.input, out),
        L::Return(r) => bound_vars(&r.input, out),
        L::SetProperty(x) => bound_vars(&x.input, out),
        L::DeleteNode(x) => bound_vars(&x.input, out),
        _ => {}
    }
}

/// Variables bound on BOTH sides of some Join / LeftJoin (the engine does not unify them: the output has
/// two columns of that name and operators resolve the name differently).
pub fn doubly_bound_vars(op: &LogicalOperator, out: &mut std::collections::BTreeSet<String>) {
    use LogicalOperator as L;
    let both = |l: &LogicalOperator, r: &LogicalOperator, out: &mut std::collections::BTreeSet<String>| {
        let (mut a, mut b) = (Default::default(), Default::default());
        bound_vars(l, &mut a);
        bound_vars(r, &mut b);
        out.extend(a.intersection(&b).cloned());
        doubly_bound_vars(l, out);
        doubly_bound_vars(r, out);
    };
    match op {
        L::Join(j) => both(&j.left, &j.right, out),
        L::LeftJoin(j) => both(&j.left, &j.right, out),
        L::NodeScan(s) => {
            if let Some(i) = &s.input {
                doubly_bound_vars(i, out);
            }
        }
        L::Expand(e) => doubly_bound_vars(&e.input, out),
        L::Filter(f) => doubly_bound_vars(&f.input, out),
        L::Project(p) => doubly_bound_vars(&p.input, out),
        L::Aggregate(a) => doubly_bound_vars(&a.input, out),
        L::Limit(l) => doubly_bound_vars(&l.input, out),
        L::Skip(l) => doubly_bound_vars(&l.input, out),
        L::Sort(l) => doubly_bound_vars(&l.input, out),
        L::Distinct(l) => doubly_bound_vars(&l.input, out),
        L::Return(r) => doubly_bound_vars(&r.input, out),
        _ => {}
    }
}

/// Variables whose properties a predicate reads.
pub fn pred_vars(p: &Pred, sc: &Scope, out: &mut std::collections::BTreeSet<String>) {
    match p {
        Pred::IsNull(r, _) => {
            out.insert(sc.resolve(*r).0);
        }
        Pred::And(a, b) | Pred::Or(a, b) => {
            pred_vars(a, sc, out);
            pred_vars(b, sc, out);
        }
        Pred::Not(a) => pred_vars(a, sc, out),
        Pred::Cmp(a, _, b) => {
            for o in [a, b] {
                if let Operand::P(r) = o {
                    out.insert(sc.resolve(*r).0);
                }
            }
        }
    }
}

/// The graph history without any edge property.
pub fn strip_edge_props(g: &GraphSpec, ms: &[Mutation]) -> (GraphSpec, Vec<Mutation>) {
    let mut g = g.clone();
    for e in &mut g.edges {
        e.props.clear();
    }
    let ms = ms
        .iter()
        .filter(|m| !matches!(m, Mutation::SetEdgeProp(..)))
        .map(|m| match m {
            Mutation::AddEdge(e) => Mutation::AddEdge(GEdge { props: vec![], ..e.clone() }),
            other => other.clone(),
        })
        .collect();
    (g, ms)
}

/// Number of maximal chains of >= 2 consecutive single-hop expands (what the planner runs factorized).
pub fn expand_chains(op: &LogicalOperator) -> usize {
    fn kids(op: &LogicalOperator) -> Vec<&LogicalOperator> {
        use LogicalOperator as L;
        match op {
            L::Filter(f) => vec![&f.input],
            L::NodeScan(s) => s.input.iter().map(|b| b.as_ref()).collect(),
            L::Expand(e) => vec![&e.input],
            L::Project(p) => vec![&p.input],
            L::Join(j) => vec![&j.left, &j.right],
            L::LeftJoin(j) => vec![&j.left, &j.right],
            L::Aggregate(a) => vec![&a.input],
            L::Limit(l) => vec![&l.input],
            L::Skip(l) => vec![&l.input],
            L::Sort(l) => vec![&l.input],
            L::Distinct(l) => vec![&l.input],
            L::Return(r) => vec![&r.input],
            L::SetProperty(s) => vec![&s.input],
            L::DeleteNode(s) => vec![&s.input],
            _ => vec![],
        }
    }
    fn single(op: &LogicalOperator) -> bool {
        matches!(op, LogicalOperator::Expand(e) if e.min_hops == 1 && e.max_hops == Some(1))
    }
    let mut n = 0;
    if single(op) {
        if let LogicalOperator::Expand(e) = op {
            if single(&e.input) {
                n += 1;
                // skip to the base of this chain
                let mut cur: &LogicalOperator = op;
                while single(cur) {
                    if let LogicalOperator::Expand(e) = cur {
                        cur = &e.input;
                    }
                }
                return n + expand_chains(cur);
            }
        }
    }
    for k in kids(op) {
        n += expand_chains(k);
    }
    n
}
