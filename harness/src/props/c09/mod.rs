//! C09 — the optimizer never changes a query's answer.
//!
//! Differential: one (graph, query text) pair is translated and bound once; the logical plan is then
//! optimized under all 2^3 switch sets x statistics {fresh, absent, stale} and every distinct optimized
//! plan is executed with factorized execution off and on. Reference = the unoptimized plan, flat.

pub mod qgen;

use std::collections::BTreeMap;

use proptest::prelude::*;
use serde::{Deserialize, Serialize};

use grafeo_engine::query::optimizer::{CardinalityEstimator, Optimizer};
use grafeo_engine::query::plan::LogicalPlan;

use crate::driver::{CaseResult, Run, fail, guard, hash_dbg, ok};
use qgen::{Built, GraphSpec, Lang, Mutation, QuerySpec, Ret, Rows};

#[derive(Debug, Clone, Serialize, Deserialize)]
pub struct Case {
    pub graph: GraphSpec,
    /// mutations applied after the "stale" statistics were taken
    pub later: Vec<Mutation>,
    pub query: QuerySpec,
    pub lang: Lang,
    /// node ids start above every edge id (see `Built::pad_ids`); 1 case in 8 keeps the colliding ranges
    #[serde(default)]
    pub pad_ids: bool,
}

fn case(max_nodes: usize, write_pct: u32) -> impl Strategy<Value = Case> {
    (
        qgen::graph(max_nodes, max_nodes * 2, false),
        qgen::mutations(8, false),
        qgen::query(write_pct),
        prop_oneof![Just(Lang::Gql), Just(Lang::Cypher)],
        prop_oneof![7 => Just(true), 1 => Just(false)],
    )
        .prop_map(|(graph, later, query, lang, pad_ids)| Case { graph, later, query, lang, pad_ids })
}

type Outcome = Result<Rows, String>;

struct Variant {
    /// Debug rendering of the optimized plan
    key: String,
    plan: LogicalPlan,
    /// which configurations produced it (for the failure text)
    configs: Vec<String>,
}

/// All 8 switch sets x {fresh, absent, stale} statistics, grouped by the optimized plan they produce.
fn variants(c: &Case, b: &Built, stale: &grafeo_core::statistics::Statistics, plan: &LogicalPlan) -> Result<Vec<Variant>, crate::driver::Failure> {
    let mut out: Vec<Variant> = Vec::new();
    let _ = c;
    for stats in ["fresh", "absent", "stale"] {
        for bits in 0u8..8 {
            let (fp, jr, pp) = (bits & 1 != 0, bits & 2 != 0, bits & 4 != 0);
            let opt = match stats {
                "fresh" => Optimizer::from_store(b.db.store()),
                "absent" => Optimizer::new(),
                _ => Optimizer::new().with_cardinality_estimator(CardinalityEstimator::from_statistics(stale)),
            }
            .with_filter_pushdown(fp)
            .with_join_reorder(jr)
            .with_projection_pushdown(pp);
            let name = format!("{stats}/fp={}/jr={}/pp={}", fp as u8, jr as u8, pp as u8);
            let optimized = guard("optimize", || opt.optimize(plan.clone()))?;
            let optimized = match optimized {
                Ok(p) => p,
                Err(e) => return fail("c09/optimize-error", format!("{name}: optimize returned Err: {e}")),
            };
            let key = format!("{:?}", optimized.root);
            match out.iter_mut().find(|v| v.key == key) {
                Some(v) => v.configs.push(name),
                None => out.push(Variant { key, plan: optimized, configs: vec![name] }),
            }
        }
    }
    Ok(out)
}

fn build(c: &Case) -> (Built, grafeo_core::statistics::Statistics) {
    let mut b = Built::new(true);
    if c.pad_ids {
        b.pad_ids(qgen::edge_budget(&c.graph, &c.later));
    }
    b.load(&c.graph);
    b.db.store().ensure_statistics_fresh();
    let stale = b.db.store().statistics();
    for m in &c.later {
        b.apply(m);
    }
    (b, stale)
}

fn key_seq(rows: &Rows, col: usize) -> Vec<String> {
    rows.iter().map(|r| r.get(col).cloned().unwrap_or_default()).collect()
}

/// Same multiset, different sequence on the ORDER BY key. The engine's sort comparator returns `Equal` for
/// an Int64/Float64 pair (and for any other cross-type pair), so over a key column that mixes kinds the
/// output order depends on the input order, which the plan shape determines: that case gets its own
/// signature; a different sequence over a single-kind key does not.
fn order_signature(rows: &Rows, col: usize) -> &'static str {
    let mut kinds: Vec<&str> = key_seq(rows, col)
        .iter()
        .filter(|v| *v != "null")
        .map(|v| if v.starts_with("i:") { "i" } else if v.starts_with("f:") { "f" } else if v.starts_with("s:") { "s" } else { "o" })
        .collect::<Vec<_>>();
    kinds.sort_unstable();
    kinds.dedup();
    if kinds.len() > 1 { "c09/order-differs/mixed-type-key" } else { "c09/order-differs" }
}

fn is_empty_answer(rows: &Rows) -> bool {
    rows.is_empty() || (rows.len() == 1 && rows[0].iter().all(|v| v == "i:0" || v == "null"))
}

fn short(o: &Outcome) -> String {
    match o {
        Ok(r) => {
            let s = format!("{} rows {:?}", r.len(), qgen::sorted(r));
            crate::driver::truncate(&s, 400)
        }
        Err(e) => format!("Err({e})"),
    }
}

/// Do two outcomes agree? (multiset; an Err only agrees with an Err)
fn agree(a: &Outcome, b: &Outcome) -> bool {
    match (a, b) {
        (Ok(x), Ok(y)) => qgen::sorted(x) == qgen::sorted(y),
        (Err(_), Err(_)) => true,
        _ => false,
    }
}

/// The shape of a factorized-only discrepancy (for the dynamic signature).
fn factorized_shape(flat: &Outcome, fact: &Outcome) -> &'static str {
    match (flat, fact) {
        (Ok(_), Err(e)) if e.contains("not found") => "column-not-found",
        (Ok(a), Ok(b)) => {
            let empty_flat = is_empty_answer(a);
            if empty_flat && b.len() == 1 && b[0].iter().any(|v| v == "i:1") {
                "count-1-for-empty"
            } else if empty_flat && !b.is_empty() {
                "rows-for-empty"
            } else {
                "rows-differ"
            }
        }
        (Ok(_), Err(_)) => "error",
        (Err(_), Ok(_)) => "rows-for-error",
        _ => "other",
    }
}

pub fn check(c: &Case) -> CaseResult {
    match check_inner(c) {
        Err(f) if f.signature == "c09/optimizer-changes-answer" || f.signature == "c09/optimizer-changes-limited-answer" => {
            // Known engine defect, not a rewrite: an id column that passed through Project / Join / a scan with
            // input / SKIP / LIMIT / Sort is untyped, and `v.k` on an untyped column resolves the id as a *node*
            // id (filter: node first, edge only if no such node; projection: node only). So `e.k` on an edge
            // variable reads another entity (or NULL) above such an operator and the edge below it, and moving
            // the filter across the operator changes the answer. The defect needs an edge property to be
            // filtered: the failure is attributed to it only if the query filters on an edge property AND the
            // failure vanishes on the same history with no edge properties and disjoint node/edge id ranges
            // (where `e.k` is NULL at every position).
            // WITH DISTINCT .. WHERE: push-down moves the filter below the projection and the Distinct above it no
            // longer removes duplicate bindings (known finding). Attributed only if the failure vanishes when the
            // same query uses a plain WITH.
            if matches!(c.query.mid, qgen::Mid::With { distinct: true }) {
                let mut plain = c.clone();
                plain.query.mid = qgen::Mid::With { distinct: false };
                if check_inner(&plain).is_ok() {
                    return Err(crate::driver::Failure { signature: "c09/with-distinct-multiplicity".into(), what: f.what });
                }
            }
            // A variable bound again by a later MATCH / OPTIONAL MATCH is not unified by the engine: the join output
            // has two columns of that name and operators resolve the name differently (Project: first, Filter: last),
            // so a WITH .. WHERE filter on such a variable reads another binding once it is pushed below the
            // projection (known finding). Attributed only to queries with WITH whose moved predicate reads a
            // variable bound on both sides of a join.
            if !matches!(c.query.mid, qgen::Mid::None) {
                if let Some(Ok(plan)) = c.query.render(c.lang, false).map(|t| qgen::translate(c.lang, &t)) {
                    let sc = c.query.scope();
                    let mut dup = Default::default();
                    qgen::doubly_bound_vars(&plan.root, &mut dup);
                    let mut used = Default::default();
                    if let Some(p) = &c.query.pred2 {
                        qgen::pred_vars(p, &sc, &mut used);
                    }
                    if used.intersection(&dup).next().is_some() {
                        return Err(crate::driver::Failure { signature: "c09/with-filter-on-doubly-bound-variable".into(), what: f.what });
                    }
                }
            }
            let sc = c.query.scope();
            let edge_filter = c.query.pred.as_ref().is_some_and(|p| qgen::mentions_edge_prop(p, &sc))
                || c.query.pred2.as_ref().is_some_and(|p| qgen::mentions_edge_prop(p, &sc))
                || c.query.paths.iter().any(|p| p.hops.iter().any(|h| h.evar && h.einline.is_some()));
            if edge_filter {
                let (graph, later) = qgen::strip_edge_props(&c.graph, &c.later);
                let neutral = Case { graph, later, pad_ids: true, ..c.clone() };
                if check_inner(&neutral).is_ok() {
                    return Err(crate::driver::Failure { signature: "c09/edge-column-loses-type".into(), what: f.what });
                }
            }
            Err(f)
        }
        other => other,
    }
}

fn check_inner(c: &Case) -> CaseResult {
    let lang = match c.lang {
        Lang::Gql => "gql",
        Lang::Cypher => "cypher",
    };
    let is_write = c.query.write.is_some();
    let Some(full_text) = c.query.render(c.lang, false) else {
        return ok(false, format!("{lang}/not-expressible"), hash_dbg(c));
    };
    let plan = match guard("translate", || qgen::translate(c.lang, &full_text))? {
        Ok(p) => p,
        Err(e) => {
            if std::env::var("C09_DEBUG").is_ok() {
                eprintln!("REJECT {lang}: {full_text}\n    {e}");
            }
            return ok(false, format!("{lang}/rejected"), hash_dbg(c));
        }
    };
    let unopt_key = format!("{:?}", plan.root);

    let (b, stale) = guard("build", || build(c))?;
    let vars = variants(c, &b, &stale, &plan)?;
    let changed = vars.iter().any(|v| v.key != unopt_key);

    // ---- execution of every distinct plan, flat and factorized ---------------------------------
    let run = |p: &LogicalPlan, factorized: bool| -> Result<(Outcome, Vec<String>), crate::driver::Failure> {
        if is_write {
            let (fresh, _) = guard("build", || build(c))?;
            let o = guard("execute", || qgen::execute(&fresh.db, p, factorized))?;
            let d = guard("dump", || fresh.dump())?;
            Ok((o, d))
        } else {
            Ok((guard("execute", || qgen::execute(&b.db, p, factorized))?, Vec::new()))
        }
    };

    let (reference, ref_dump) = run(&plan, false)?;
    let order_col = c.query.order_col();
    let mut flat: BTreeMap<usize, Outcome> = BTreeMap::new();
    for (i, v) in vars.iter().enumerate() {
        let (o, d) = run(&v.plan, false)?;
        let bad = !agree(&reference, &o) || d != ref_dump;
        if !bad {
            if let (Some(col), Ok(r), Ok(x)) = (order_col, &reference, &o) {
                if key_seq(r, col) != key_seq(x, col) {
                    return fail(order_signature(r, col), format!("{full_text}\n key sequence unoptimized: {:?}\n key sequence {:?}: {:?}", key_seq(r, col), v.configs, key_seq(x, col)));
                }
            }
        }
        if bad {
            // WITH DISTINCT .. WHERE: same set of rows, different multiplicities (see known findings)
            let dedup = |r: &Rows| {
                let mut v = qgen::sorted(r);
                v.dedup();
                v
            };
            let sig = match (&reference, &o) {
                (Ok(r), Ok(x)) if matches!(c.query.mid, qgen::Mid::With { distinct: true }) && d == ref_dump && dedup(r) == dedup(x) => "c09/with-distinct-multiplicity",
                _ => "c09/optimizer-changes-answer",
            };
            return fail(
                sig,
                format!(
                    "{full_text}\n unoptimized (flat): {}\n optimized {:?} (flat): {}\n state equal: {}\n unoptimized plan: {}\n optimized plan:   {}",
                    short(&reference), v.configs, short(&o), d == ref_dump, crate::driver::truncate(&unopt_key, 1200), crate::driver::truncate(&v.key, 1200)
                ),
            );
        }
        flat.insert(i, o);
    }
    // factorized on: unoptimized plan and every variant
    let mut fact_runs: Vec<(String, &LogicalPlan, Outcome, Vec<String>)> = Vec::new();
    {
        let (o, d) = run(&plan, true)?;
        fact_runs.push(("unoptimized".into(), &plan, o, d));
    }
    for v in &vars {
        let (o, d) = run(&v.plan, true)?;
        fact_runs.push((format!("{:?}", v.configs), &v.plan, o, d));
    }
    for (name, p, o, d) in &fact_runs {
        let bad = !agree(&reference, o) || *d != ref_dump;
        if !bad {
            if let (Some(col), Ok(r), Ok(x)) = (order_col, &reference, o) {
                if key_seq(r, col) != key_seq(x, col) {
                    return fail(order_signature(r, col), format!("{full_text}\n key sequence flat: {:?}\n key sequence factorized {name}: {:?}", key_seq(r, col), key_seq(x, col)));
                }
            }
        }
        if bad {
            let chains = qgen::expand_chains(&p.root);
            let shape = factorized_shape(&reference, o);
            // a DETACH DELETE over a multi-hop pattern: the rows agree and only the database left behind differs —
            // deletion is interleaved with matching, and flat / factorized execution enumerate the bindings in
            // different orders (known finding C09-factorized-delete-interleaving)
            let delete_state_only = matches!(c.query.write, Some(qgen::WriteSpec::Delete(_))) && agree(&reference, o) && *d != ref_dump && chains > 0;
            let sig = if chains == 0 {
                "c09/factorized-only/no-chain".to_string()
            } else if delete_state_only {
                "c09/factorized-only/delete-leaves-different-database".to_string()
            } else {
                format!("c09/factorized-only/{shape}")
            };
            return fail(
                sig,
                format!(
                    "{full_text}\n flat: {} (database after: {} lines)\n factorized ({name}, {chains} expand chain(s)): {} (database after: {} lines; same database: {})\n plan: {}",
                    short(&reference), ref_dump.len(), short(o), d.len(), *d == ref_dump, crate::driver::truncate(&format!("{:?}", p.root), 1200)
                ),
            );
        }
    }

    // ---- the same query with its SKIP/LIMIT -----------------------------------------------------
    let mut limited = false;
    if c.query.has_limit() && !is_write {
        if let (Some(text), Ok(_)) = (c.query.render(c.lang, true), &reference) {
            if let Ok(lplan) = guard("translate", || qgen::translate(c.lang, &text))? {
                // what the limited plan returns when its SKIP/LIMIT operators let everything through
                let unbounded = LogicalPlan::new(qgen::neutralize_limits(&lplan.root));
                let Ok(full) = guard("execute", || qgen::execute(&b.db, &unbounded, false))? else {
                    return ok(false, format!("{lang}/limit-plan-errors"), hash_dbg(c));
                };
                let full = &full;
                limited = true;
                let top_k = qgen::limit_above_sort(&lplan.root);
                // SKIP/LIMIT re-materialise their rows into untyped columns, after which `e.k` on an edge variable
                // no longer reads the edge (known defect, see `check`): values may then differ from the unbounded
                // run in every configuration alike, which is not this property's business.
                let sc = c.query.scope();
                let retyped = matches!(&c.query.ret, Ret::Props { items, .. } if items.iter().any(|p| sc.resolve(*p).2));
                let distinct = matches!(&c.query.ret, Ret::Props { distinct: true, .. });
                let lref = guard("execute", || qgen::execute(&b.db, &lplan, false))?;
                let lvars = variants(c, &b, &stale, &lplan)?;
                for v in &lvars {
                    for factorized in [false, true] {
                        let o = guard("execute", || qgen::execute(&b.db, &v.plan, factorized))?;
                        let good = match (&lref, &o) {
                            (Ok(r), Ok(x)) => {
                                let mut g = (r.len() == x.len() || distinct) && (retyped || qgen::sub_multiset(x, full));
                                if g && top_k {
                                    if let Some(col) = order_col {
                                        g = key_seq(r, col) == key_seq(x, col);
                                    }
                                }
                                g
                            }
                            (Err(_), Err(_)) => true,
                            _ => false,
                        };
                        if !good {
                            let flat_ok = match (&lref, flat_limited(&b, v, &lref, full, distinct || retyped, top_k, order_col)) {
                                (_, Ok(g)) => g,
                                _ => false,
                            };
                            let sig = if factorized && flat_ok && qgen::expand_chains(&v.plan.root) > 0 {
                                format!("c09/factorized-only/{}", factorized_shape(&lref, &o))
                            } else {
                                "c09/optimizer-changes-limited-answer".to_string()
                            };
                            return fail(
                                sig,
                                format!(
                                    "{text}\n unoptimized (flat): {}\n {:?} factorized={factorized}: {}\n answer with SKIP 0 / LIMIT max: {}\n plan: {}",
                                    short(&lref), v.configs, short(&o), short(&Ok(full.clone())), crate::driver::truncate(&v.key, 1200)
                                ),
                            );
                        }
                    }
                }
            }
        }
    }

    if std::env::var("C09_DEBUG").is_ok() {
        eprintln!("RUN {lang}: {full_text}\n    {}", short(&reference));
    }
    let nonempty = matches!(&reference, Ok(r) if !is_empty_answer(r));
    let errored = reference.is_err();
    let shape = if is_write {
        "write"
    } else if c.query.paths.iter().any(|p| p.join == qgen::Join::Optional) && c.query.paths.len() > 1 {
        "optional"
    } else if c.query.paths.len() > 1 {
        "multi-pattern"
    } else if c.query.hop_count() >= 2 {
        "chain"
    } else if c.query.hop_count() == 1 {
        "hop"
    } else {
        "scan"
    };
    let class = format!(
        "{lang}/{shape}/{}{}{}",
        if changed { "plan-changed" } else { "plan-same" },
        if errored { "/err" } else if nonempty { "/rows" } else { "/empty" },
        if limited { "/limit" } else { "" }
    );
    ok(changed && nonempty, class, hash_dbg(&(&c.graph, &c.later, &full_text)))
}

/// Re-evaluates the limited-variant acceptance for the flat execution of one variant (used only to
/// attribute a failing factorized run).
fn flat_limited(
    b: &Built,
    v: &Variant,
    lref: &Outcome,
    full: &Rows,
    distinct: bool,
    top_k: bool,
    order_col: Option<usize>,
) -> Result<bool, crate::driver::Failure> {
    let o = guard("execute", || qgen::execute(&b.db, &v.plan, false))?;
    Ok(match (lref, &o) {
        (Ok(r), Ok(x)) => {
            let mut g = (r.len() == x.len() || distinct) && qgen::sub_multiset(x, full);
            if g && top_k {
                if let Some(col) = order_col {
                    g = key_seq(r, col) == key_seq(x, col);
                }
            }
            g
        }
        (Err(_), Err(_)) => true,
        _ => false,
    })
}

pub fn run(r: &mut Run) {
    r.level = "exploration";
    r.rule = "generated (graph 0-30 nodes with skewed labels/degrees, later mutation batch, query AST rendered to GQL or Cypher): \
              label scans, 1-3 hop chains, comma / MATCH / OPTIONAL MATCH second patterns sharing a variable, WHERE trees over \
              properties of all pattern variables, WITH [DISTINCT] + WHERE, Cypher WITH..LIMIT k WHERE, aggregates, ORDER BY/SKIP/LIMIT, \
              MATCH..SET / DETACH DELETE on per-execution rebuilt databases. Every case: all 2^3 switch sets x statistics \
              {fresh, absent, stale} optimized, every distinct optimized plan executed flat and factorized against the unoptimized flat \
              plan. non-trivial = some optimized plan's Debug rendering differs from the unoptimized one and the answer is non-empty \
              (not zero rows, not a lone 0/NULL aggregate); distinct by hash of (graph, mutations, query text)"
        .into();
    r.assumptions.push("SKIP/LIMIT without a total order admit several answers: the limited query is accepted when it has the reference's row count, is a sub-multiset of the unlimited answer, and (LIMIT above Sort only) has the reference's key sequence".into());
    r.assumptions.push("float aggregates are compared after rounding to 9 significant digits".into());
    r.assumptions.push("no front end emits JoinOp conditions, so DPccp join reordering never finds a connected join graph on translated plans; it is exercised but is the identity on this domain".into());

    let big = r.is_thorough();
    let nodes = if big { 30 } else { 12 };
    r.subcheck("configs", r.cases(40_000, 400_000), move || case(nodes, 12), check);
}
