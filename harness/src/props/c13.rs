//! C13 — not built yet.

use crate::driver::Run;

pub fn run(r: &mut Run) {
    r.inconclusive("C13: check not built yet");
}
