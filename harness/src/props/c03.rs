//! C03 — not built yet.

use crate::driver::Run;

pub fn run(r: &mut Run) {
    r.inconclusive("C03: check not built yet");
}
