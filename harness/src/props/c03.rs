//! C03 — first committer wins (and the shared transaction-manager model / generators used by C04).
//!
//! Target: `grafeo_engine::transaction::TransactionManager` (begin / record_write / record_read /
//! commit / abort / gc) and the session layer above it.
//!
//! Oracle (`Model`): an *order-based* reference that never looks at epochs. A transaction T overlaps a
//! committed transaction T' iff T' committed (position in the history) after T began. commit(T) must be
//! refused with `WriteConflict` iff some overlapping committed T' has write_set(T') ∩ write_set(T) ≠ ∅;
//! a Serializable T with a non-empty write set must additionally be refused with `SerializationFailure`
//! iff some overlapping committed T' wrote an entity T read (C04). Everything else must be accepted.
//! A refused commit leaves the transaction Active (the property does not say which terminal state a
//! refused commit takes; the model follows the implementation, DESIGN §4 C03 E).
//! Separately checked: epochs agree with the order (start epoch >= every earlier commit epoch, commit
//! epoch > every earlier start and commit epoch), states never leave Committed/Aborted, gc never
//! removes an Active transaction and never changes any outcome (each history is run three times: as
//! generated, with the gc ops stripped, with a gc after every op).

use std::sync::{Arc, Barrier};

use proptest::prelude::*;
use serde::{Deserialize, Serialize};

use grafeo_common::types::{EdgeId, NodeId, TxId};
use grafeo_common::utils::error::{Error, TransactionError};
use grafeo_engine::transaction::{EntityId, IsolationLevel, TransactionManager, TxState};

use crate::driver::{CaseResult, Failure, Run, fail, guard, hash_of, ok, pick};

pub const MAX_TX: usize = 6;
pub const N_ENT: u8 = 4;

// ------------------------------------------------------------------------------------------------
// Cases
// ------------------------------------------------------------------------------------------------

/// How the `tx` field of a generated op selects a transaction.
#[derive(Debug, Clone, Copy, PartialEq, Eq, Hash, Serialize, Deserialize)]
pub enum Sel {
    /// `pick(tx, #active)` among the transactions the model holds Active (ascending begin order)
    Active,
    /// `pick(tx, #begun)` among all begun transactions (reaches finished / collected ones)
    Any,
}

/// A generated history step. Levels: 0 ReadCommitted, 1 SnapshotIsolation, 2 Serializable.
#[derive(Debug, Clone, Copy, PartialEq, Eq, Hash, Serialize, Deserialize)]
pub enum Op {
    Begin { level: u8 },
    Write { tx: u16, sel: Sel, e: u8 },
    Read { tx: u16, sel: Sel, e: u8 },
    Commit { tx: u16, sel: Sel },
    Abort { tx: u16, sel: Sel },
    Gc,
}

/// A resolved step: `t` is the index of the transaction in begin order.
#[derive(Debug, Clone, Copy, PartialEq, Eq, Hash)]
pub enum ROp {
    Begin(u8),
    Write(u8, u8),
    Read(u8, u8),
    Commit(u8),
    Abort(u8),
    Gc,
}

pub fn level_name(l: u8) -> &'static str {
    match l {
        0 => "rc",
        1 => "si",
        _ => "ser",
    }
}

fn level_of(l: u8) -> IsolationLevel {
    match l {
        0 => IsolationLevel::ReadCommitted,
        1 => IsolationLevel::SnapshotIsolation,
        _ => IsolationLevel::Serializable,
    }
}

/// Entities: Node(1), Edge(1), Node(2), Edge(2), … (same numeric id, different kind must not collide).
pub fn entity(e: u8) -> EntityId {
    let id = u64::from(e / 2) + 1;
    if e % 2 == 0 { EntityId::Node(NodeId::new(id)) } else { EntityId::Edge(EdgeId::new(id)) }
}

/// Compact rendering: `b0:si w0:1 r1:0 c0 a1 gc`.
pub fn render(ops: &[ROp]) -> String {
    let mut n = 0;
    let mut out = Vec::new();
    for op in ops {
        out.push(match op {
            ROp::Begin(l) => {
                n += 1;
                format!("b{}:{}", n - 1, level_name(*l))
            }
            ROp::Write(t, e) => format!("w{t}:{e}"),
            ROp::Read(t, e) => format!("r{t}:{e}"),
            ROp::Commit(t) => format!("c{t}"),
            ROp::Abort(t) => format!("a{t}"),
            ROp::Gc => "gc".to_string(),
        });
    }
    out.join(" ")
}

// ------------------------------------------------------------------------------------------------
// Reference model
// ------------------------------------------------------------------------------------------------

#[derive(Debug, Clone, Copy, PartialEq, Eq)]
pub enum MState {
    Active,
    Committed,
    Aborted,
}

#[derive(Debug, Clone)]
pub struct MTx {
    pub level: u8,
    pub begin_pos: usize,
    pub ws: u16,
    pub rs: u16,
    pub state: MState,
    pub commit_pos: Option<usize>,
    /// commit was attempted at least once while Active
    pub attempted: bool,
    /// last commit attempt was refused by the model
    pub refused: bool,
}

#[derive(Debug, Clone, Copy, PartialEq, Eq, Default)]
pub struct Decision {
    /// an overlapping committed transaction wrote an entity we wrote
    pub ww: bool,
    /// Serializable, non-empty write set, an overlapping committed transaction wrote an entity we read
    pub rw: bool,
    /// a transaction that committed *before we began* wrote an entity we wrote (must not matter)
    pub ww_earlier: bool,
    /// a transaction that committed before we began wrote an entity we read (must not matter)
    pub rw_earlier: bool,
    /// an overlapping committed transaction wrote an entity we read (whatever our level / write set)
    pub stale_read: bool,
}

impl Decision {
    pub fn accept(&self) -> bool {
        !self.ww && !self.rw
    }
}

/// What the model expects of one step.
#[derive(Debug, Clone, Copy, PartialEq, Eq)]
pub enum Exp {
    Began,
    Unit,
    Invalid,
    Commit(Decision),
    Gc,
}

#[derive(Debug, Clone, Default)]
pub struct Model {
    pub txs: Vec<MTx>,
    pub pos: usize,
}

impl Model {
    pub fn active(&self) -> Vec<u8> {
        self.txs.iter().enumerate().filter(|(_, t)| t.state == MState::Active).map(|(i, _)| i as u8).collect()
    }

    pub fn decide(&self, t: usize) -> Decision {
        let me = &self.txs[t];
        let mut d = Decision::default();
        for (i, o) in self.txs.iter().enumerate() {
            if i == t || o.state != MState::Committed {
                continue;
            }
            let overlapping = o.commit_pos.unwrap() > me.begin_pos;
            let w = o.ws & me.ws != 0;
            let r = o.ws & me.rs != 0;
            if overlapping {
                d.ww |= w;
                d.stale_read |= r;
                d.rw |= r && me.level == 2 && me.ws != 0;
            } else {
                d.ww_earlier |= w;
                d.rw_earlier |= r;
            }
        }
        d
    }

    pub fn step(&mut self, op: ROp) -> Exp {
        let pos = self.pos;
        self.pos += 1;
        let active = |m: &Model, t: u8| m.txs.get(t as usize).is_some_and(|x| x.state == MState::Active);
        match op {
            ROp::Begin(level) => {
                self.txs.push(MTx {
                    level,
                    begin_pos: pos,
                    ws: 0,
                    rs: 0,
                    state: MState::Active,
                    commit_pos: None,
                    attempted: false,
                    refused: false,
                });
                Exp::Began
            }
            ROp::Write(t, e) => {
                if !active(self, t) {
                    return Exp::Invalid;
                }
                self.txs[t as usize].ws |= 1 << e;
                Exp::Unit
            }
            ROp::Read(t, e) => {
                if !active(self, t) {
                    return Exp::Invalid;
                }
                self.txs[t as usize].rs |= 1 << e;
                Exp::Unit
            }
            ROp::Commit(t) => {
                if !active(self, t) {
                    return Exp::Invalid;
                }
                let d = self.decide(t as usize);
                let tx = &mut self.txs[t as usize];
                tx.attempted = true;
                if d.accept() {
                    tx.state = MState::Committed;
                    tx.commit_pos = Some(pos);
                    tx.refused = false;
                } else {
                    tx.refused = true;
                }
                Exp::Commit(d)
            }
            ROp::Abort(t) => {
                if !active(self, t) {
                    return Exp::Invalid;
                }
                self.txs[t as usize].state = MState::Aborted;
                Exp::Unit
            }
            ROp::Gc => Exp::Gc,
        }
    }
}

/// Resolves generated ops into concrete ones (needs the model to know which transactions are Active).
pub fn resolve(ops: &[Op], max_tx: usize) -> Vec<ROp> {
    let mut m = Model::default();
    let mut out = Vec::with_capacity(ops.len());
    for op in ops {
        let target = |m: &Model, tx: u16, sel: Sel| -> Option<u8> {
            match sel {
                Sel::Active => {
                    let a = m.active();
                    if a.is_empty() { None } else { Some(a[pick(tx, a.len())]) }
                }
                Sel::Any => {
                    if m.txs.is_empty() { None } else { Some(pick(tx, m.txs.len()) as u8) }
                }
            }
        };
        let r = match *op {
            Op::Begin { level } => {
                if m.txs.len() >= max_tx {
                    continue;
                }
                ROp::Begin(level.min(2))
            }
            Op::Write { tx, sel, e } => match target(&m, tx, sel) {
                Some(t) => ROp::Write(t, e % 8),
                None => continue,
            },
            Op::Read { tx, sel, e } => match target(&m, tx, sel) {
                Some(t) => ROp::Read(t, e % 8),
                None => continue,
            },
            Op::Commit { tx, sel } => match target(&m, tx, sel) {
                Some(t) => ROp::Commit(t),
                None => continue,
            },
            Op::Abort { tx, sel } => match target(&m, tx, sel) {
                Some(t) => ROp::Abort(t),
                None => continue,
            },
            Op::Gc => ROp::Gc,
        };
        m.step(r);
        out.push(r);
    }
    out
}

// ------------------------------------------------------------------------------------------------
// Running a history against the real TransactionManager
// ------------------------------------------------------------------------------------------------

#[derive(Debug, Clone, Copy, PartialEq, Eq)]
pub enum EK {
    WriteConflict,
    Serialization,
    InvalidState,
    Other,
}

fn kind(e: &Error) -> EK {
    match e {
        Error::Transaction(TransactionError::WriteConflict(_)) => EK::WriteConflict,
        Error::Transaction(TransactionError::SerializationFailure(_)) => EK::Serialization,
        Error::Transaction(TransactionError::InvalidState(_)) => EK::InvalidState,
        _ => EK::Other,
    }
}

#[derive(Debug, Clone, Copy, PartialEq, Eq)]
pub enum Out {
    Began { start: Option<u64>, current: u64 },
    Unit,
    Epoch(u64),
    Err(EK),
    Gc,
}

#[derive(Debug, Clone)]
pub struct Step {
    pub out: Out,
    /// `state(tx)` of every begun transaction after the step: 0 unknown to the manager, 1 Active, 2 Committed, 3 Aborted
    pub states: Vec<u8>,
    /// at least one gc call has happened so far
    pub gc_seen: bool,
}

#[derive(Debug, Clone, Copy, PartialEq, Eq)]
pub enum GcMode {
    AsIs,
    Strip,
    Everywhere,
}

fn state_code(s: Option<TxState>) -> u8 {
    match s {
        None => 0,
        Some(TxState::Active) => 1,
        Some(TxState::Committed) => 2,
        Some(TxState::Aborted) => 3,
    }
}

/// Executes the history. Returns one `Step` per op of `ops` (a stripped gc yields `Out::Gc` without a call).
pub fn run_real(ops: &[ROp], mode: GcMode) -> Result<Vec<Step>, Failure> {
    guard("TransactionManager history", || {
        let mgr = TransactionManager::new();
        let mut ids: Vec<TxId> = Vec::new();
        let mut steps = Vec::with_capacity(ops.len());
        let mut gc_seen = false;
        for op in ops {
            let out = match *op {
                ROp::Begin(l) => {
                    let current = mgr.current_epoch().as_u64();
                    let id = mgr.begin_with_isolation(level_of(l));
                    ids.push(id);
                    Out::Began { start: mgr.start_epoch(id).map(|e| e.as_u64()), current }
                }
                ROp::Write(t, e) => match mgr.record_write(ids[t as usize], entity(e)) {
                    Ok(()) => Out::Unit,
                    Err(er) => Out::Err(kind(&er)),
                },
                ROp::Read(t, e) => match mgr.record_read(ids[t as usize], entity(e)) {
                    Ok(()) => Out::Unit,
                    Err(er) => Out::Err(kind(&er)),
                },
                ROp::Commit(t) => match mgr.commit(ids[t as usize]) {
                    Ok(ep) => Out::Epoch(ep.as_u64()),
                    Err(er) => Out::Err(kind(&er)),
                },
                ROp::Abort(t) => match mgr.abort(ids[t as usize]) {
                    Ok(()) => Out::Unit,
                    Err(er) => Out::Err(kind(&er)),
                },
                ROp::Gc => {
                    if mode != GcMode::Strip {
                        mgr.gc();
                        gc_seen = true;
                    }
                    Out::Gc
                }
            };
            if mode == GcMode::Everywhere && *op != ROp::Gc {
                mgr.gc();
                gc_seen = true;
            }
            let states = ids.iter().map(|id| state_code(mgr.state(*id))).collect();
            steps.push(Step { out, states, gc_seen });
        }
        steps
    })
}

/// Facts about a history used for classes / non-triviality.
#[derive(Debug, Clone, Default)]
pub struct Summary {
    pub n_tx: usize,
    pub ww_pair_both_attempted: bool,
    pub ww_refusals: u32,
    pub rw_refusals: u32,
    pub accepted_commits: u32,
    /// a gc lies between a successful commit and a later begin or commit attempt
    pub gc_between: bool,
    /// T read e, an overlapping T' wrote e and committed, T reached commit (accepted or refused)
    pub rw_antidep: bool,
    /// a transaction that began after an earlier writer of the same entity committed reached commit
    pub sequential_same_entity: bool,
    pub ops_on_finished: u32,
    pub all_serializable: bool,
    pub readonly_stale_accept: bool,
    /// known divergence met (read-only Serializable transaction refused for a stale read); the model
    /// followed the implementation from there and the history is reported under that signature at the end
    pub ro_refused: Option<String>,
}

/// Compares the real execution (as generated) against the model. `prop` is "c03" or "c04" and only
/// chooses the prefix of generic signatures.
pub fn compare_with_model(ops: &[ROp], real: &[Step]) -> Result<Summary, Failure> {
    let h = || render(ops);
    let mut m = Model::default();
    let mut sum = Summary { all_serializable: true, ..Summary::default() };
    let mut last_ce: u64 = 0; // highest commit epoch so far
    let mut max_start: u64 = 0;
    let mut starts: Vec<u64> = Vec::new();
    let mut commit_seen = false;
    let mut gc_after_commit = false;
    // terminal transactions may disappear only after a gc; once gone they stay gone
    let mut gone: Vec<bool> = Vec::new();

    for (i, (op, st)) in ops.iter().zip(real).enumerate() {
        let before = m.clone();
        let exp = m.step(*op);
        match (exp, st.out) {
            (Exp::Began, Out::Began { start, current }) => {
                let Some(s) = start else {
                    return fail("c03/start-epoch-missing", format!("{}: step {i}: start_epoch(tx) is None right after begin", h()));
                };
                if s < last_ce || s != current {
                    return fail(
                        "c03/epoch-order",
                        format!("{}: step {i}: start epoch {s}, current epoch {current}, highest earlier commit epoch {last_ce}", h()),
                    );
                }
                max_start = max_start.max(s);
                starts.push(s);
                gone.push(false);
                if let ROp::Begin(l) = op {
                    sum.all_serializable &= *l == 2;
                }
                if gc_after_commit {
                    sum.gc_between = true;
                }
            }
            (Exp::Unit, Out::Unit) => {}
            (Exp::Gc, Out::Gc) => {
                if commit_seen {
                    gc_after_commit = true;
                }
            }
            (Exp::Invalid, Out::Err(EK::InvalidState)) => sum.ops_on_finished += 1,
            (Exp::Invalid, got) => {
                return fail(
                    "c03/op-on-finished-transaction",
                    format!("{}: step {i} ({op:?}) targets a finished transaction, expected InvalidState, got {got:?}", h()),
                );
            }
            (Exp::Commit(d), got) => {
                let ROp::Commit(t) = *op else { unreachable!() };
                let me = &before.txs[t as usize];
                if gc_after_commit {
                    sum.gc_between = true;
                }
                if d.ww_earlier {
                    sum.sequential_same_entity = true;
                }
                if d.stale_read {
                    sum.rw_antidep = true;
                }
                let detail = |what: &str| {
                    format!(
                        "{}: step {i} commit of t{t} ({}; ws={:#b} rs={:#b}) {what}; model {d:?}, implementation {got:?}",
                        h(),
                        level_name(me.level),
                        me.ws,
                        me.rs
                    )
                };
                match got {
                    Out::Epoch(ep) => {
                        if d.ww {
                            return fail("c03/conflicting-writer-committed", detail("must be refused (WriteConflict) but committed"));
                        }
                        if d.rw {
                            return fail("c04/stale-read-writer-committed", detail("must be refused (SerializationFailure) but committed"));
                        }
                        if ep <= last_ce || ep <= max_start {
                            return fail(
                                "c03/epoch-order",
                                detail(&format!("commit epoch {ep} not above earlier commit epoch {last_ce} / start epoch {max_start}")),
                            );
                        }
                        last_ce = ep;
                        commit_seen = true;
                        gc_after_commit = false;
                        sum.accepted_commits += 1;
                        if d.stale_read && me.ws == 0 && me.level == 2 {
                            sum.readonly_stale_accept = true;
                        }
                    }
                    Out::Err(EK::WriteConflict) => {
                        if !d.ww {
                            if d.ww_earlier {
                                return fail(
                                    "c03/refused-by-writer-committed-before-begin",
                                    detail("refused with WriteConflict although every writer of its entities committed before it began"),
                                );
                            }
                            return fail("c03/refused-without-conflict", detail("refused with WriteConflict without any conflicting committed writer"));
                        }
                        sum.ww_refusals += 1;
                    }
                    Out::Err(EK::Serialization) => {
                        if !d.rw {
                            if d.ww {
                                return fail("c03/wrong-error-kind", detail("write-write conflict reported as SerializationFailure"));
                            }
                            if me.level == 2 && me.ws == 0 && d.stale_read {
                                // classified divergence: keep checking the rest of the history with the model
                                // following the implementation (the transaction stays Active)
                                if sum.ro_refused.is_none() {
                                    sum.ro_refused = Some(detail("read-only Serializable transaction refused for a stale read"));
                                }
                                let tx = &mut m.txs[t as usize];
                                tx.state = MState::Active;
                                tx.commit_pos = None;
                                tx.refused = true;
                            } else if me.level != 2 {
                                return fail("c04/non-serializable-refused-for-read", detail("non-Serializable transaction refused for a read"));
                            } else if d.rw_earlier && !d.stale_read {
                                return fail(
                                    "c04/refused-by-writer-committed-before-begin",
                                    detail("refused with SerializationFailure although every writer of what it read committed before it began"),
                                );
                            } else {
                                return fail("c04/refused-without-conflict", detail("refused with SerializationFailure without a stale read"));
                            }
                        } else {
                            sum.rw_refusals += 1;
                        }
                    }
                    other => {
                        return fail("c03/commit-unexpected-result", detail(&format!("unexpected result {other:?}")));
                    }
                }
            }
            (e, got) => {
                return fail("c03/op-result", format!("{}: step {i} ({op:?}): model expects {e:?}, implementation {got:?}", h()));
            }
        }

        // states: Active stays Active; terminal states are kept or (after a gc) forgotten, never changed
        for (t, mt) in m.txs.iter().enumerate() {
            let code = st.states[t];
            let want = match mt.state {
                MState::Active => 1,
                MState::Committed => 2,
                MState::Aborted => 3,
            };
            let okay = if code == want {
                !gone[t]
            } else {
                code == 0 && want != 1 && st.gc_seen
            };
            if !okay {
                return fail(
                    "c03/state",
                    format!(
                        "{}: after step {i}: state(t{t}) code {code} (0 none,1 active,2 committed,3 aborted), model {:?}, previously collected: {}",
                        h(),
                        mt.state,
                        gone[t]
                    ),
                );
            }
            if code == 0 {
                gone[t] = true;
            }
        }
    }

    sum.n_tx = m.txs.len();
    for (a, ta) in m.txs.iter().enumerate() {
        for tb in m.txs.iter().skip(a + 1) {
            if ta.ws & tb.ws != 0 && ta.attempted && tb.attempted {
                sum.ww_pair_both_attempted = true;
            }
        }
    }
    dependency_graph_check(ops, &m)?;
    Ok(sum)
}

/// Global check on the finished history (C04): over the *committed Serializable* transactions (as the
/// model and — after `compare_with_model` — the implementation have them), the dependency graph built
/// from the order-based version history (ww, wr, rw edges; a read sees the versions committed before
/// the reader began) must be acyclic. Writers are placed at their commit position, read-only
/// transactions at their begin position; every edge must point forward.
fn dependency_graph_check(ops: &[ROp], m: &Model) -> Result<(), Failure> {
    let nodes: Vec<usize> = (0..m.txs.len()).filter(|&i| m.txs[i].state == MState::Committed && m.txs[i].level == 2).collect();
    let n = nodes.len();
    if n < 2 {
        return Ok(());
    }
    let mut adj = vec![vec![false; n]; n];
    for (a, &ia) in nodes.iter().enumerate() {
        for (b, &ib) in nodes.iter().enumerate() {
            if a == b {
                continue;
            }
            let (ta, tb) = (&m.txs[ia], &m.txs[ib]);
            // ww: version order = commit order
            if ta.ws & tb.ws != 0 && ta.commit_pos < tb.commit_pos {
                adj[a][b] = true;
            }
            // tb read something ta wrote
            let shared = ta.ws & tb.rs & !tb.ws;
            if shared != 0 {
                if ta.commit_pos.unwrap() < tb.begin_pos {
                    adj[a][b] = true; // wr: tb saw ta's version
                } else {
                    adj[b][a] = true; // rw: tb read a version older than ta's
                }
            }
        }
    }
    // cycle detection (Kahn)
    let mut indeg: Vec<usize> = (0..n).map(|b| (0..n).filter(|&a| adj[a][b]).count()).collect();
    let mut removed = vec![false; n];
    for _ in 0..n {
        if let Some(v) = (0..n).find(|&v| !removed[v] && indeg[v] == 0) {
            removed[v] = true;
            for b in 0..n {
                if adj[v][b] {
                    indeg[b] -= 1;
                }
            }
        }
    }
    if removed.iter().any(|r| !r) {
        let cyc: Vec<usize> = (0..n).filter(|&v| !removed[v]).map(|v| nodes[v]).collect();
        return fail(
            "c04/dependency-cycle",
            format!("{}: committed Serializable transactions {cyc:?} form a dependency cycle", render(ops)),
        );
    }
    Ok(())
}

/// Metamorphic relation: the outcome of every non-gc step is the same whatever gc calls are made.
fn compare_runs(ops: &[ROp], base: &[Step], other: &[Step], label: &str) -> Result<(), Failure> {
    for (i, ((op, a), b)) in ops.iter().zip(base).zip(other).enumerate() {
        if *op == ROp::Gc {
            continue;
        }
        if a.out != b.out {
            let sig = if matches!(op, ROp::Commit(_)) { "c03/gc-changes-commit-decision" } else { "c03/gc-changes-outcome" };
            return fail(sig, format!("{}: step {i} ({op:?}): as generated {:?}, {label} {:?}", render(ops), a.out, b.out));
        }
    }
    Ok(())
}

/// The full check of one transaction-manager history.
pub fn check_history(ops: &[ROp]) -> Result<Summary, Failure> {
    let base = run_real(ops, GcMode::AsIs)?;
    let sum = compare_with_model(ops, &base)?;
    let stripped = run_real(ops, GcMode::Strip)?;
    compare_runs(ops, &base, &stripped, "without gc")?;
    let every = run_real(ops, GcMode::Everywhere)?;
    compare_runs(ops, &base, &every, "with gc after every step")?;
    // the model must hold for the other two runs as well (states, epochs)
    compare_with_model(ops, &stripped)?;
    compare_with_model(ops, &every)?;
    if let Some(what) = &sum.ro_refused {
        return Err(Failure { signature: "c04/read-only-refused".into(), what: what.clone() });
    }
    Ok(sum)
}

pub fn c03_class(s: &Summary) -> (bool, String) {
    let base = if s.ww_refusals > 0 {
        "ww-refused"
    } else if s.sequential_same_entity {
        "same-entity-sequential"
    } else if s.ww_pair_both_attempted {
        "ww-pair-no-refusal"
    } else {
        "no-ww-pair"
    };
    let class = if s.gc_between { format!("{base}+gc") } else { base.to_string() };
    (s.ww_pair_both_attempted && s.gc_between, class)
}

// ------------------------------------------------------------------------------------------------
// Generators
// ------------------------------------------------------------------------------------------------

fn sel() -> impl Strategy<Value = Sel> {
    prop_oneof![9 => Just(Sel::Active), 1 => Just(Sel::Any)]
}

/// One random op. `levels` lists the admissible isolation levels, `read_weight` the weight of reads.
pub fn op_strategy(levels: &'static [u8], n_ent: u8, read_weight: u32) -> impl Strategy<Value = Op> {
    let lv = proptest::sample::select(levels);
    // entities: half of the picks fall on the first two, so that transactions meet
    let ent = move || prop_oneof![1 => 0..n_ent.min(2), 1 => 0..n_ent];
    prop_oneof![
        4 => lv.prop_map(|level| Op::Begin { level }),
        6 => (any::<u16>(), sel(), ent()).prop_map(|(tx, sel, e)| Op::Write { tx, sel, e }),
        read_weight => (any::<u16>(), sel(), ent()).prop_map(|(tx, sel, e)| Op::Read { tx, sel, e }),
        4 => (any::<u16>(), sel()).prop_map(|(tx, sel)| Op::Commit { tx, sel }),
        1 => (any::<u16>(), sel()).prop_map(|(tx, sel)| Op::Abort { tx, sel }),
        3 => Just(Op::Gc),
    ]
}

const A: Sel = Sel::Active;
const HI: u16 = 0xffff;

/// Seeded prefixes (only valid at the start of a history, where the Active list is known).
fn shapes(levels: &'static [u8], n_ent: u8) -> impl Strategy<Value = Vec<Op>> {
    let lv = || proptest::sample::select(levels);
    prop_oneof![
        // a writer that begins after an earlier writer of the same entity committed (optionally gc in between)
        (lv(), lv(), 0..n_ent, any::<bool>()).prop_map(|(l0, l1, e, gc)| {
            let mut v = vec![Op::Begin { level: l0 }, Op::Write { tx: 0, sel: A, e }, Op::Commit { tx: 0, sel: A }];
            if gc {
                v.push(Op::Gc);
            }
            v.extend([Op::Begin { level: l1 }, Op::Write { tx: 0, sel: A, e }, Op::Commit { tx: 0, sel: A }]);
            v
        }),
        // lost update: two overlapping writers of one entity, gc between the commits
        (lv(), lv(), 0..n_ent, any::<bool>()).prop_map(|(l0, l1, e, gc)| {
            let mut v = vec![
                Op::Begin { level: l0 },
                Op::Begin { level: l1 },
                Op::Write { tx: 0, sel: A, e },
                Op::Write { tx: HI, sel: A, e },
                Op::Commit { tx: 0, sel: A },
            ];
            if gc {
                v.push(Op::Gc);
            }
            v.push(Op::Commit { tx: 0, sel: A });
            v
        }),
        // long-running transaction pinned at the start (it stays the first Active one)
        (lv(), 0..n_ent, any::<bool>()).prop_map(|(l0, e, w)| {
            vec![Op::Begin { level: l0 }, if w { Op::Write { tx: 0, sel: A, e } } else { Op::Read { tx: 0, sel: A, e } }]
        }),
        // write skew
        (lv(), lv(), 0..n_ent, 0..n_ent).prop_map(|(l0, l1, a, b)| {
            vec![
                Op::Begin { level: l0 },
                Op::Begin { level: l1 },
                Op::Read { tx: 0, sel: A, e: a },
                Op::Read { tx: 0, sel: A, e: b },
                Op::Read { tx: HI, sel: A, e: a },
                Op::Read { tx: HI, sel: A, e: b },
                Op::Write { tx: 0, sel: A, e: a },
                Op::Write { tx: HI, sel: A, e: b },
                Op::Commit { tx: 0, sel: A },
                Op::Commit { tx: 0, sel: A },
            ]
        }),
        // read-only transaction with a stale read
        (lv(), lv(), 0..n_ent).prop_map(|(l0, l1, e)| {
            vec![
                Op::Begin { level: l0 },
                Op::Read { tx: 0, sel: A, e },
                Op::Begin { level: l1 },
                Op::Write { tx: HI, sel: A, e },
                Op::Commit { tx: HI, sel: A },
                Op::Commit { tx: 0, sel: A },
            ]
        }),
    ]
}

/// Histories: 40 % start with a seeded shape; the long-runner's commit is appended in half of those.
pub fn history_strategy(levels: &'static [u8], n_ent: u8, read_weight: u32, max_len: usize) -> impl Strategy<Value = Vec<Op>> {
    let tail = move || proptest::collection::vec(op_strategy(levels, n_ent, read_weight), 0..max_len);
    prop_oneof![
        6 => tail(),
        4 => (shapes(levels, n_ent), tail(), any::<bool>()).prop_map(|(mut s, t, close)| {
            s.extend(t);
            if close {
                s.push(Op::Commit { tx: 0, sel: A });
            }
            s
        }),
    ]
}

/// C03 histories carry no reads (read validation is C04's subject): every read becomes a write.
pub fn reads_to_writes(ops: Vec<Op>) -> Vec<Op> {
    ops.into_iter()
        .map(|op| match op {
            Op::Read { tx, sel, e } => Op::Write { tx, sel, e },
            o => o,
        })
        .collect()
}

pub static LEVELS_ALL: [u8; 3] = [0, 1, 2];
pub static LEVELS_C03: [u8; 4] = [1, 1, 2, 0];

// ------------------------------------------------------------------------------------------------
// Exhaustive small scope
// ------------------------------------------------------------------------------------------------

/// An enumerated history, 7 bits per step: kind (3) | tx (2) | arg (2); steps 0..9 in `lo`, 9..18 in `hi`.
#[derive(Debug, Clone, Copy, PartialEq, Eq, Hash, Serialize, Deserialize)]
pub struct EnumCase {
    pub lo: u64,
    #[serde(default)]
    pub hi: u64,
}

fn enc(op: ROp) -> u64 {
    let (k, t, a) = match op {
        ROp::Begin(l) => (1u64, 0u64, u64::from(l)),
        ROp::Write(t, e) => (2, u64::from(t), u64::from(e)),
        ROp::Read(t, e) => (3, u64::from(t), u64::from(e)),
        ROp::Commit(t) => (4, u64::from(t), 0),
        ROp::Abort(t) => (5, u64::from(t), 0),
        ROp::Gc => (6, 0, 0),
    };
    k | (t << 3) | (a << 5)
}

pub fn decode(case: &EnumCase) -> Vec<ROp> {
    let mut out = decode_word(case.lo);
    if out.len() == 9 {
        out.extend(decode_word(case.hi));
    }
    out
}

fn decode_word(code: u64) -> Vec<ROp> {
    let mut out = Vec::new();
    let mut c = code;
    while c & 7 != 0 {
        let (k, t, a) = (c & 7, ((c >> 3) & 3) as u8, ((c >> 5) & 3) as u8);
        out.push(match k {
            1 => ROp::Begin(a),
            2 => ROp::Write(t, a),
            3 => ROp::Read(t, a),
            4 => ROp::Commit(t),
            5 => ROp::Abort(t),
            _ => ROp::Gc,
        });
        c >>= 7;
    }
    out
}

pub struct EnumCfg {
    pub max_tx: usize,
    pub n_ent: u8,
    pub steps: usize,
    pub levels: &'static [u8],
    pub reads: bool,
}

/// All well-formed histories of exactly `steps` steps (every shorter history is a prefix of one of
/// them and is checked step by step as part of it). Reductions, all symmetry / idempotence: transactions
/// are numbered in begin order; entity k+1 is not used before entity k; ops only target Active
/// transactions; an entity already in the set is not recorded again; no two consecutive gc.
pub fn enumerate_histories(cfg: &EnumCfg) -> Vec<EnumCase> {
    fn rec(cfg: &EnumCfg, m: &Model, code: EnumCase, depth: usize, used: u8, last_gc: bool, out: &mut Vec<EnumCase>) {
        if depth == cfg.steps {
            out.push(code);
            return;
        }
        let mut moves: Vec<ROp> = Vec::new();
        if m.txs.len() < cfg.max_tx {
            for l in cfg.levels {
                moves.push(ROp::Begin(*l));
            }
        }
        for t in m.active() {
            let tx = &m.txs[t as usize];
            for e in 0..cfg.n_ent.min(used + 1) {
                if tx.ws & (1 << e) == 0 {
                    moves.push(ROp::Write(t, e));
                }
                if cfg.reads && tx.rs & (1 << e) == 0 {
                    moves.push(ROp::Read(t, e));
                }
            }
            moves.push(ROp::Commit(t));
            moves.push(ROp::Abort(t));
        }
        if !last_gc && depth > 0 {
            moves.push(ROp::Gc);
        }
        for mv in moves {
            let mut m2 = m.clone();
            m2.step(mv);
            let used2 = match mv {
                ROp::Write(_, e) | ROp::Read(_, e) => used.max(e + 1),
                _ => used,
            };
            let code2 = if depth < 9 {
                EnumCase { lo: code.lo | (enc(mv) << (7 * depth)), hi: 0 }
            } else {
                EnumCase { lo: code.lo, hi: code.hi | (enc(mv) << (7 * (depth - 9))) }
            };
            rec(cfg, &m2, code2, depth + 1, used2, mv == ROp::Gc, out);
        }
    }
    assert!(cfg.steps <= 18 && cfg.max_tx <= 4 && cfg.n_ent <= 4);
    let mut out = Vec::new();
    rec(cfg, &Model::default(), EnumCase { lo: 0, hi: 0 }, 0, 0, false, &mut out);
    out
}

// ------------------------------------------------------------------------------------------------
// Threaded variant
// ------------------------------------------------------------------------------------------------

/// Two rounds of transactions committed concurrently from real threads. Every transaction of a round
/// begins (and records its writes) before a barrier; all commits of the round happen after it, so
/// within a round every pair overlaps, and no round-2 transaction overlaps a round-1 transaction.
#[derive(Debug, Clone, PartialEq, Eq, Hash, Serialize, Deserialize)]
pub struct ThreadedCase {
    /// per thread: write set of its round-1 transaction, write set of its round-2 transaction (entities 0..8)
    pub threads: Vec<(Vec<u8>, Vec<u8>)>,
    /// extra threads that call gc() in a loop while the commits run
    pub gc_threads: u8,
    /// refused round-1 transactions are aborted (true) or left Active (false) before round 2
    pub abort_refused: bool,
}

pub fn threaded_strategy(max_threads: usize) -> impl Strategy<Value = ThreadedCase> {
    let ws = || {
        prop_oneof![
            3 => proptest::collection::vec(0u8..3, 1..3),
            2 => proptest::collection::vec(0u8..8, 1..4),
            1 => Just(vec![0u8]),
            1 => Just(Vec::new()),
        ]
    };
    (proptest::collection::vec((ws(), ws()), 2..=max_threads), 0u8..3, any::<bool>())
        .prop_map(|(threads, gc_threads, abort_refused)| ThreadedCase { threads, gc_threads, abort_refused })
}

fn mask(ws: &[u8]) -> u16 {
    ws.iter().fold(0u16, |m, e| m | (1 << (e % 8)))
}

pub fn check_threaded(case: &ThreadedCase) -> CaseResult {
    let n = case.threads.len();
    type Res = Result<u64, EK>;
    let results: Vec<(Res, Res)> = guard("threaded commits", || {
        let mgr = Arc::new(TransactionManager::new());
        let barrier = Arc::new(Barrier::new(n));
        let stop = Arc::new(std::sync::atomic::AtomicBool::new(false));
        std::thread::scope(|scope| {
            let gcs: Vec<_> = (0..case.gc_threads)
                .map(|_| {
                    let (mgr, stop) = (Arc::clone(&mgr), Arc::clone(&stop));
                    scope.spawn(move || {
                        while !stop.load(std::sync::atomic::Ordering::SeqCst) {
                            mgr.gc();
                            std::thread::yield_now();
                        }
                    })
                })
                .collect();
            let handles: Vec<_> = case
                .threads
                .iter()
                .map(|(w1, w2)| {
                    let (mgr, barrier) = (Arc::clone(&mgr), Arc::clone(&barrier));
                    let abort_refused = case.abort_refused;
                    scope.spawn(move || {
                        let mut res: Vec<Res> = Vec::new();
                        for ws in [w1, w2] {
                            let tx = mgr.begin();
                            for e in ws {
                                mgr.record_write(tx, entity(*e % 8)).expect("record_write on an active transaction");
                            }
                            barrier.wait();
                            let r = mgr.commit(tx).map(|e| e.as_u64()).map_err(|e| kind(&e));
                            if r.is_err() && abort_refused {
                                mgr.abort(tx).expect("abort of a refused (still active) transaction");
                            }
                            res.push(r);
                            barrier.wait();
                        }
                        (res[0], res[1])
                    })
                })
                .collect();
            let out: Vec<(Res, Res)> = handles.into_iter().map(|h| h.join().expect("worker thread panicked")).collect();
            stop.store(true, std::sync::atomic::Ordering::SeqCst);
            for g in gcs {
                g.join().expect("gc thread panicked");
            }
            out
        })
    })?;

    let mut base_epoch = 0u64;
    let mut conflicts = false;
    for round in 0..2 {
        let rs: Vec<(u16, Res)> = case
            .threads
            .iter()
            .zip(&results)
            .map(|((w1, w2), (r1, r2))| if round == 0 { (mask(w1), *r1) } else { (mask(w2), *r2) })
            .collect();
        let committed: Vec<(usize, u16, u64)> = rs.iter().enumerate().filter_map(|(i, (m, r))| r.ok().map(|e| (i, *m, e))).collect();
        for (a, (ia, ma, _)) in committed.iter().enumerate() {
            for (ib, mb, _) in committed.iter().skip(a + 1) {
                if ma & mb != 0 {
                    return fail(
                        "c03/threaded/conflicting-writers-both-committed",
                        format!("{case:?}: round {round}: threads {ia} and {ib} wrote a common entity and both committed: {results:?}"),
                    );
                }
            }
        }
        for (i, (m, r)) in rs.iter().enumerate() {
            match r {
                Ok(_) => {}
                Err(EK::WriteConflict) => {
                    conflicts = true;
                    if !committed.iter().any(|(_, mc, _)| mc & m != 0) {
                        return fail(
                            "c03/threaded/refused-without-committed-conflicting-writer",
                            format!("{case:?}: round {round}: thread {i} refused but no committed transaction of the round shares an entity: {results:?}"),
                        );
                    }
                }
                Err(k) => {
                    return fail("c03/threaded/unexpected-error", format!("{case:?}: round {round}: thread {i}: {k:?}"));
                }
            }
        }
        let mut eps: Vec<u64> = committed.iter().map(|c| c.2).collect();
        eps.sort_unstable();
        let want: Vec<u64> = (base_epoch + 1..=base_epoch + eps.len() as u64).collect();
        if eps != want {
            return fail(
                "c03/threaded/epochs",
                format!("{case:?}: round {round}: commit epochs {eps:?}, expected the distinct values {want:?}: {results:?}"),
            );
        }
        base_epoch += eps.len() as u64;
    }
    let overlap1 = (0..n).any(|a| (a + 1..n).any(|b| mask(&case.threads[a].0) & mask(&case.threads[b].0) != 0));
    let cross = (0..n).any(|a| (0..n).any(|b| mask(&case.threads[a].0) & mask(&case.threads[b].1) != 0));
    let class = match (conflicts, cross) {
        (true, true) => "conflict+cross-round",
        (true, false) => "conflict",
        (false, true) => "disjoint+cross-round",
        (false, false) => "disjoint",
    };
    ok(overlap1 && cross, class, hash_of(case))
}

// ------------------------------------------------------------------------------------------------
// Session layer
// ------------------------------------------------------------------------------------------------

pub mod sessions;

// ------------------------------------------------------------------------------------------------
// ParallelExecutor (feature `parallel`)
// ------------------------------------------------------------------------------------------------

pub mod parallel_executor;

// ------------------------------------------------------------------------------------------------
// run
// ------------------------------------------------------------------------------------------------

pub fn run(r: &mut Run) {
    r.level = "exploration";
    r.rule = "tm_histories: random TransactionManager histories (<=6 transactions, <=4 entities, <=25/60 steps; 40% start with a seeded \
              shape: sequential same-entity writers, lost update, long-runner, write skew, stale read-only); each run three times \
              (as generated / gc stripped / gc after every step) and against an order-based model. Non-trivial = two transactions \
              with intersecting write sets both reach commit AND a gc lies between a successful commit and a later begin or commit; \
              distinct by hash of the resolved history. tm_exhaustive: every well-formed history of exactly N steps over <=3 \
              transactions, <=2 entities (all shorter ones are prefixes), non-trivial by the same rule. threaded: 2-8 threads x 2 \
              rounds behind barriers, non-trivial = overlapping write sets within round 1 and across rounds. sessions: 2-3 sessions \
              updating 1-2 nodes through GQL, non-trivial = two sessions whose transactions overlap both SET the same node and \
              both reach commit. parallel_executor: batches of 1-12 requests over <=6 entities run by ParallelExecutor::execute_batch \
              with 1-8 workers; the closure is a multi-version memory keyed by (entity, batch index) with generated read sets, write \
              sets, value-dependent writes and failures; a case-level density decides which share of requests keeps its read set, so \
              that all three executor paths (no conflict / re-execution / sequential fallback) are taken; oracle = the same requests \
              executed in batch order. Non-trivial = >=4 requests and some request reads an entity an earlier request may write; \
              distinct by hash of the case."
        .into();
    r.assumptions.push("a refused commit leaves the transaction Active (implementation behaviour; the property does not fix the terminal state)".into());
    r.assumptions.push("overlap is decided by history order (commit position after begin position), epochs are checked to agree with it".into());

    let max_len = if r.is_thorough() { 60 } else { 25 };
    r.subcheck(
        "tm_histories",
        r.cases(100_000, 2_000_000),
        move || history_strategy(&LEVELS_C03, N_ENT, 1, max_len).prop_map(reads_to_writes),
        |ops: &Vec<Op>| {
            let rops = resolve(ops, MAX_TX);
            let sum = check_history(&rops)?;
            let (nt, class) = c03_class(&sum);
            ok(nt, class, hash_of(&rops))
        },
    );

    let steps = std::env::var("VERIF_ENUM_STEPS").ok().and_then(|s| s.parse().ok()).unwrap_or(if r.is_thorough() { 11 } else { 9 });
    let cfg = EnumCfg { max_tx: 3, n_ent: 2, steps, levels: &[1], reads: false };
    let items = enumerate_histories(&cfg);
    r.note(format!("tm_exhaustive: {} histories of exactly {} steps", items.len(), cfg.steps));
    r.enumerate("tm_exhaustive", items, true, |c: &EnumCase| {
        let rops = decode(c);
        let sum = check_history(&rops)?;
        let (nt, class) = c03_class(&sum);
        ok(nt, class, hash_of(c))
    });

    let max_threads = if r.is_thorough() { 8 } else { 6 };
    r.subcheck("threaded", r.cases(1_500, 60_000), move || threaded_strategy(max_threads), check_threaded);

    sessions::run_c03(r);

    parallel_executor::run(r);
}
