//! C04 — Serializable admits only serializable outcomes.
//!
//! Reuses the generator, the order-based model and the executor of `c03` (see there). What is specific
//! here: histories with reads and mixed isolation levels (70 % all-Serializable), the SSI rule of the
//! model (a Serializable transaction with a non-empty write set is refused with `SerializationFailure`
//! iff an overlapping committed transaction wrote something it read; read-only and non-overlapping
//! transactions are never refused; Snapshot / ReadCommitted transactions are never refused for reads),
//! and the global dependency-graph check over the committed Serializable transactions of each finished
//! history (`c03::dependency_graph_check`, run inside `check_history`).

use proptest::prelude::*;

use crate::driver::{Run, hash_of, ok};
use crate::props::c03::{
    EnumCase, EnumCfg, LEVELS_ALL, MAX_TX, N_ENT, Op, Summary, check_history, decode, enumerate_histories, history_strategy, resolve,
    sessions,
};

static LEVELS_SER: [u8; 1] = [2];

pub fn c04_class(s: &Summary) -> (bool, String) {
    let base = if s.rw_refusals > 0 {
        "rw-refused"
    } else if s.readonly_stale_accept {
        "stale-read-only-accepted"
    } else if s.rw_antidep {
        "rw-antidep-accepted"
    } else {
        "no-rw-antidep"
    };
    let mut class = base.to_string();
    if s.ww_refusals > 0 {
        class.push_str("+ww");
    }
    if s.all_serializable {
        class.push_str("/all-ser");
    } else {
        class.push_str("/mixed");
    }
    (s.rw_antidep, class)
}

pub fn run(r: &mut Run) {
    r.level = "exploration";
    r.rule = "tm_histories: random TransactionManager histories with reads (<=6 transactions, <=4 entities, <=25/60 steps; 70% all \
              Serializable, 30% mixed levels; 40% start with a seeded shape: write skew, lost update, stale read-only, long-runner, \
              sequential writers), each run three times (as generated / gc stripped / gc after every step), compared with the \
              order-based model and closed by a dependency-graph acyclicity check over the committed Serializable transactions. \
              Non-trivial = at least one rw-antidependency (T read e, an overlapping T' wrote e and committed) whose reader reached \
              commit (accepted or refused); distinct by hash of the resolved history. tm_exhaustive: every well-formed history of \
              exactly N steps over <=3 transactions, <=2 entities, levels {SI, Serializable}, with reads. sessions: the same \
              shapes through 2-3 Sessions (GQL MATCH..RETURN / MATCH..SET)."
        .into();
    r.assumptions.push("a refused commit leaves the transaction Active (implementation behaviour)".into());
    r.assumptions.push(
        "a record_read is a snapshot read: it observes the versions committed before the reader began (ReadCommitted readers are never graph nodes)".into(),
    );
    r.assumptions.push("when a commit has both a write-write and a read-write conflict either error kind is accepted".into());

    let max_len = if r.is_thorough() { 60 } else { 25 };
    r.subcheck(
        "tm_histories",
        r.cases(100_000, 4_000_000),
        move || prop_oneof![7 => history_strategy(&LEVELS_SER, N_ENT, 6, max_len), 3 => history_strategy(&LEVELS_ALL, N_ENT, 6, max_len)],
        |ops: &Vec<Op>| {
            let rops = resolve(ops, MAX_TX);
            let sum = check_history(&rops)?;
            let (nt, class) = c04_class(&sum);
            ok(nt, class, hash_of(&rops))
        },
    );

    let steps = std::env::var("VERIF_ENUM_STEPS").ok().and_then(|s| s.parse().ok()).unwrap_or(if r.is_thorough() { 8 } else { 7 });
    let cfg = EnumCfg { max_tx: 3, n_ent: 2, steps, levels: &[1, 2], reads: true };
    let items = enumerate_histories(&cfg);
    r.note(format!("tm_exhaustive: {} histories of exactly {} steps", items.len(), cfg.steps));
    r.enumerate("tm_exhaustive", items, true, |c: &EnumCase| {
        let rops = decode(c);
        let sum = check_history(&rops)?;
        let (nt, class) = c04_class(&sum);
        ok(nt, class, hash_of(c))
    });

    if r.is_thorough() {
        // the statement's own scope (every transaction Serializable), one step deeper
        let cfg = EnumCfg { max_tx: 3, n_ent: 2, steps: 9, levels: &[2], reads: true };
        let items = enumerate_histories(&cfg);
        r.note(format!("tm_exhaustive_allser: {} histories of exactly {} steps", items.len(), cfg.steps));
        r.enumerate("tm_exhaustive_allser", items, true, |c: &EnumCase| {
            let rops = decode(c);
            let sum = check_history(&rops)?;
            let (nt, class) = c04_class(&sum);
            ok(nt, class, hash_of(c))
        });
    }

    sessions::run_c04(r);
}
