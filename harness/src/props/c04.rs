//! C04 — Serializable admits only serializable outcomes.
//!
//! Reuses the generator, the order-based model and the executor of `c03` (see there). What is specific
//! here: histories with reads and mixed isolation levels (70 % all-Serializable), the SSI rule of the
//! model (a Serializable transaction with a non-empty write set is refused with `SerializationFailure`
//! iff an overlapping committed transaction wrote something it read; read-only and non-overlapping
//! transactions are never refused; Snapshot / ReadCommitted transactions are never refused for reads),
//! and the global dependency-graph check over the committed Serializable transactions of each finished
//! history (`c03::dependency_graph_check`, run inside `check_history`).

use proptest::prelude::*;

use crate::driver::{Run, hash_of, ok};
use crate::props::c03::{
    EnumCase, EnumCfg, LEVELS_ALL, MAX_TX, N_ENT, Op, Summary, check_history, decode, enumerate_histories, history_strategy, resolve,
    sessions,
};

static LEVELS_SER: [u8; 1] = [2];

pub fn c04_class(s: &Summary) -> (bool, String) {
    let base = if s.rw_refusals > 0 {
        "rw-refused"
    } else if s.readonly_stale_accept {
        "stale-read-only-accepted"
    } else if s.rw_antidep {
        "rw-antidep-accepted"
    } else {
        "no-rw-antidep"
    };
    let mut class = base.to_string();
    if s.ww_refusals > 0 {
        class.push_str("+ww");
    }
    if s.all_serializable {
        class.push_str("/all-ser");
    } else {
        class.push_str("/mixed");
    }
    (s.rw_antidep, class)
}

// ------------------------------------------------------------------------------------------------
// Serializable commits from real threads
// ------------------------------------------------------------------------------------------------

/// Write-skew pairs committed concurrently: per round two overlapping Serializable transactions, T1 reads a / writes
/// b, T2 reads b / writes a (a != b), both begun before either commits, released together by a spin rendezvous and
/// committed from two threads. Under every interleaving of the two commits at most one may be acknowledged (the
/// second committer read an entity the first one wrote and committed after the reader began); the refusal must be a
/// serialization failure. `extra` retained transactions lengthen validation; a third thread may call gc().
#[derive(Debug, Clone, serde::Serialize, serde::Deserialize)]
pub struct SkewCase {
    pub rounds: u16,
    pub extra: u8,
    pub with_gc: bool,
}

fn skew_strategy(max_rounds: u16) -> impl Strategy<Value = SkewCase> {
    (max_rounds / 2..=max_rounds, 0u8..40, any::<bool>()).prop_map(|(rounds, extra, with_gc)| SkewCase { rounds, extra, with_gc })
}

fn check_skew(c: &SkewCase) -> crate::driver::CaseResult {
    use grafeo_common::types::NodeId;
    use grafeo_engine::transaction::{IsolationLevel, TransactionManager};
    use std::sync::Arc;
    use std::sync::atomic::{AtomicBool, AtomicUsize, Ordering};
    let tm = Arc::new(TransactionManager::new());
    // history that validation has to walk
    let _pin = tm.begin(); // a long-running reader keeps earlier commits retained across gc
    for i in 0..c.extra {
        let t = tm.begin();
        let _ = tm.record_write(t, NodeId::new(1000 + u64::from(i)));
        let _ = tm.commit(t);
    }
    let stop = Arc::new(AtomicBool::new(false));
    let gc_thread = if c.with_gc {
        let tm = Arc::clone(&tm);
        let stop = Arc::clone(&stop);
        Some(std::thread::spawn(move || {
            while !stop.load(Ordering::Relaxed) {
                tm.gc();
                std::thread::yield_now();
            }
        }))
    } else {
        None
    };
    let mut both = None;
    let mut refused_wrong_kind = None;
    let mut neither = 0u32;
    for round in 0..c.rounds {
        let (a, b) = (NodeId::new(u64::from(round) * 2), NodeId::new(u64::from(round) * 2 + 1));
        let t1 = tm.begin_with_isolation(IsolationLevel::Serializable);
        let t2 = tm.begin_with_isolation(IsolationLevel::Serializable);
        let prep = tm.record_read(t1, a).and(tm.record_write(t1, b)).and(tm.record_read(t2, b)).and(tm.record_write(t2, a));
        if let Err(e) = prep {
            stop.store(true, Ordering::Relaxed);
            return crate::driver::fail("c04/ssi_threads/record-refused", format!("{e}"));
        }
        let ready = Arc::new(AtomicUsize::new(0));
        let spawn = |tx, tm: Arc<TransactionManager>, ready: Arc<AtomicUsize>| {
            std::thread::spawn(move || {
                ready.fetch_add(1, Ordering::SeqCst);
                let mut spins = 0u32;
                while ready.load(Ordering::SeqCst) < 2 && spins < 5_000_000 {
                    std::hint::spin_loop();
                    spins += 1;
                }
                tm.commit(tx).map(|e| e.as_u64()).map_err(|e| format!("{e}"))
            })
        };
        let h1 = spawn(t1, Arc::clone(&tm), Arc::clone(&ready));
        let h2 = spawn(t2, Arc::clone(&tm), Arc::clone(&ready));
        let (r1, r2) = (h1.join(), h2.join());
        let (Ok(r1), Ok(r2)) = (r1, r2) else {
            stop.store(true, Ordering::Relaxed);
            return crate::driver::fail("c04/ssi_threads/panic", "a committing thread panicked");
        };
        match (&r1, &r2) {
            (Ok(e1), Ok(e2)) => {
                if both.is_none() {
                    both = Some((round, *e1, *e2));
                }
            }
            (Err(_), Err(_)) => neither += 1,
            (Ok(_), Err(e)) | (Err(e), Ok(_)) => {
                if !(e.to_lowercase().contains("serializ") || e.to_lowercase().contains("read-write")) && refused_wrong_kind.is_none() {
                    refused_wrong_kind = Some((round, e.clone()));
                }
            }
        }
        for t in [t1, t2] {
            let _ = tm.abort(t); // a refused transaction stays Active: close it
        }
    }
    stop.store(true, Ordering::Relaxed);
    if let Some(h) = gc_thread {
        let _ = h.join();
    }
    if let Some((round, e1, e2)) = both {
        return crate::driver::fail(
            "c04/ssi_threads/write-skew-admitted",
            format!("round {round}: both transactions of a write-skew pair committed concurrently (epochs {e1} and {e2}); {} rounds, {} retained commits, gc thread {}", c.rounds, c.extra, c.with_gc),
        );
    }
    if neither > 0 {
        return crate::driver::fail("c04/ssi_threads/both-refused", format!("{neither} rounds in which neither transaction of the pair committed"));
    }
    if let Some((round, e)) = refused_wrong_kind {
        return crate::driver::fail("c04/ssi_threads/refusal-kind", format!("round {round}: refused with {e}"));
    }
    ok(c.rounds >= 2, if c.with_gc { "with-gc" } else { "no-gc" }, crate::driver::hash_dbg(c))
}

pub fn run(r: &mut Run) {
    r.level = "exploration";
    r.rule = "tm_histories: random TransactionManager histories with reads (<=6 transactions, <=4 entities, <=25/60 steps; 70% all \
              Serializable, 30% mixed levels; 40% start with a seeded shape: write skew, lost update, stale read-only, long-runner, \
              sequential writers), each run three times (as generated / gc stripped / gc after every step), compared with the \
              order-based model and closed by a dependency-graph acyclicity check over the committed Serializable transactions. \
              Non-trivial = at least one rw-antidependency (T read e, an overlapping T' wrote e and committed) whose reader reached \
              commit (accepted or refused); distinct by hash of the resolved history. tm_exhaustive: every well-formed history of \
              exactly N steps over <=3 transactions, <=2 entities, levels {SI, Serializable}, with reads. sessions: the same \
              shapes through 2-3 Sessions (GQL MATCH..RETURN / MATCH..SET)."
        .into();
    r.assumptions.push("a refused commit leaves the transaction Active (implementation behaviour)".into());
    r.assumptions.push(
        "a record_read is a snapshot read: it observes the versions committed before the reader began (ReadCommitted readers are never graph nodes)".into(),
    );
    r.assumptions.push("when a commit has both a write-write and a read-write conflict either error kind is accepted".into());

    let max_len = if r.is_thorough() { 60 } else { 25 };
    r.subcheck(
        "tm_histories",
        r.cases(100_000, 4_000_000),
        move || prop_oneof![7 => history_strategy(&LEVELS_SER, N_ENT, 6, max_len), 3 => history_strategy(&LEVELS_ALL, N_ENT, 6, max_len)],
        |ops: &Vec<Op>| {
            let rops = resolve(ops, MAX_TX);
            let sum = check_history(&rops)?;
            let (nt, class) = c04_class(&sum);
            ok(nt, class, hash_of(&rops))
        },
    );

    let steps = std::env::var("VERIF_ENUM_STEPS").ok().and_then(|s| s.parse().ok()).unwrap_or(if r.is_thorough() { 8 } else { 7 });
    let cfg = EnumCfg { max_tx: 3, n_ent: 2, steps, levels: &[1, 2], reads: true };
    let items = enumerate_histories(&cfg);
    r.note(format!("tm_exhaustive: {} histories of exactly {} steps", items.len(), cfg.steps));
    r.enumerate("tm_exhaustive", items, true, |c: &EnumCase| {
        let rops = decode(c);
        let sum = check_history(&rops)?;
        let (nt, class) = c04_class(&sum);
        ok(nt, class, hash_of(c))
    });

    if r.is_thorough() {
        // the statement's own scope (every transaction Serializable), one step deeper
        let cfg = EnumCfg { max_tx: 3, n_ent: 2, steps: 9, levels: &[2], reads: true };
        let items = enumerate_histories(&cfg);
        r.note(format!("tm_exhaustive_allser: {} histories of exactly {} steps", items.len(), cfg.steps));
        r.enumerate("tm_exhaustive_allser", items, true, |c: &EnumCase| {
            let rops = decode(c);
            let sum = check_history(&rops)?;
            let (nt, class) = c04_class(&sum);
            ok(nt, class, hash_of(c))
        });
    }

    sessions::run_c04(r);

    // the same validation under real concurrency (sampled): write-skew pairs committed from two threads at once
    let rounds = if r.is_thorough() { 2000 } else { 400 };
    r.subcheck("ssi_threads", r.cases(64, 2000), move || skew_strategy(rounds), check_skew);
}
