//! C04 — not built yet.

use crate::driver::Run;

pub fn run(r: &mut Run) {
    r.inconclusive("C04: check not built yet");
}
