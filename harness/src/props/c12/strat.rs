//! Generators for C12: recipes (shrinkable) rendered to plain query strings.

use proptest::prelude::*;

use super::seeds::{self, NUM_EXTREMES, ODD_CHARS};
use super::{ExecCase, PVal};
use crate::driver::pick;

// ------------------------------------------------------------------------------------------------
// Generic tokenizer (language-agnostic, lossless: tokens + "space before" flags re-join to the input
// up to whitespace width)
// ------------------------------------------------------------------------------------------------

#[derive(Debug, Clone, PartialEq)]
pub struct Tok {
    pub text: String,
    pub space: bool,
}

pub fn tokenize(s: &str) -> Vec<Tok> {
    let cs: Vec<char> = s.chars().collect();
    let mut out = Vec::new();
    let mut i = 0;
    let mut space = false;
    while i < cs.len() {
        let c = cs[i];
        if c.is_whitespace() {
            space = true;
            i += 1;
            continue;
        }
        let start = i;
        if c == '\'' || c == '"' || c == '`' {
            i += 1;
            while i < cs.len() && cs[i] != c {
                if cs[i] == '\\' {
                    i += 1;
                }
                i += 1;
            }
            i = (i + 1).min(cs.len());
        } else if c == '<' && i + 1 < cs.len() && cs[i + 1].is_alphabetic() && cs[i + 1..].iter().take_while(|x| !x.is_whitespace()).any(|x| *x == '>') {
            while i < cs.len() && cs[i] != '>' {
                i += 1;
            }
            i = (i + 1).min(cs.len());
        } else if c.is_alphanumeric() || c == '_' || ((c == '?' || c == '$') && i + 1 < cs.len() && (cs[i + 1].is_alphanumeric() || cs[i + 1] == '_')) {
            let numeric = c.is_ascii_digit();
            i += 1;
            while i < cs.len() {
                let d = cs[i];
                if d.is_alphanumeric() || d == '_' {
                    i += 1;
                } else if numeric && d == '.' && i + 1 < cs.len() && cs[i + 1].is_ascii_digit() {
                    i += 1;
                } else if numeric && (d == '+' || d == '-') && (cs[i - 1] == 'e' || cs[i - 1] == 'E') {
                    i += 1;
                } else {
                    break;
                }
            }
        } else {
            i += 1;
        }
        out.push(Tok { text: cs[start..i].iter().collect(), space });
        space = false;
    }
    out
}

pub fn join(toks: &[Tok]) -> String {
    let mut s = String::new();
    for (i, t) in toks.iter().enumerate() {
        if t.space && i > 0 {
            s.push(' ');
        }
        s.push_str(&t.text);
    }
    s
}

// ------------------------------------------------------------------------------------------------
// Mutations
// ------------------------------------------------------------------------------------------------

#[derive(Debug, Clone)]
pub enum Mut {
    InsTok(u16, u16, bool),
    DelTok(u16),
    DupTok(u16),
    SwapTok(u16, u16),
    RepTok(u16, u16),
    RepNum(u16, u16),
    Glue(u16),
    InsChar(u16, u16),
    DelChar(u16),
    Unterminated(u16, u8),
    Trunc(u16),
}

const OPENERS: &[&str] = &["'", "\"", "`", "/*", "//", "#", "\"\"\"", "'''", "<", "(", "[", "{", "\\", "$", "--"];

fn mut_strategy() -> impl Strategy<Value = Mut> {
    prop_oneof![
        4 => (any::<u16>(), any::<u16>(), any::<bool>()).prop_map(|(p, t, s)| Mut::InsTok(p, t, s)),
        3 => any::<u16>().prop_map(Mut::DelTok),
        2 => any::<u16>().prop_map(Mut::DupTok),
        2 => (any::<u16>(), any::<u16>()).prop_map(|(a, b)| Mut::SwapTok(a, b)),
        3 => (any::<u16>(), any::<u16>()).prop_map(|(p, t)| Mut::RepTok(p, t)),
        3 => (any::<u16>(), any::<u16>()).prop_map(|(p, t)| Mut::RepNum(p, t)),
        1 => any::<u16>().prop_map(Mut::Glue),
        3 => (any::<u16>(), any::<u16>()).prop_map(|(p, c)| Mut::InsChar(p, c)),
        1 => any::<u16>().prop_map(Mut::DelChar),
        2 => (any::<u16>(), any::<u8>()).prop_map(|(p, k)| Mut::Unterminated(p, k)),
        1 => any::<u16>().prop_map(Mut::Trunc),
    ]
}

fn char_insert(s: &str, pos: u16, ins: &str) -> String {
    let n = s.chars().count();
    let at = pick(pos, n + 1);
    let byte = s.char_indices().nth(at).map_or(s.len(), |(b, _)| b);
    let mut o = String::with_capacity(s.len() + ins.len());
    o.push_str(&s[..byte]);
    o.push_str(ins);
    o.push_str(&s[byte..]);
    o
}

pub fn apply(lang: &str, skeleton: &str, muts: &[Mut]) -> String {
    let dict = seeds::dictionary(lang);
    let mut toks = tokenize(skeleton);
    for m in muts {
        match *m {
            Mut::InsTok(p, t, space) => {
                let at = pick(p, toks.len() + 1);
                toks.insert(at, Tok { text: dict[pick(t, dict.len())].to_string(), space });
            }
            Mut::DelTok(p) if !toks.is_empty() => {
                toks.remove(pick(p, toks.len()));
            }
            Mut::DupTok(p) if !toks.is_empty() => {
                let at = pick(p, toks.len());
                let t = toks[at].clone();
                toks.insert(at, t);
            }
            Mut::SwapTok(a, b) if !toks.is_empty() => {
                let (a, b) = (pick(a, toks.len()), pick(b, toks.len()));
                toks.swap(a, b);
            }
            Mut::RepTok(p, t) if !toks.is_empty() => {
                let at = pick(p, toks.len());
                toks[at].text = dict[pick(t, dict.len())].to_string();
            }
            Mut::RepNum(p, t) => {
                let nums: Vec<usize> =
                    toks.iter().enumerate().filter(|(_, k)| k.text.starts_with(|c: char| c.is_ascii_digit())).map(|(i, _)| i).collect();
                if !nums.is_empty() {
                    let at = nums[pick(p, nums.len())];
                    toks[at].text = NUM_EXTREMES[pick(t, NUM_EXTREMES.len())].to_string();
                } else if !toks.is_empty() {
                    let at = pick(p, toks.len());
                    toks[at].text = NUM_EXTREMES[pick(t, NUM_EXTREMES.len())].to_string();
                }
            }
            Mut::Glue(p) if !toks.is_empty() => {
                let at = pick(p, toks.len());
                toks[at].space = !toks[at].space;
            }
            _ => {}
        }
    }
    let mut s = join(&toks);
    for m in muts {
        match *m {
            Mut::InsChar(p, c) => {
                let ch = ODD_CHARS[pick(c, ODD_CHARS.len())];
                s = char_insert(&s, p, &ch.to_string());
            }
            Mut::DelChar(p) if !s.is_empty() => {
                let n = s.chars().count();
                let at = pick(p, n);
                s = s.chars().enumerate().filter(|(i, _)| *i != at).map(|(_, c)| c).collect();
            }
            Mut::Unterminated(p, k) => {
                s = char_insert(&s, p, OPENERS[usize::from(k) % OPENERS.len()]);
            }
            Mut::Trunc(p) if !s.is_empty() => {
                let n = s.chars().count();
                let at = pick(p, n);
                s = s.chars().take(at).collect();
            }
            _ => {}
        }
    }
    s
}

// ------------------------------------------------------------------------------------------------
// Nesting templates
// ------------------------------------------------------------------------------------------------

/// (prefix, opener, core, closer, suffix): query = prefix + opener*d + core + closer*d + suffix
type NestT = (&'static str, &'static str, &'static str, &'static str, &'static str);

pub fn nest_templates(lang: &str) -> &'static [NestT] {
    match lang {
        "gql" => &[
            ("MATCH (n:Person) RETURN ", "(", "1", ")", ""),
            ("MATCH (n:Person) WHERE ", "(", "n.age > 1", ")", " RETURN n.name"),
            ("MATCH (n:Person) RETURN ", "[", "1", "]", ""),
            ("INSERT (n:P {a: ", "{a: ", "1", "}", "})"),
            ("MATCH (n:Person) WHERE ", "NOT ", "n.age > 1", "", " RETURN n.name"),
            ("MATCH (n:Person) RETURN ", "- ", "n.age", "", ""),
            ("MATCH (n:Person) RETURN ", "size(", "n.name", ")", ""),
            ("MATCH (n:Person) RETURN 1", " + 1", "", "", ""),
            ("MATCH (n:Person) WHERE n.age > 1", " AND n.age > 1", "", "", " RETURN n.name"),
            ("MATCH (n:Person) WHERE n.age > 1", " OR n.age > 1", "", "", " RETURN n.name"),
            ("MATCH (n:Person) RETURN ", "CASE WHEN true THEN ", "1", " END", ""),
            ("MATCH (n:Person) WHERE ", "EXISTS { MATCH (n)-[:KNOWS]->(m) WHERE ", "true", " }", " RETURN n.name"),
            ("MATCH (n:Person) RETURN n.name", ", n.name", "", "", ""),
            ("MATCH (n:Person) RETURN [1", ", 1", "", "", "]"),
            ("MATCH (n:Person)", ", (n)", "", "", " RETURN n.name"),
            ("MATCH (n:Person) ", "WITH n ", "", "", "RETURN n.name"),
            ("MATCH (n:Person) RETURN n.name ORDER BY n.age", ", n.age", "", "", ""),
            ("MATCH (n:Person) RETURN 'a'", " || 'a'", "", "", ""),
            ("MATCH (n", ":Person", "", "", ") RETURN n.name"),
        ],
        "cypher" => &[
            ("RETURN ", "(", "1", ")", ""),
            ("MATCH (n:Person) WHERE ", "(", "n.age > 1", ")", " RETURN n.name"),
            ("RETURN ", "[", "1", "]", ""),
            ("RETURN ", "{a: ", "1", "}", ""),
            ("MATCH (n:Person) WHERE ", "NOT ", "n.age > 1", "", " RETURN n.name"),
            ("RETURN ", "- ", "1", "", ""),
            ("MATCH (n:Person) RETURN ", "size(", "n.name", ")", ""),
            ("RETURN 1", " + 1", "", "", ""),
            ("RETURN 2", " ^ 2", "", "", ""),
            ("MATCH (n:Person) WHERE n.age > 1", " AND n.age > 1", "", "", " RETURN n.name"),
            ("MATCH (n:Person) WHERE n.age > 1", " XOR n.age > 1", "", "", " RETURN n.name"),
            ("RETURN ", "CASE WHEN true THEN ", "1", " END", ""),
            ("RETURN ", "[x IN ", "[1]", " | x]", ""),
            ("RETURN [1, 2, 3]", "[0..]", "", "", ""),
            ("MATCH (n:Person) RETURN n", ".a", "", "", ""),
            ("MATCH (n:Person) RETURN n.name", ", n.name", "", "", ""),
            ("RETURN [1", ", 1", "", "", "]"),
            ("MATCH (n:Person)", ", (n)", "", "", " RETURN n.name"),
            ("MATCH (n:Person) ", "WITH n ", "", "", "RETURN n.name"),
            ("MATCH (n", ":Person", "", "", ") RETURN n.name"),
            ("MATCH p = ", "shortestPath(", "(a)-[:KNOWS*]-(b)", ")", " RETURN p"),
            ("UNWIND [1] AS x ", "UNWIND [1] AS x ", "", "", "RETURN x"),
        ],
        "gremlin" => &[
            ("g.V().", "where(", "out()", ")", ""),
            ("g.V().", "and(", "has('age', 30)", ")", ""),
            ("g.V().", "not(", "out('KNOWS')", ")", ""),
            ("g.V().", "union(", "out()", ")", ""),
            ("g.V().", "coalesce(", "out()", ")", ""),
            ("g.V().", "optional(", "out()", ")", ""),
            ("g.V().", "filter(__.", "out()", ")", ""),
            ("g.V(", "[", "1", "]", ")"),
            ("g.V(", "(", "1", ")", ")"),
            ("g.V()", ".hasLabel('Person')", "", "", ""),
            ("g.V()", ".has('age', gt(1))", "", "", ".count()"),
            ("g.V()", ".as('a')", "", "", ".select('a')"),
            ("g.V()", ".dedup()", "", "", ""),
            ("g.V()", ".fold().unfold()", "", "", ""),
            ("g.V()", ".order().by('age')", "", "", ""),
            ("g.V().has('age', within(1", ", 1", "", "", "))"),
            ("g.V().values('name'", ", 'name'", "", "", ")"),
            ("g.V().has('age', ", "P.", "gt(1)", "", ")"),
            ("g.V().project('a'", ", 'a'", "", "", ").by('name')"),
            ("g.V().property('a', 1)", ".property('a', 1)", "", "", ""),
            ("g", ".V()", "", "", ""),
        ],
        "graphql" => &[
            ("{ person ", "{ knows ", "{ name }", " }", " }"),
            ("{ person(a: ", "[", "1", "]", ") { name } }"),
            ("{ person(where: ", "{ a: ", "1", " }", ") { name } }"),
            ("query Q($a: ", "[", "Int", "]", ") { person { name } }"),
            ("query Q($a: Int", "!", "", "", ") { person { name } }"),
            ("{ person { name", " name", "", "", " } }"),
            ("{ person", " person", "", "", " { name } }"),
            ("{ person { name } ", "person { name } ", "", "", "}"),
            ("{ person(a: 1", ", a: 1", "", "", ") { name } }"),
            ("{ person(where: { age_gt: 1", ", age_gt: 1", "", "", " }) { name } }"),
            ("{ person { name ", "@include(if: true) ", "", "", "} }"),
            ("{ person ", "{ ... on Person ", "{ name }", " }", " }"),
            ("{ ", "a: ", "person", "", " { name } }"),
            ("", "{", "", "}", ""),
            ("{ person { name } } ", "fragment f on Person { ...f } ", "", "", ""),
            ("query Q(", "$a: Int ", "", "", ") { person { name } }"),
        ],
        "sparql" => &[
            ("SELECT * WHERE ", "{ ", "?s ?p ?o", " }", ""),
            ("SELECT ?s WHERE { ?s ?p ?o FILTER", "(", "?o > 1", ")", " }"),
            ("PREFIX ex: <http://example.org/> SELECT ?s WHERE { ?s ", "(", "ex:p", ")", " ?o }"),
            ("PREFIX ex: <http://example.org/> SELECT ?s WHERE { ?s ex:p", "/ex:p", "", "", " ?o }"),
            ("PREFIX ex: <http://example.org/> SELECT ?s WHERE { ?s ex:p", "|ex:p", "", "", " ?o }"),
            ("PREFIX ex: <http://example.org/> SELECT ?s WHERE { ?s ", "^", "ex:p", "", " ?o }"),
            ("PREFIX ex: <http://example.org/> SELECT ?s WHERE { ?s ", "(", "ex:p", ")+", " ?o }"),
            ("PREFIX ex: <http://example.org/> SELECT ?s WHERE { ?s ", "!(", "ex:p", ")", " ?o }"),
            ("SELECT ?s WHERE { ?s ?p ?o FILTER(", "!", "?o", "", ") }"),
            ("SELECT ?s WHERE { ?s ?p ?o FILTER(", "-", "?o", "", " > 1) }"),
            ("SELECT ?s WHERE { ?s ?p ?o ", "OPTIONAL { ?s ?p ?o ", "", " }", " }"),
            ("SELECT * WHERE ", "{ SELECT * WHERE ", "{ ?s ?p ?o }", " }", ""),
            ("SELECT ?s WHERE { ?s ?p ", "(", "1", ")", " }"),
            ("SELECT ?s WHERE { ?s ?p ", "[ ?p ", "1", " ]", " }"),
            ("SELECT ?s WHERE { ?s ?p ?o FILTER(?o > 1", " + 1", "", "", ") }"),
            ("SELECT ?s WHERE { ?s ?p ?o FILTER(?o > 1", " && ?o > 1", "", "", ") }"),
            ("SELECT ?s WHERE { ?s ?p ?o FILTER(?o > 1", " || ?o > 1", "", "", ") }"),
            ("SELECT ?s WHERE { { ?s ?p ?o }", " UNION { ?s ?p ?o }", "", "", " }"),
            ("SELECT ?s WHERE { ?s ?p ?o", " . ?s ?p ?o", "", "", " }"),
            ("SELECT ?s WHERE { ?s ?p ?o", " ; ?p ?o", "", "", " }"),
            ("SELECT ?s WHERE { ?s ?p ?o", " , ?o", "", "", " }"),
            ("SELECT ?s WHERE { ?s ?p ?o FILTER(", "STR(", "?o", ")", " = \"a\") }"),
            ("SELECT ?s WHERE { ?s ?p ?o FILTER(?o IN (1", ", 1", "", "", ")) }"),
            ("SELECT ?s", " ?s", "", "", " WHERE { ?s ?p ?o }"),
            ("SELECT ?s WHERE { ?s ?p ?o ", "MINUS { ?s ?p ?o ", "", " }", " }"),
            ("SELECT ?s WHERE { ?s ?p ?o ", "GRAPH ?g { ?s ?p ?o ", "", " }", " }"),
            ("SELECT ?s WHERE { ?s ?p ?o ", "FILTER NOT EXISTS { ?s ?p ?o ", "", " }", " }"),
            ("INSERT DATA { <http://e/s> <http://e/p> 1", " . <http://e/s> <http://e/p> 1", "", "", " }"),
            ("SELECT ?s WHERE { VALUES ?s { 1", " 1", "", "", " } }"),
            ("", "PREFIX ex: <http://example.org/> ", "", "", "SELECT * WHERE { ?s ?p ?o }"),
        ],
        _ => &[],
    }
}

pub fn render_nest(lang: &str, kind: usize, depth: usize, broken: u8) -> String {
    let ts = nest_templates(lang);
    let (pre, open, core, close, suf) = ts[kind % ts.len()];
    // comma-separated patterns / several root fields are cross products: 7^depth rows by definition, not a defect
    let depth = if matches!(open, ", (n)" | "person { name } " | " person") { depth.min(4) } else { depth };
    // clause chains whose planning cost grows polynomially (seconds at 2000 clauses) are kept well below the hang criterion
    let depth = if matches!(open, "UNWIND [1] AS x " | "WITH n ") { depth.min(300) } else { depth };
    let mut s = String::with_capacity(pre.len() + suf.len() + core.len() + depth * (open.len() + close.len()));
    s.push_str(pre);
    for _ in 0..depth {
        s.push_str(open);
    }
    s.push_str(core);
    let closers = match broken {
        1 => 0,
        2 => depth.saturating_sub(1),
        _ => depth,
    };
    for _ in 0..closers {
        s.push_str(close);
    }
    if broken != 1 {
        s.push_str(suf);
    }
    s
}

// ------------------------------------------------------------------------------------------------
// Arithmetic / limits templates
// ------------------------------------------------------------------------------------------------

pub fn arith_templates(lang: &str) -> &'static [&'static str] {
    match lang {
        "gql" => &[
            "MATCH (n:Person) RETURN {a} {op} {b}",
            "MATCH (n:Person) WHERE {a} {op} {b} > 0 RETURN n.name",
            "MATCH (n:Person) WHERE n.age {op} {b} = {a} RETURN n.name",
            "MATCH (n:Person) RETURN n.big {op} {b}, n.neg {op} {a}, -n.neg",
            "MATCH (n:Person) RETURN -({a}) {op} n.neg",
            "MATCH (n:Person) RETURN sum(n.big), avg(n.big), sum(n.neg), sum({a}), avg({b})",
            "MATCH (n:Person) RETURN n.name ORDER BY n.age SKIP {a} LIMIT {b}",
            "MATCH (n:Person) WITH n.age {op} {b} AS v WHERE v {op} {a} > 1 RETURN v",
            "UNWIND [{a}, {b}] AS x RETURN x {op} x",
            "MATCH (n:Person) SET n.age = {a} {op} {b} RETURN n.age",
            "MATCH (n:Person) RETURN toInteger({a}), toString({b}), size({a}), head({a}), tail({b}), -{a}",
            "MATCH (n:Person) RETURN CASE WHEN {a} {op} {b} > 0 THEN {a} ELSE {b} END",
            "MATCH (n:Person) WHERE n.age IN [{a}, {b}] OR {a} IS NULL RETURN n.name",
        ],
        "cypher" => &[
            "RETURN {a} {op} {b}",
            "MATCH (n:Person) RETURN {a} {op} {b}",
            "MATCH (n:Person) WHERE {a} {op} {b} > 0 RETURN n.name",
            "MATCH (n:Person) WHERE n.age {op} {b} = {a} RETURN n.name",
            "MATCH (n:Person) RETURN n.big {op} {b}, n.neg {op} {a}, -n.neg",
            "MATCH (n:Person) RETURN sum(n.big), avg(n.big), sum(n.neg), sum({a}), avg({b})",
            "MATCH (n:Person) RETURN n.name ORDER BY n.age SKIP {a} LIMIT {b}",
            "MATCH (n:Person) WITH n.age {op} {b} AS v WHERE v {op} {a} > 1 RETURN v",
            "UNWIND [{a}, {b}] AS x RETURN x {op} x",
            "UNWIND range({a}, {b}) AS x RETURN x",
            "RETURN range({a}, {b}, {a})",
            "RETURN [1, 2, 3][{a}], [1, 2, 3][{a}..{b}], 'abc'[{a}]",
            "MATCH (n:Person) SET n.age = {a} {op} {b} RETURN n.age",
            "RETURN toInteger({a}), toFloat({b}), toString({a}), size({a}), head({a}), -{a}",
            "RETURN CASE WHEN {a} {op} {b} > 0 THEN {a} ELSE {b} END",
            "MATCH (a)-[:KNOWS*{a}..{b}]->(b) RETURN count(*)",
        ],
        "gremlin" => &[
            "g.V().range({a}, {b})",
            "g.V().limit({a})",
            "g.V().skip({a}).limit({b})",
            "g.V().has('age', gt({a}))",
            "g.V().has('age', between({a}, {b}))",
            "g.V().has('age', inside({a}, {b})).has('big', outside({b}, {a}))",
            "g.V().has('age', within({a}, {b}))",
            "g.V().has('big', {a}).has('neg', {b})",
            "g.V().values('big').sum()",
            "g.V().values('neg').sum()",
            "g.V().values('big').avg()",
            "g.V().values('big', 'neg', 'age', 'score', 'name').max()",
            "g.V().values('big', 'neg', 'age', 'score', 'name').sum()",
            "g.V({a}, {b})",
            "g.V().hasId({a})",
            "g.V().constant({a}).sum()",
            "g.V().property('age', {a}).values('age').sum()",
            "g.V().order().by('big').range({a}, {b}).count()",
        ],
        "graphql" => &[
            "{ person(first: {a}, skip: {b}) { name } }",
            "{ person(limit: {a}, offset: {b}) { name } }",
            "{ person(first: {a}) { name knows(first: {b}) { name } } }",
            "{ person(age: {a}) { name } }",
            "{ person(where: { age_gt: {a}, big_lt: {b} }) { name } }",
            "{ person(where: { age_in: [{a}, {b}] }) { name } }",
            "{ person(id: {a}) { name } }",
            "mutation { createPerson(name: \"Z\", age: {a}, big: {b}) { name age } }",
            "mutation { updatePerson(id: {a}, age: {b}) { name } }",
            "mutation { deletePerson(id: {a}) }",
            "query Q($x: Int = {a}) { person(first: $x) { name } }",
        ],
        "sparql" => &[
            "SELECT ?s WHERE { ?s ?p ?o FILTER(?o {op} {b} > {a}) }",
            "SELECT ?s WHERE { ?s ?p ?o FILTER({a} {op} {b} = ?o) }",
            "SELECT ?s ?r WHERE { ?s ?p ?o BIND({a} {op} {b} AS ?r) }",
            "SELECT ?s ?r WHERE { ?s ?p ?o BIND(?o {op} {a} AS ?r) }",
            "SELECT ({a} {op} {b} AS ?r) WHERE { ?s ?p ?o }",
            "SELECT (SUM(?o) AS ?t) (AVG(?o) AS ?m) (MIN(?o) AS ?lo) (MAX(?o) AS ?hi) WHERE { ?s ?p ?o }",
            "SELECT (SUM({a}) AS ?t) (AVG({b}) AS ?m) WHERE { ?s ?p ?o }",
            "SELECT ?s WHERE { ?s ?p ?o } LIMIT {a} OFFSET {b}",
            "SELECT ?s WHERE { ?s ?p ?o } ORDER BY (?o {op} {a}) LIMIT 3",
            "SELECT (ABS({a}) AS ?x) (CEIL({b}) AS ?y) (FLOOR({a}) AS ?z) (ROUND({b}) AS ?w) (-{a} AS ?n) WHERE { ?s ?p ?o }",
            "SELECT (SUBSTR(\"abc\", {a}, {b}) AS ?x) (STRLEN({a}) AS ?y) WHERE { ?s ?p ?o }",
            "SELECT ?s WHERE { ?s ?p ?o FILTER(?o IN ({a}, {b})) }",
            "SELECT (IF({a} {op} {b} > 0, {a}, {b}) AS ?r) WHERE { ?s ?p ?o }",
            "INSERT DATA { <http://example.org/s> <http://example.org/p> {a} , {b} }",
        ],
        _ => &[],
    }
}

pub fn arith_values(lang: &str) -> &'static [&'static str] {
    match lang {
        "gql" | "cypher" => &[
            "0", "1", "-1", "2", "9223372036854775807", "-9223372036854775807", "-9223372036854775808", "(-9223372036854775807 - 1)",
            "9223372036854775808", "0.0", "-0.0", "1.5", "1e308", "1.0e999", "n.big", "n.neg", "n.age", "n.score", "n.nick", "n.name", "null",
            "'s'", "true", "[1, 2]", "4294967296", "(0.0 / 0.0)", "(1.0 / 0.0)",
        ],
        "gremlin" => &[
            "0", "1", "-1", "2", "3", "9223372036854775807", "-9223372036854775807", "-9223372036854775808", "9223372036854775808",
            "18446744073709551615", "0.0", "-0.0", "1.5", "1e308", "1e999", "'s'", "true", "4294967296", "-4294967296",
        ],
        "graphql" => &[
            "0", "1", "-1", "2", "9223372036854775807", "-9223372036854775807", "-9223372036854775808", "9223372036854775808",
            "18446744073709551615", "0.0", "-0.0", "1.5", "1e308", "1e999", "\"s\"", "true", "null", "4294967296", "-4294967296", "[1]", "{ a: 1 }", "$x",
        ],
        "sparql" => &[
            "0", "1", "-1", "2", "9223372036854775807", "-9223372036854775807", "-9223372036854775808", "9223372036854775808", "0.0",
            "-0.0", "1.5", "1e308", "1e999", "?o", "?u", "\"s\"", "true", "\"9223372036854775807\"^^<http://www.w3.org/2001/XMLSchema#integer>",
            "\"x\"^^<http://www.w3.org/2001/XMLSchema#integer>", "\"1e999\"^^<http://www.w3.org/2001/XMLSchema#double>", "4294967296",
            "\"NaN\"^^<http://www.w3.org/2001/XMLSchema#double>",
        ],
        _ => &[],
    }
}

pub const ARITH_OPS: &[&str] = &["+", "-", "*", "/", "%", "^"];

pub fn render_arith(lang: &str, tmpl: usize, a: usize, op: usize, b: usize) -> String {
    let ts = arith_templates(lang);
    let vs = arith_values(lang);
    let ops: &[&str] = if lang == "sparql" { &ARITH_OPS[..4] } else { ARITH_OPS };
    ts[tmpl % ts.len()].replace("{a}", vs[a % vs.len()]).replace("{b}", vs[b % vs.len()]).replace("{op}", ops[op % ops.len()])
}

// ------------------------------------------------------------------------------------------------
// Parameter values
// ------------------------------------------------------------------------------------------------

pub fn pval_leaf() -> impl Strategy<Value = PVal> {
    prop_oneof![
        2 => Just(PVal::Null),
        2 => any::<bool>().prop_map(PVal::Bool),
        4 => prop_oneof![Just(0i64), Just(1), Just(-1), Just(i64::MAX), Just(i64::MIN), Just(i64::MIN + 1), Just(1 << 53), Just(u32::MAX as i64 + 1), -100i64..100, any::<i64>()]
            .prop_map(PVal::Int),
        4 => prop_oneof![
            Just(f64::NAN), Just(-f64::NAN), Just(f64::INFINITY), Just(f64::NEG_INFINITY), Just(0.0f64), Just(-0.0f64), Just(f64::MAX), Just(f64::MIN),
            Just(f64::MIN_POSITIVE), Just(5e-324f64), Just(1.5f64), Just(9.3e18f64), Just(-9.3e18f64), any::<f64>()
        ]
        .prop_map(|f| PVal::F64Bits(f.to_bits())),
        4 => prop_oneof![
            Just(String::new()), Just("Alice".to_string()), Just("Zo\u{eb} \u{1f600}".to_string()), Just("'; DROP".to_string()), Just("\0\n\r\t\\\"'`".to_string()),
            Just("$name".to_string()), Just("a".repeat(5000)), Just("\u{301}\u{202e}\u{feff}".to_string()), Just(".*(a+)+$".to_string()), "\\PC{0,12}"
        ]
        .prop_map(PVal::Str),
        2 => proptest::collection::vec(any::<u8>(), 0..12).prop_map(PVal::Bytes),
        2 => proptest::collection::vec(
            prop_oneof![Just(f32::NAN), Just(f32::INFINITY), Just(0.0f32), Just(-0.0f32), Just(f32::MAX), Just(1.0f32), any::<f32>()],
            0..6
        )
        .prop_map(|v| PVal::VecF32Bits(v.into_iter().map(f32::to_bits).collect())),
    ]
}

pub fn pval() -> impl Strategy<Value = PVal> {
    pval_leaf().prop_recursive(3, 24, 5, |inner| {
        prop_oneof![
            proptest::collection::vec(inner.clone(), 0..5).prop_map(PVal::List),
            proptest::collection::vec((prop_oneof![Just("a".to_string()), Just("name".to_string()), Just(String::new()), Just("k \u{e9}".to_string())], inner), 0..4)
                .prop_map(PVal::Map),
        ]
    })
}

/// `$name` placeholders that occur in a query text.
pub fn param_names(q: &str) -> Vec<String> {
    let cs: Vec<char> = q.chars().collect();
    let mut out: Vec<String> = Vec::new();
    let mut i = 0;
    while i < cs.len() {
        if cs[i] == '$' {
            let mut j = i + 1;
            while j < cs.len() && (cs[j].is_alphanumeric() || cs[j] == '_') {
                j += 1;
            }
            if j > i + 1 {
                let n: String = cs[i + 1..j].iter().collect();
                if !out.contains(&n) {
                    out.push(n);
                }
            }
            i = j;
        } else {
            i += 1;
        }
    }
    out
}

/// Binds generated values to the placeholders of `q` (a `None` value leaves the placeholder unbound).
fn bind(q: &str, vals: &[Option<PVal>], extra: Option<(String, PVal)>) -> Vec<(String, PVal)> {
    let mut out = Vec::new();
    for (i, n) in param_names(q).into_iter().enumerate() {
        if let Some(Some(v)) = vals.get(i % vals.len().max(1)) {
            out.push((n, v.clone()));
        }
    }
    if let Some(e) = extra {
        out.push(e);
    }
    out
}

// ------------------------------------------------------------------------------------------------
// Recipes
// ------------------------------------------------------------------------------------------------

#[derive(Debug, Clone)]
pub enum Recipe {
    Mutate { skel: u16, muts: Vec<Mut> },
    Splice { a: u16, b: u16, cut_a: u16, cut_b: u16, muts: Vec<Mut> },
    Soup { toks: Vec<(u16, bool)> },
    Nest { kind: u16, depth: u16, broken: u8, muts: Vec<Mut> },
    Arith { tmpl: u16, a: u16, op: u16, b: u16, muts: Vec<Mut> },
}

fn depth_strategy(max_deep: u16) -> impl Strategy<Value = u16> {
    prop_oneof![
        4 => 1u16..9,
        4 => 9u16..65,
        2 => 65u16..300,
        1 => Just(max_deep / 2),
        1 => Just(max_deep),
    ]
}

pub fn recipe_strategy() -> impl Strategy<Value = Recipe> {
    let muts = |lo: usize, hi: usize| proptest::collection::vec(mut_strategy(), lo..hi);
    prop_oneof![
        50 => (any::<u16>(), muts(1, 4)).prop_map(|(skel, muts)| Recipe::Mutate { skel, muts }),
        8 => (any::<u16>(), any::<u16>(), any::<u16>(), any::<u16>(), muts(0, 3))
            .prop_map(|(a, b, cut_a, cut_b, muts)| Recipe::Splice { a, b, cut_a, cut_b, muts }),
        10 => proptest::collection::vec((any::<u16>(), any::<bool>()), 1..30).prop_map(|toks| Recipe::Soup { toks }),
        6 => (any::<u16>(), depth_strategy(2000), prop_oneof![4 => Just(0u8), 1 => Just(1u8), 1 => Just(2u8)], muts(0, 2))
            .prop_map(|(kind, depth, broken, muts)| Recipe::Nest { kind, depth, broken, muts }),
        14 => (any::<u16>(), any::<u16>(), any::<u16>(), any::<u16>(), muts(0, 2))
            .prop_map(|(tmpl, a, op, b, muts)| Recipe::Arith { tmpl, a, op, b, muts }),
    ]
}

pub fn render(lang: &str, r: &Recipe) -> (String, &'static str) {
    let sk = seeds::skeletons(lang);
    match r {
        Recipe::Mutate { skel, muts } => (apply(lang, sk[pick(*skel, sk.len())], muts), "mutate"),
        Recipe::Splice { a, b, cut_a, cut_b, muts } => {
            let ta = tokenize(sk[pick(*a, sk.len())]);
            let tb = tokenize(sk[pick(*b, sk.len())]);
            let mut t: Vec<Tok> = ta[..pick(*cut_a, ta.len() + 1)].to_vec();
            t.extend_from_slice(&tb[pick(*cut_b, tb.len() + 1)..]);
            (apply(lang, &join(&t), muts), "splice")
        }
        Recipe::Soup { toks } => {
            let d = seeds::dictionary(lang);
            let t: Vec<Tok> = toks.iter().map(|(i, sp)| Tok { text: d[pick(*i, d.len())].to_string(), space: *sp }).collect();
            (join(&t), "soup")
        }
        Recipe::Nest { kind, depth, broken, muts } => {
            let n = nest_templates(lang).len();
            let s = render_nest(lang, pick(*kind, n), usize::from(*depth), *broken);
            // token mutation of a 2000-deep string is pointless and slow to tokenise; only mutate shallow ones
            if *depth <= 64 { (apply(lang, &s, muts), "nest") } else { (s, "nest-deep") }
        }
        Recipe::Arith { tmpl, a, op, b, muts } => {
            let s = render_arith(
                lang,
                pick(*tmpl, arith_templates(lang).len()),
                pick(*a, arith_values(lang).len()),
                pick(*op, ARITH_OPS.len()),
                pick(*b, arith_values(lang).len()),
            );
            (apply(lang, &s, muts), "arith")
        }
    }
}

/// Per-language case strategy for the generated sub-checks.
pub fn case_strategy(lang: &'static str) -> impl Strategy<Value = ExecCase> {
    let pmode = prop_oneof![16 => Just(0u8), 2 => Just(1u8), 3 => Just(2u8)];
    (recipe_strategy(), pmode, proptest::collection::vec(proptest::option::weighted(0.9, pval()), 1..4)).prop_map(move |(rec, pmode, vals)| {
        let (query, origin) = render(lang, &rec);
        let params = match pmode {
            0 => None,
            1 => Some(Vec::new()),
            _ => Some(bind(&query, &vals, None)),
        };
        ExecCase { lang: lang.to_string(), query, params, origin: origin.to_string() }
    })
}

/// Parameter-focused strategy: `$param` skeletons (lightly mutated), every value type bound to every placeholder.
pub fn params_strategy() -> impl Strategy<Value = ExecCase> {
    (
        0usize..4,
        any::<u16>(),
        proptest::collection::vec(mut_strategy(), 0..2),
        proptest::collection::vec(proptest::option::weighted(0.92, pval()), 1..4),
        proptest::option::weighted(0.2, (prop_oneof![Just("unused".to_string()), Just(String::new()), Just("n".to_string())], pval())),
        any::<u16>(),
    )
        .prop_map(|(li, skel, muts, vals, extra, spot)| {
            let lang = ["gql", "cypher", "gremlin", "graphql"][li];
            let ps = seeds::param_skeletons(lang);
            let base: String = if ps.is_empty() || skel % 3 == 0 {
                // put a placeholder where a literal stands in an ordinary skeleton
                let sk = seeds::skeletons(lang);
                let mut toks = tokenize(sk[pick(skel, sk.len())]);
                let lits: Vec<usize> = toks
                    .iter()
                    .enumerate()
                    .filter(|(_, t)| t.text.starts_with(|c: char| c.is_ascii_digit() || c == '\'' || c == '"'))
                    .map(|(i, _)| i)
                    .collect();
                if lits.is_empty() {
                    let at = pick(spot, toks.len() + 1);
                    toks.insert(at, Tok { text: "$p".into(), space: true });
                } else {
                    let at = lits[pick(spot, lits.len())];
                    toks[at].text = "$p".into();
                }
                join(&toks)
            } else {
                ps[pick(skel, ps.len())].to_string()
            };
            let query = apply(lang, &base, &muts);
            let params = Some(bind(&query, &vals, extra));
            ExecCase { lang: lang.to_string(), query, params, origin: "params".to_string() }
        })
}
