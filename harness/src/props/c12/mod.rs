//! C12 — no query text (and no parameter map) can crash or hang the embedding process.
//!
//! Five front ends (GQL, Cypher, Gremlin, GraphQL, SPARQL). Every string is executed inside a child
//! worker process (`vcheck --worker c12`, RLIMIT_AS 4 GiB, 8 MiB handler stack) against a fresh empty
//! database and a fresh small fixed one. Oracle: the worker answers and reports no panic.
//!
//! * panic: comes back with its `panic@file:message` signature (and the stage it happened in);
//! * dead worker (abort, stack overflow, OOM): re-run in a fresh worker; if it dies again it is classified as
//!   stack overflow (survives with a 1 GiB stack) or abort/OOM and localised to the first stage cap
//!   (lex / parse / translate / exec-empty / exec-small) at which a fresh worker dies;
//! * hang: no answer within 20 s, then re-run once in a fresh worker that watches itself: 20 CPU-seconds
//!   spent on the request (or 30 s without any runnable thread) without an answer is a hang. Wall-clock
//!   alone never decides (the 3x wall deadline of the design is replaced by a CPU-time criterion that is
//!   equivalent on an idle machine and immune to machine load); no verdict within 900 s wall is INCONCLUSIVE.
//!
//! The reply of a passing case says how far the input got (lexerr / parseerr / translerr / execerr-<kind> /
//! ok / ok-rows): that is the class histogram and the non-trivial rule ("got past lexing").
//!
//! Sub-checks: `exec` (every skeleton as it is; also the sub-check libFuzzer artifacts are replayed in),
//! `truncate` (every char-boundary prefix of every skeleton, exhaustive), `nesting` (every bracket / operator /
//! clause nesting template at several depths up to 2000), `arith` (arithmetic / SKIP / LIMIT / range templates over
//! extreme operands), `gql` `cypher` `gremlin` `graphql` `sparql` (generated: mutation, splice, soup, nesting,
//! arithmetic), `params` (parameter maps over every Value type).

pub mod strat;
pub mod seeds;

use std::collections::{BTreeMap, HashMap};
use std::sync::mpsc::{Receiver, Sender, channel};
use std::sync::{Arc, Mutex, OnceLock};
use std::time::Duration;

use serde::{Deserialize, Serialize};

use grafeo_common::types::{PropertyKey, Value};
use grafeo_common::utils::error::{Error, QueryErrorKind};
use grafeo_core::graph::rdf::{Term, Triple};
use grafeo_engine::GrafeoDB;

use crate::driver::{CaseResult, Run, catch, fail, hash_of, ok, truncate};
use crate::worker::{Reply, WorkerPool, esc, unesc};

const MEM_LIMIT: u64 = 4 << 30;
const DEADLINE: Duration = Duration::from_secs(20);
/// a re-run in a fresh worker counts as a hang after this much CPU time spent on the request ...
const HANG_CPU_S: u64 = 120;
/// ... or after this long without any runnable thread (deadlock / sleep)
const HANG_IDLE_S: u64 = 30;
/// wall-clock cap of the re-run; reaching it (machine too loaded to burn 20 CPU-seconds) is inconclusive
const CONFIRM_WALL: Duration = Duration::from_secs(900);
const STACK_BYTES: usize = 8 << 20;
const BIG_STACK_BYTES: usize = 1 << 30;

/// Serialisable mirror of `grafeo_common::types::Value` (floats as bit patterns: JSON has no NaN/inf).
#[derive(Debug, Clone, PartialEq, Serialize, Deserialize)]
pub enum PVal {
    Null,
    Bool(bool),
    Int(i64),
    F64Bits(u64),
    Str(String),
    Bytes(Vec<u8>),
    List(Vec<PVal>),
    Map(Vec<(String, PVal)>),
    VecF32Bits(Vec<u32>),
}

impl PVal {
    pub fn to_value(&self) -> Value {
        match self {
            PVal::Null => Value::Null,
            PVal::Bool(b) => Value::Bool(*b),
            PVal::Int(i) => Value::Int64(*i),
            PVal::F64Bits(b) => Value::Float64(f64::from_bits(*b)),
            PVal::Str(s) => Value::from(s.as_str()),
            PVal::Bytes(b) => Value::from(b.clone()),
            PVal::List(l) => Value::List(l.iter().map(PVal::to_value).collect::<Vec<_>>().into()),
            PVal::Map(m) => {
                let mut bm: BTreeMap<PropertyKey, Value> = BTreeMap::new();
                for (k, v) in m {
                    bm.insert(PropertyKey::from(k.as_str()), v.to_value());
                }
                Value::Map(Arc::new(bm))
            }
            PVal::VecF32Bits(v) => Value::Vector(v.iter().map(|b| f32::from_bits(*b)).collect::<Vec<f32>>().into()),
        }
    }
}

/// One input: a front end, a query text and (optionally) a parameter map. `origin` is only a label
/// for the class histogram.
#[derive(Debug, Clone, Serialize, Deserialize)]
pub struct ExecCase {
    pub lang: String,
    pub query: String,
    #[serde(default)]
    pub params: Option<Vec<(String, PVal)>>,
    #[serde(default)]
    pub origin: String,
}

#[derive(Debug, Clone, Serialize, Deserialize)]
struct Request {
    case: ExecCase,
    /// run stages up to and including: lex | parse | translate | empty | small
    upto: String,
    big_stack: bool,
    /// the worker itself decides "hang": 20 s of CPU consumed by this request, or 30 s with no runnable thread
    #[serde(default)]
    watch: bool,
}

// ------------------------------------------------------------------------------------------------
// Worker side
// ------------------------------------------------------------------------------------------------

const STAGES: [&str; 5] = ["lex", "parse", "translate", "empty", "small"];

fn stage_index(s: &str) -> usize {
    STAGES.iter().position(|x| *x == s).unwrap_or(4)
}

/// Builds the database a query runs against. `small`: a few labelled nodes with int / float / string / null
/// properties (and the i64 extremes), a few typed edges with properties, a few RDF triples.
pub fn build_db(small: bool) -> GrafeoDB {
    let db = GrafeoDB::new_in_memory();
    if !small {
        return db;
    }
    let person = |name: &str, age: i64, score: f64, city: &str, big: i64| -> Vec<(&'static str, Value)> {
        vec![
            ("name", Value::from(name)),
            ("age", Value::Int64(age)),
            ("score", Value::Float64(score)),
            ("nick", Value::Null),
            ("city", Value::from(city)),
            ("big", Value::Int64(big)),
            ("neg", Value::Int64(i64::MIN)),
            ("active", Value::Bool(age > 26)),
        ]
    };
    let a = db.create_node_with_props(&["Person"], person("Alice", 30, 1.5, "Paris", i64::MAX));
    let b = db.create_node_with_props(&["Person"], person("Bob", 25, -0.0, "Berlin", i64::MAX));
    let c = db.create_node_with_props(&["Person", "Employee"], person("Zo\u{eb} \u{1f600}", 41, f64::MAX, "Paris", 1));
    let d = db.create_node_with_props(
        &["Person"],
        vec![("name", Value::from("Dan")), ("age", Value::from("n/a")), ("score", Value::Float64(f64::NAN)), ("embedding", Value::Vector(vec![0.0f32, 1.0, 0.5].into()))],
    );
    let co = db.create_node_with_props(&["Company"], vec![("name", Value::from("Acme")), ("founded", Value::Int64(1999))]);
    let ci = db.create_node_with_props(&["City"], vec![("name", Value::from("Paris")), ("tags", Value::List(vec![Value::from("a"), Value::Int64(1)].into()))]);
    let _lonely = db.create_node(&[]);
    // KNOWS forms a 3-cycle with out-degree 1 (walk counts stay linear in the hop bound); the other types lead to sinks
    db.create_edge_with_props(a, b, "KNOWS", vec![("since", Value::Int64(2020)), ("weight", Value::Float64(0.5))]);
    db.create_edge_with_props(b, c, "KNOWS", vec![("since", Value::Int64(i64::MAX)), ("weight", Value::Float64(-1.0))]);
    db.create_edge_with_props(c, a, "KNOWS", vec![("since", Value::Null), ("weight", Value::Float64(f64::INFINITY))]);
    db.create_edge_with_props(a, co, "WORKS_AT", vec![("role", Value::from("dev"))]);
    db.create_edge_with_props(d, co, "WORKS_AT", vec![("role", Value::from("ops"))]);
    db.create_edge(a, ci, "LIVES_IN");
    db.create_edge(d, d, "KNOWS");

    let rdf = db.rdf_store();
    let ex = |s: &str| Term::iri(format!("http://example.org/{s}"));
    let foaf = |s: &str| Term::iri(format!("http://xmlns.com/foaf/0.1/{s}"));
    let xsd = |s: &str| format!("http://www.w3.org/2001/XMLSchema#{s}");
    let rdf_type = Term::iri("http://www.w3.org/1999/02/22-rdf-syntax-ns#type");
    for (s, p, o) in [
        (ex("alice"), rdf_type.clone(), foaf("Person")),
        (ex("alice"), foaf("name"), Term::literal("Alice")),
        (ex("alice"), foaf("age"), Term::typed_literal("30", xsd("integer"))),
        (ex("alice"), foaf("knows"), ex("bob")),
        (ex("bob"), foaf("name"), Term::lang_literal("Bob", "en")),
        (ex("bob"), foaf("age"), Term::typed_literal("9223372036854775807", xsd("integer"))),
        (ex("bob"), foaf("knows"), ex("carol")),
        (ex("carol"), foaf("knows"), ex("alice")),
        (ex("carol"), foaf("age"), Term::typed_literal("-9223372036854775808", xsd("integer"))),
        (ex("carol"), foaf("name"), Term::literal("Zo\u{eb} \u{1f600}")),
        (ex("carol"), ex("score"), Term::typed_literal("1.5e308", xsd("double"))),
        (ex("carol"), ex("bad"), Term::typed_literal("abc", xsd("integer"))),
        (Term::blank("b0"), foaf("name"), Term::literal("Nobody")),
    ] {
        rdf.insert(Triple::new(s, p, o));
    }
    db
}

/// true if the language's own lexer accepts every character (no error token).
fn lex_clean(lang: &str, q: &str) -> bool {
    use grafeo_adapters::query::{cypher, gql, graphql, gremlin, sparql};
    // bound: every token of these lexers consumes at least one byte; a lexer that stops making
    // progress would spin here and is caught by the worker deadline
    match lang {
        "gql" => {
            let mut lx = gql::Lexer::new(q);
            loop {
                let k = format!("{:?}", lx.next_token().kind);
                if k == "Eof" {
                    return true;
                }
                if k == "Error" {
                    return false;
                }
            }
        }
        "cypher" => {
            let mut lx = cypher::Lexer::new(q);
            loop {
                let k = format!("{:?}", lx.next_token().kind);
                if k == "Eof" {
                    return true;
                }
                if k == "Error" {
                    return false;
                }
            }
        }
        "sparql" => {
            let mut lx = sparql::Lexer::new(q);
            loop {
                match lx.next_token().kind {
                    sparql::TokenKind::Eof => return true,
                    sparql::TokenKind::Error => return false,
                    _ => {}
                }
            }
        }
        "gremlin" => {
            // no error token: an unknown character yields Eof with a non-empty span
            let mut lx = gremlin::Lexer::new(q);
            loop {
                let t = lx.next_token();
                if t.kind == gremlin::TokenKind::Eof {
                    return t.span.start == t.span.end;
                }
            }
        }
        "graphql" => {
            let mut lx = graphql::Lexer::new(q);
            loop {
                let t = lx.next_token();
                if t.kind == graphql::TokenKind::Eof {
                    return t.span.start == t.span.end;
                }
            }
        }
        _ => false,
    }
}

fn parse_ok(lang: &str, q: &str) -> bool {
    use grafeo_adapters::query::{cypher, gql, graphql, gremlin, sparql};
    match lang {
        "gql" => gql::parse(q).is_ok(),
        "cypher" => cypher::parse(q).is_ok(),
        "gremlin" => gremlin::parse(q).is_ok(),
        "graphql" => graphql::parse(q).is_ok(),
        "sparql" => sparql::parse(q).is_ok(),
        _ => false,
    }
}

fn translate_ok(lang: &str, q: &str) -> bool {
    use grafeo_engine::query as qy;
    match lang {
        "gql" => qy::translate_gql(q).is_ok(),
        "cypher" => qy::translate_cypher(q).is_ok(),
        "gremlin" => qy::translate_gremlin(q).is_ok(),
        "graphql" => {
            // both GraphQL translators (LPG and RDF) take the same text
            let _ = qy::translate_graphql_rdf(q, "http://example.org/");
            qy::translate_graphql(q).is_ok()
        }
        "sparql" => qy::translate_sparql(q).is_ok(),
        _ => false,
    }
}

/// Ok(rows) or Err(kind label).
fn execute(db: &GrafeoDB, lang: &str, q: &str, params: Option<&Vec<(String, PVal)>>) -> Result<usize, &'static str> {
    let pm: Option<HashMap<String, Value>> = params.map(|p| p.iter().map(|(k, v)| (k.clone(), v.to_value())).collect());
    let session = db.session();
    let r = match (lang, pm) {
        ("gql", None) => session.execute(q),
        ("gql", Some(p)) => session.execute_with_params(q, p),
        ("cypher", None) => session.execute_cypher(q),
        ("cypher", Some(p)) => db.execute_cypher_with_params(q, p),
        ("gremlin", None) => session.execute_gremlin(q),
        ("gremlin", Some(p)) => session.execute_gremlin_with_params(q, p),
        ("graphql", None) => session.execute_graphql(q),
        ("graphql", Some(p)) => session.execute_graphql_with_params(q, p),
        ("sparql", None) => session.execute_sparql(q),
        ("sparql", Some(p)) => session.execute_sparql_with_params(q, p),
        _ => return Err("unknown-language"),
    };
    match r {
        Ok(res) => Ok(res.rows.len()),
        Err(Error::Query(qe)) => Err(match qe.kind {
            QueryErrorKind::Lexer => "lexer",
            QueryErrorKind::Syntax => "syntax",
            QueryErrorKind::Semantic => "semantic",
            QueryErrorKind::Optimization => "optimization",
            QueryErrorKind::Execution => "execution",
        }),
        Err(_) => Err("other"),
    }
}

/// true if the text has a variable-length quantifier (`*a..b` inside `[...]`) with a bound above 64.
///
/// The engine matches walks (homomorphism), so on a cyclic graph such a pattern *defines* a result with as many
/// rows as the bound says (billions): no implementation can answer in bounded time, and that is not what C12 is
/// about. Such inputs still go through lexing, parsing, translation, binding, planning and execution on the empty
/// database; only the run on the (cyclic) small database is skipped.
pub fn huge_varlen(q: &str) -> bool {
    let cs: Vec<char> = q.chars().collect();
    let mut depth = 0usize;
    let mut i = 0;
    while i < cs.len() {
        match cs[i] {
            '[' => depth += 1,
            ']' => depth = depth.saturating_sub(1),
            '*' if depth > 0 => {
                let mut j = i + 1;
                loop {
                    while j < cs.len() && (cs[j].is_whitespace() || cs[j] == '.') {
                        j += 1;
                    }
                    let st = j;
                    while j < cs.len() && cs[j].is_ascii_digit() {
                        j += 1;
                    }
                    if j == st {
                        break;
                    }
                    let digits: String = cs[st..j].iter().collect();
                    let digits = digits.trim_start_matches('0');
                    if digits.len() > 2 || digits.parse::<u32>().unwrap_or(0) > 64 {
                        return true;
                    }
                }
                i = j;
                continue;
            }
            _ => {}
        }
        i += 1;
    }
    false
}

/// Runs the stages; returns the reply line. `R <stage>` (how far the input got) or `P <stage>\t<sig>\t<msg>`.
fn handle(req: &Request) -> String {
    let c = &req.case;
    let lang = c.lang.as_str();
    let upto = stage_index(&req.upto);
    let panic_reply = |stage: &str, p: crate::driver::PanicInfo| format!("P {}", esc(&format!("{stage}\t{}\t{}", p.signature(), p.msg)));

    let lex = match catch(|| lex_clean(lang, &c.query)) {
        Ok(v) => v,
        Err(p) => return panic_reply("lex", p),
    };
    if upto == 0 {
        return "R upto".into();
    }
    let parsed = match catch(|| parse_ok(lang, &c.query)) {
        Ok(v) => v,
        Err(p) => return panic_reply("parse", p),
    };
    if upto == 1 {
        return "R upto".into();
    }
    let translated = match catch(|| translate_ok(lang, &c.query)) {
        Ok(v) => v,
        Err(p) => return panic_reply("translate", p),
    };
    if upto == 2 {
        return "R upto".into();
    }
    let mut exec: Vec<Result<usize, &'static str>> = Vec::new();
    let empty_only = huge_varlen(&c.query);
    for (i, small) in [false, true].into_iter().enumerate() {
        if upto < 3 + i {
            return "R upto".into();
        }
        if small && empty_only {
            exec.push(exec[0]);
            continue;
        }
        let r = catch(|| {
            let db = build_db(small);
            execute(&db, lang, &c.query, c.params.as_ref())
        });
        match r {
            Ok(v) => exec.push(v),
            Err(p) => return panic_reply(if small { "small" } else { "empty" }, p),
        }
    }
    let stage = if !lex {
        "lexerr".to_string()
    } else if !parsed {
        "parseerr".to_string()
    } else if !translated {
        "translerr".to_string()
    } else {
        match (&exec[0], &exec[1]) {
            (Ok(_), Ok(n)) => {
                if *n > 0 {
                    "ok-rows".to_string()
                } else {
                    "ok".to_string()
                }
            }
            (_, Err(k)) | (Err(k), _) => format!("execerr-{k}"),
        }
    };
    format!("R {stage}")
}

/// Handles one request line inside the child worker process; returns one reply line.
pub fn worker(request: &str) -> String {
    // `DUMP <lang>`: skeletons and dictionary as JSON (used by fuzz/gen_seeds.sh to write the seed corpus and dictionaries)
    if let Some(lang) = request.strip_prefix("DUMP ") {
        return serde_json::json!({"skeletons": seeds::skeletons(lang), "dictionary": seeds::dictionary(lang)}).to_string();
    }
    let req: Request = match serde_json::from_str(request) {
        Ok(r) => r,
        Err(e) => return format!("E bad request: {e}"),
    };
    if req.big_stack {
        // diagnosis only: one-off thread with a 1 GiB stack
        let h = std::thread::Builder::new().stack_size(BIG_STACK_BYTES).spawn(move || {
            crate::driver::install_panic_hook();
            handle(&req)
        });
        return match h {
            Ok(h) => h.join().unwrap_or_else(|_| "E handler thread panicked outside a stage".to_string()),
            Err(e) => format!("E cannot spawn handler thread: {e}"),
        };
    }
    // a dedicated, persistent thread gives every case the same, known stack size (8 MiB)
    static HANDLER: OnceLock<Mutex<(Sender<Request>, Receiver<String>)>> = OnceLock::new();
    let chan = HANDLER.get_or_init(|| {
        let (tx_req, rx_req) = channel::<Request>();
        let (tx_rep, rx_rep) = channel::<String>();
        std::thread::Builder::new()
            .stack_size(STACK_BYTES)
            .spawn(move || {
                crate::driver::install_panic_hook();
                for r in rx_req {
                    if tx_rep.send(handle(&r)).is_err() {
                        break;
                    }
                }
            })
            .expect("cannot spawn the handler thread");
        Mutex::new((tx_req, rx_rep))
    });
    let g = chan.lock().unwrap();
    let watch = req.watch;
    if g.0.send(req).is_err() {
        return "E handler thread is gone".to_string();
    }
    if !watch {
        return g.1.recv().unwrap_or_else(|_| "E handler thread is gone".to_string());
    }
    // Load-independent hang decision: CPU time and thread states instead of wall time.
    let hz = unsafe { libc::sysconf(libc::_SC_CLK_TCK) }.max(1) as u64;
    let start_ticks = process_ticks();
    let mut last_ticks = start_ticks;
    let mut idle_since: Option<std::time::Instant> = None;
    loop {
        match g.1.recv_timeout(Duration::from_millis(250)) {
            Ok(s) => return s,
            Err(std::sync::mpsc::RecvTimeoutError::Disconnected) => return "E handler thread is gone".to_string(),
            Err(std::sync::mpsc::RecvTimeoutError::Timeout) => {}
        }
        let t = process_ticks();
        if t.saturating_sub(start_ticks) >= HANG_CPU_S * hz {
            return format!("T cpu {}s", t.saturating_sub(start_ticks) / hz);
        }
        if t == last_ticks && !any_other_thread_runnable() {
            let since = *idle_since.get_or_insert_with(std::time::Instant::now);
            if since.elapsed() >= Duration::from_secs(HANG_IDLE_S) {
                return format!("T idle {}s", since.elapsed().as_secs());
            }
        } else {
            idle_since = None;
        }
        last_ticks = t;
    }
}

/// utime + stime of this process in clock ticks.
fn process_ticks() -> u64 {
    let Ok(st) = std::fs::read_to_string("/proc/self/stat") else { return 0 };
    let Some(i) = st.rfind(") ") else { return 0 };
    let f: Vec<&str> = st[i + 2..].split(' ').collect();
    // after the command: state is field 0, utime field 11, stime field 12
    f.get(11).and_then(|x| x.parse::<u64>().ok()).unwrap_or(0) + f.get(12).and_then(|x| x.parse::<u64>().ok()).unwrap_or(0)
}

/// true if a thread of this process other than the caller is running / runnable / in uninterruptible wait.
fn any_other_thread_runnable() -> bool {
    let me = unsafe { libc::syscall(libc::SYS_gettid) } as i64;
    let Ok(rd) = std::fs::read_dir("/proc/self/task") else { return true };
    for e in rd.flatten() {
        let name = e.file_name().to_string_lossy().to_string();
        if name.parse::<i64>().ok() == Some(me) {
            continue;
        }
        let Ok(st) = std::fs::read_to_string(e.path().join("stat")) else { continue };
        let Some(i) = st.rfind(") ") else { continue };
        match st[i + 2..].chars().next() {
            Some('R') | Some('D') => return true,
            _ => {}
        }
    }
    false
}

// ------------------------------------------------------------------------------------------------
// Parent side
// ------------------------------------------------------------------------------------------------

fn request_line(case: &ExecCase, upto: &str, big_stack: bool, watch: bool) -> String {
    serde_json::to_string(&Request { case: case.clone(), upto: upto.to_string(), big_stack, watch }).expect("request serialises")
}

fn fresh_call(case: &ExecCase, upto: &str, big_stack: bool, watch: bool, timeout: Duration) -> Reply {
    let pool = WorkerPool::new("c12", MEM_LIMIT);
    pool.call(&request_line(case, upto, big_stack, watch), timeout)
}

/// Deadline hits that could not be confirmed either way (reported as INCONCLUSIVE at the end of the run).
static UNCONFIRMED: Mutex<Vec<String>> = Mutex::new(Vec::new());

/// First stage cap at which a fresh worker dies.
fn localise_died(case: &ExecCase) -> &'static str {
    for st in STAGES {
        match fresh_call(case, st, false, false, CONFIRM_WALL) {
            Reply::Line(_) => {}
            _ => return st,
        }
    }
    "unstable"
}

/// First stage cap at which a fresh, self-watching worker reports a hang.
fn localise_hang(case: &ExecCase) -> &'static str {
    for st in STAGES {
        match fresh_call(case, st, false, true, CONFIRM_WALL) {
            Reply::Line(l) if !l.starts_with("T ") => {}
            _ => return st,
        }
    }
    "unstable"
}

fn max_run(q: &str, pred: impl Fn(char) -> bool) -> usize {
    let (mut best, mut cur) = (0, 0);
    for c in q.chars() {
        if pred(c) {
            cur += 1;
            best = best.max(cur);
        } else if !c.is_whitespace() {
            cur = 0;
        }
    }
    best
}

/// Nesting depth of brackets (ignores quoting: a shape label, not a parser).
fn bracket_depth(q: &str) -> usize {
    let (mut d, mut best) = (0usize, 0usize);
    for c in q.chars() {
        match c {
            '(' | '[' | '{' => {
                d += 1;
                best = best.max(d);
            }
            ')' | ']' | '}' => d = d.saturating_sub(1),
            _ => {}
        }
    }
    best
}

fn shape(q: &str) -> &'static str {
    if bracket_depth(q) >= 100 {
        "deep-brackets"
    } else if q.len() >= 1000 {
        "long-input"
    } else if max_run(q, |c| c == '-' || c == '!' || c == '^' || c == '+') >= 50 {
        "prefix-chain"
    } else if var_length_match_with_write(q) {
        // a statement whose MATCH contains a variable-length hop and whose write clause adds/removes what that hop walks
        "var-length-match-with-write"
    } else {
        "short-input"
    }
}

/// `[...*...]` somewhere in the text together with a write clause (CREATE / INSERT / MERGE / SET / DELETE).
fn var_length_match_with_write(q: &str) -> bool {
    let up = q.to_uppercase();
    let has_write = ["CREATE", "INSERT", "MERGE", " SET ", "DELETE"].iter().any(|k| up.contains(k));
    let mut in_br = false;
    let mut star = false;
    for c in q.chars() {
        match c {
            '[' => in_br = true,
            ']' => in_br = false,
            '*' if in_br => star = true,
            _ => {}
        }
    }
    has_write && star
}

fn judge_line(case: &ExecCase, line: &str) -> CaseResult {
    if let Some(rest) = line.strip_prefix("R ") {
        let nontrivial = rest != "lexerr";
        return ok(nontrivial, format!("{}/{}", case.origin, rest), hash_of(&(&case.lang, &case.query, format!("{:?}", case.params))));
    }
    // worker_main's own catch (should not happen: stages are guarded) and stage panics
    let payload = line.strip_prefix("P ").or_else(|| line.strip_prefix("PANIC "));
    if let Some(p) = payload {
        let u = unesc(p);
        let parts: Vec<&str> = u.splitn(3, '\t').collect();
        let (stage, sig, msg) = match parts.as_slice() {
            [st, sig, msg] => (*st, *sig, *msg),
            [sig, msg] => ("?", *sig, *msg),
            _ => ("?", u.as_str(), ""),
        };
        return fail(sig.to_string(), format!("{} front end panicked in stage {stage}: {msg}\n  query: {}\n  params: {:?}", case.lang, truncate(&case.query, 600), case.params));
    }
    fail("c12/worker-protocol", format!("unexpected worker reply {line:?}"))
}

pub fn judge(pool: &WorkerPool, case: &ExecCase) -> CaseResult {
    match pool.call(&request_line(case, "small", false, false), DEADLINE) {
        Reply::Line(l) => judge_line(case, &l),
        // deadline hit: re-run once in a fresh worker that decides by CPU time / thread states (load-independent)
        Reply::Timeout => confirm(case),
        // the pooled worker may have died of what earlier cases left behind: only a fresh worker counts
        Reply::Died(_) => confirm(case),
    }
}

fn confirm(case: &ExecCase) -> CaseResult {
    let q = truncate(&case.query, 600);
    match fresh_call(case, "small", false, true, CONFIRM_WALL) {
        Reply::Line(l) if l.starts_with("T ") => {
            let st = localise_hang(case);
            fail(
                format!("c12/{}/hang@{st}:{}", case.lang, shape(&case.query)),
                format!(
                    "no answer within {}s; a fresh worker then spent {HANG_CPU_S} CPU-seconds (or idled {HANG_IDLE_S}s) on it without answering [{l}]; stage {st}; input {} bytes\n  query: {q}\n  params: {:?}",
                    DEADLINE.as_secs(),
                    case.query.len(),
                    case.params
                ),
            )
        }
        Reply::Line(l) => judge_line(case, &l),
        Reply::Timeout => {
            UNCONFIRMED.lock().unwrap().push(format!("{} query {q:?}: no verdict within {}s wall in a fresh worker", case.lang, CONFIRM_WALL.as_secs()));
            ok(false, "unconfirmed-timeout", hash_of(&(&case.lang, &case.query)))
        }
        Reply::Died(how) => died(case, &how),
    }
}

fn died(case: &ExecCase, how: &str) -> CaseResult {
    let q = truncate(&case.query, 600);
    // stack overflow or abort/OOM? with a 1 GiB stack a pure recursion-depth problem disappears
    let kind = match fresh_call(case, "small", true, false, CONFIRM_WALL) {
        Reply::Line(_) => "stack-overflow",
        Reply::Timeout => "abort-or-oom",
        Reply::Died(_) => "abort-or-oom",
    };
    let st = localise_died(case);
    fail(
        format!("c12/{}/died:{kind}@{st}:{}", case.lang, shape(&case.query)),
        format!("worker process died ({how}); {kind} in stage {st}; input {} bytes, bracket depth {}\n  query: {q}\n  params: {:?}", case.query.len(), bracket_depth(&case.query), case.params),
    )
}

// ------------------------------------------------------------------------------------------------
// Enumerated sets
// ------------------------------------------------------------------------------------------------

fn skeleton_cases() -> Vec<ExecCase> {
    let mut v = Vec::new();
    for lang in seeds::LANGS {
        for s in seeds::skeletons(lang) {
            v.push(ExecCase { lang: lang.to_string(), query: (*s).to_string(), params: None, origin: "skeleton".into() });
            let names = strat::param_names(s);
            if !names.is_empty() {
                let vals = [PVal::Int(30), PVal::Str("Alice".into()), PVal::List(vec![PVal::Int(1), PVal::F64Bits(1.5f64.to_bits())])];
                let params = names.iter().enumerate().map(|(i, n)| (n.clone(), vals[i % vals.len()].clone())).collect();
                v.push(ExecCase { lang: lang.to_string(), query: (*s).to_string(), params: Some(params), origin: "skeleton-params".into() });
                v.push(ExecCase { lang: lang.to_string(), query: (*s).to_string(), params: Some(Vec::new()), origin: "skeleton-unbound".into() });
            }
        }
    }
    v
}

fn truncation_cases(step: usize) -> Vec<ExecCase> {
    let mut v = Vec::new();
    for lang in seeds::LANGS {
        for s in seeds::skeletons(lang) {
            for (k, (b, _)) in s.char_indices().enumerate() {
                if b > 0 && k % step == 0 {
                    v.push(ExecCase { lang: lang.to_string(), query: s[..b].to_string(), params: None, origin: "truncate".into() });
                }
            }
        }
    }
    v
}

fn nesting_cases(depths: &[usize]) -> Vec<ExecCase> {
    let mut v = Vec::new();
    for lang in seeds::LANGS {
        for kind in 0..strat::nest_templates(lang).len() {
            for d in depths {
                for broken in [0u8, 1] {
                    v.push(ExecCase { lang: lang.to_string(), query: strat::render_nest(lang, kind, *d, broken), params: None, origin: format!("nest{d}") });
                }
            }
        }
    }
    v
}

fn arith_cases(stride: usize) -> Vec<ExecCase> {
    let mut v = Vec::new();
    let mut k = 0usize;
    for lang in seeds::LANGS {
        let (nt, nv) = (strat::arith_templates(lang).len(), strat::arith_values(lang).len());
        for t in 0..nt {
            let tmpl = strat::arith_templates(lang)[t];
            let ops = if tmpl.contains("{op}") { if lang == "sparql" { 4 } else { strat::ARITH_OPS.len() } } else { 1 };
            let na = if tmpl.contains("{a}") { nv } else { 1 };
            let nb = if tmpl.contains("{b}") { nv } else { 1 };
            for a in 0..na {
                for b in 0..nb {
                    for op in 0..ops {
                        k += 1;
                        if k % stride == 0 {
                            v.push(ExecCase { lang: lang.to_string(), query: strat::render_arith(lang, t, a, op, b), params: None, origin: "arith".into() });
                        }
                    }
                }
            }
        }
    }
    v
}

pub fn run(r: &mut Run) {
    r.level = "exploration";
    r.rule = "per front end: valid skeletons (from the repo's tests/grammar) -> token mutation from a per-language dictionary, \
              splices, token soup, odd characters, unterminated openers, truncation, numeric extremes, nesting to depth 2000, \
              arithmetic/limit templates over extreme operands, parameter maps over every Value type; each string runs in a child \
              process against a fresh empty and a fresh small database. non-trivial = the language's own lexer reported no error \
              token (the input got past lexing); distinct by hash of (language, text, params); classes are <generator>/<stage reached>"
        .into();
    r.assumptions.push("a 8 MiB stack for the calling thread (Linux main-thread default); 4 GiB address space; 20 s (confirmed at 60 s) on inputs of at most a few KiB".into());
    r.assumptions.push("'the call returns' is judged on Session::execute*/GrafeoDB::execute_cypher_with_params plus the public lexers, parse() and translate_*() entry points they are built from; formatting of the returned error is not exercised".into());
    r.assumptions.push("workloads whose *defined* result is astronomically large are outside the hang oracle: comma-separated pattern lists / several GraphQL root fields (cross products) are generated with at most 5 members, and a text with a variable-length quantifier bound above 64 (walk semantics on the cyclic small graph: one row per hop up to the bound) is executed on the empty database only (lexing, parsing, translation, planning still run)".into());
    r.assumptions.push("hang criterion: no answer within 20 s, then in a fresh worker 20 CPU-seconds consumed by the request (or 30 s without a runnable thread) with no answer; wall-clock alone never decides, so machine load cannot cause an alarm; clause chains with polynomial planning cost (UNWIND/WITH repeated) are generated up to 300 clauses".into());

    let thorough = r.is_thorough();
    let pool = WorkerPool::new("c12", MEM_LIMIT);

    // every skeleton as it is (also the sub-check that replays libFuzzer artifacts: see fuzz/run.sh)
    r.enumerate("exec", skeleton_cases(), false, |c: &ExecCase| judge(&pool, c));

    // truncation of every skeleton at every character boundary
    r.enumerate("truncate", truncation_cases(1), true, |c: &ExecCase| judge(&pool, c));

    // nesting of every bracket / operator / clause kind
    let depths: &[usize] = if thorough { &[1, 2, 3, 8, 33, 100, 250, 500, 1000, 1500, 2000] } else { &[3, 40, 300, 2000] };
    r.enumerate("nesting", nesting_cases(depths), false, |c: &ExecCase| judge(&pool, c));

    // arithmetic and SKIP/LIMIT/range templates over the product of extreme operands
    r.enumerate("arith", arith_cases(if thorough { 1 } else { 2 }), thorough, |c: &ExecCase| judge(&pool, c));

    // generated, per language
    r.subcheck("gql", r.cases(60_000, 1_500_000), || strat::case_strategy("gql"), |c: &ExecCase| judge(&pool, c));
    r.subcheck("cypher", r.cases(60_000, 1_500_000), || strat::case_strategy("cypher"), |c: &ExecCase| judge(&pool, c));
    r.subcheck("gremlin", r.cases(60_000, 1_500_000), || strat::case_strategy("gremlin"), |c: &ExecCase| judge(&pool, c));
    r.subcheck("graphql", r.cases(60_000, 1_500_000), || strat::case_strategy("graphql"), |c: &ExecCase| judge(&pool, c));
    r.subcheck("sparql", r.cases(60_000, 1_500_000), || strat::case_strategy("sparql"), |c: &ExecCase| judge(&pool, c));

    // parameter maps
    r.subcheck("params", r.cases(30_000, 600_000), strat::params_strategy, |c: &ExecCase| judge(&pool, c));

    for u in UNCONFIRMED.lock().unwrap().drain(..) {
        r.inconclusive(u);
    }
}
