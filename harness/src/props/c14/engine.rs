//! Engine-level (thin) sub-check: the same histories through `GrafeoDB`'s direct API, then the battery on the
//! database's store plus `validate()` and the db-level property-index entry points.

use std::collections::BTreeSet;

use grafeo_common::types::{PropertyKey, Value};
use grafeo_engine::GrafeoDB;

use crate::driver::{Failure, fail, guard};

use super::model::{Cmd, KEYS, LABELS, Model, Outcome, TYPES, V, veq};
use super::store::{IdMap, from_value, to_value};

fn key(k: u8) -> &'static str {
    KEYS[usize::from(k) % KEYS.len()]
}

fn kv(props: &[(u8, V)]) -> Vec<(PropertyKey, Value)> {
    props.iter().map(|(k, v)| (PropertyKey::new(key(*k)), to_value(v))).collect()
}

/// Applies `cmd` through `GrafeoDB`'s public CRUD / index API.
pub fn apply_db(db: &GrafeoDB, cmd: &Cmd, ids: &mut IdMap) -> Result<Outcome, Failure> {
    let ctx = cmd.name();
    Ok(match cmd {
        Cmd::CreateNode { labels, props } => {
            let ls: Vec<&str> = labels.iter().map(|l| LABELS[usize::from(*l) % 3]).collect();
            let id = if props.is_empty() {
                guard(ctx, || db.create_node(&ls))?
            } else {
                let p = kv(props);
                guard(ctx, || db.create_node_with_props(&ls, p))?
            };
            Outcome::Created(ids.bind_node(id)?)
        }
        Cmd::DeleteNode { id } => {
            let n = ids.node(*id);
            Outcome::Bool(guard(ctx, || db.delete_node(n))?)
        }
        Cmd::DetachDeleteNode { id } => {
            let n = ids.node(*id);
            guard("delete_node_edges", || db.store().delete_node_edges(n))?;
            Outcome::Bool(guard(ctx, || db.delete_node(n))?)
        }
        Cmd::CreateEdge { src, dst, ty, props } => {
            let (s, d) = (ids.node(*src), ids.node(*dst));
            let t = TYPES[usize::from(*ty) % 2];
            let id = if props.is_empty() {
                guard(ctx, || db.create_edge(s, d, t))?
            } else {
                let p = kv(props);
                guard(ctx, || db.create_edge_with_props(s, d, t, p))?
            };
            Outcome::Created(ids.bind_edge(id)?)
        }
        Cmd::Burst { hub, others, n, incoming, ty } => {
            let mut out = Vec::new();
            for j in 0..usize::from(*n) {
                let o = ids.node(if others.is_empty() { *hub } else { others[j % others.len()] });
                let h = ids.node(*hub);
                let (s, d) = if *incoming { (o, h) } else { (h, o) };
                let id = guard(ctx, || db.create_edge(s, d, TYPES[usize::from(*ty) % 2]))?;
                out.push(ids.bind_edge(id)?);
            }
            Outcome::CreatedMany(out)
        }
        Cmd::DeleteEdge { id } => {
            let e = ids.edge(*id);
            Outcome::Bool(guard(ctx, || db.delete_edge(e))?)
        }
        Cmd::SetNodeProp { id, key: k, val } => {
            let n = ids.node(*id);
            guard(ctx, || db.set_node_property(n, key(*k), to_value(val)))?;
            Outcome::Unit
        }
        Cmd::RemoveNodeProp { id, key: k } => {
            let n = ids.node(*id);
            // the db-level call only reports whether something was removed; read the value first
            let before = guard("get_node", || db.get_node(n))?.and_then(|nd| nd.properties.get(&PropertyKey::new(key(*k))).map(from_value));
            let removed = guard(ctx, || db.remove_node_property(n, key(*k)))?;
            if removed != before.is_some() && before.is_some() {
                return fail("c14/engine/remove_node_property/ret", format!("{cmd:?}: returned {removed}, value before was {before:?}"));
            }
            Outcome::Removed(if removed { before.or(Some(V::Null)) } else { None })
        }
        Cmd::SetEdgeProp { id, key: k, val } => {
            let e = ids.edge(*id);
            guard(ctx, || db.set_edge_property(e, key(*k), to_value(val)))?;
            Outcome::Unit
        }
        Cmd::RemoveEdgeProp { id, key: k } => {
            let e = ids.edge(*id);
            let before = guard("get_edge", || db.get_edge(e))?.and_then(|ed| ed.properties.get(&PropertyKey::new(key(*k))).map(from_value));
            let removed = guard(ctx, || db.remove_edge_property(e, key(*k)))?;
            Outcome::Removed(if removed { before.or(Some(V::Null)) } else { None })
        }
        Cmd::AddLabel { id, label } => {
            let n = ids.node(*id);
            Outcome::Bool(guard(ctx, || db.add_node_label(n, LABELS[usize::from(*label) % 3]))?)
        }
        Cmd::RemoveLabel { id, label } => {
            let n = ids.node(*id);
            Outcome::Bool(guard(ctx, || db.remove_node_label(n, LABELS[usize::from(*label) % 3]))?)
        }
        Cmd::CreateIndex { key: k } => {
            guard(ctx, || db.create_property_index(key(*k)))?;
            Outcome::Unit
        }
        Cmd::DropIndex { key: k } => Outcome::Bool(guard(ctx, || db.drop_property_index(key(*k)))?),
        Cmd::ComputeStatistics => {
            guard(ctx, || db.store().compute_statistics())?;
            Outcome::Unit
        }
        Cmd::EnsureStatisticsFresh => {
            guard(ctx, || db.store().ensure_statistics_fresh())?;
            Outcome::Unit
        }
        Cmd::RebuildZoneMaps => {
            guard(ctx, || db.store().rebuild_zone_maps())?;
            Outcome::Unit
        }
    })
}

/// The db-level view: counts, label reads, indexed lookups, the integrity report.
pub fn db_checks(db: &GrafeoDB, model: &Model, ids: &IdMap) -> Result<(), Failure> {
    let nc = guard("node_count", || db.node_count())?;
    let ec = guard("edge_count", || db.edge_count())?;
    if nc != model.nodes.len() || ec != model.edges.len() {
        return fail("c14/engine/counts", format!("db.node_count {nc} db.edge_count {ec}, model {} / {}", model.nodes.len(), model.edges.len()));
    }
    let it_n = guard("iter_nodes", || db.iter_nodes().count())?;
    let it_e = guard("iter_edges", || db.iter_edges().count())?;
    if it_n != nc || it_e != ec {
        return fail("c14/engine/iter-vs-count", format!("iter_nodes {it_n} vs node_count {nc}; iter_edges {it_e} vs edge_count {ec}"));
    }
    for (m, n) in &model.nodes {
        let got = guard("get_node_labels", || db.get_node_labels(ids.node(*m)))?;
        let exp: Vec<String> = n.labels.iter().map(|l| LABELS[usize::from(*l) % 3].to_string()).collect();
        let mut g = got.clone().unwrap_or_default();
        g.sort();
        if got.is_none() || g != exp {
            return fail("c14/engine/get_node_labels", format!("get_node_labels({m}) = {got:?}, model {exp:?}"));
        }
    }
    for m in &model.dead_nodes {
        if let Some(l) = guard("get_node_labels", || db.get_node_labels(ids.node(*m)))? {
            return fail("c14/engine/get_node_labels/deleted-visible", format!("get_node_labels({m}) of a deleted node = {l:?}"));
        }
    }
    for (ki, name) in KEYS.iter().enumerate() {
        let k = ki as u8;
        let has = guard("has_property_index", || db.has_property_index(name))?;
        if has != model.indexes.contains(&k) {
            return fail("c14/engine/has_property_index", format!("has_property_index({name}) = {has}"));
        }
        let present: BTreeSet<V> = model.nodes.values().filter_map(|n| n.props.get(&k).cloned()).collect();
        for q in present.iter().take(8).cloned().chain([V::Int(0), V::Str("a".into())]) {
            let exp: Vec<u64> = model.nodes.iter().filter(|(_, n)| n.props.get(&k).is_some_and(|v| veq(v, &q))).map(|(m, _)| *m).collect();
            let mut got: Vec<u64> =
                guard("find_nodes_by_property", || db.find_nodes_by_property(name, &to_value(&q)))?.iter().map(|n| ids.mnode(*n)).collect();
            got.sort_unstable();
            if got != exp {
                let only_ghosts = exp.iter().all(|x| got.contains(x))
                    && got.iter().filter(|x| !exp.contains(x)).all(|x| model.dead_nodes.contains(x) && model.ghosts.contains(&(false, *x, k)));
                return fail(
                    if has && only_ghosts {
                        "c14/engine/find_nodes_by_property/indexed/ghost-of-deleted-id".to_string()
                    } else {
                        format!("c14/engine/find_nodes_by_property/{}", if has { "indexed" } else { "scan" })
                    },
                    format!("db.find_nodes_by_property({name}, {q:?}) = {got:?}, scan of the model = {exp:?}"),
                );
            }
        }
    }
    // integrity report: every dangling reference is reported (documented), and nothing at all for a graph without them
    let rep = guard("validate", || db.validate())?;
    let all: Vec<(String, String)> = rep.errors.iter().map(|e| (e.code.clone(), e.context.clone().unwrap_or_default())).collect();
    let mut got: Vec<(String, String)> = all.iter().filter(|e| e.0.starts_with("DANGLING")).cloned().collect();
    got.sort();
    let mut exp: Vec<(String, String)> = Vec::new();
    for (e, s, d) in model.dangling() {
        let ctx = format!("edge:{}", ids.edge(e).as_u64());
        if s {
            exp.push(("DANGLING_SRC".into(), ctx.clone()));
        }
        if d {
            exp.push(("DANGLING_DST".into(), ctx));
        }
    }
    exp.sort();
    if exp.is_empty() && !all.is_empty() {
        return fail("c14/engine/validate/error-without-dangling-edge", format!("validate() errors {all:?} on a graph without dangling edges"));
    }
    if got != exp {
        return fail("c14/engine/validate/dangling-set", format!("validate() dangling errors {got:?}, model's dangling references {exp:?}"));
    }
    if rep.is_valid() != all.is_empty() {
        return fail("c14/engine/validate/is_valid", format!("is_valid {} with errors {all:?}", rep.is_valid()));
    }
    Ok(())
}
