//! `grafeo_engine::catalog::Catalog` (label / property-key / edge-type dictionaries, index definitions, schema
//! constraints) against a plain model after every step, and the catalog-level listings of `LpgStore` / `GrafeoDB`
//! (`all_labels`, `all_edge_types`, `all_property_keys`, `*_count`, `info()`, `detailed_stats()`, `schema()`, the
//! `Statistics` maps and the `estimate_*` readers) against a scan of the model's live entities.

use std::collections::{BTreeMap, BTreeSet};

use proptest::collection::vec;
use proptest::prelude::*;
use serde::{Deserialize, Serialize};

use grafeo_common::types::{EdgeTypeId, IndexId, LabelId, PropertyKeyId};
use grafeo_core::graph::lpg::LpgStore;
use grafeo_engine::GrafeoDB;
use grafeo_engine::admin::SchemaInfo;
use grafeo_engine::catalog::{Catalog, CatalogError, IndexType};

use crate::driver::{CaseResult, Failure, fail, guard, hash_dbg, ok, pick};

use super::model::{Cmd, KEYS, LABELS, Model, TYPES};

// =================================================================================================
// Catalog histories
// =================================================================================================

/// Names chosen to collide: case variants, NFC / NFD forms of one glyph, the empty string, leading blank, a long one,
/// and names that are used in all three dictionaries (each dictionary numbers its names on its own).
const NAMES: [&str; 12] = ["", "A", "a", "Person", "person", "\u{e9}", "e\u{301}", "KNOWS", "name", " name", "0", "LONG"];

fn name(i: u8) -> String {
    let n = NAMES[usize::from(i) % NAMES.len()];
    if n == "LONG" { "x".repeat(300) } else { n.to_string() }
}

#[derive(Clone, Debug, PartialEq, Serialize, Deserialize)]
pub enum COp {
    /// dict: 0 labels, 1 property keys, 2 edge types
    GetOrCreate { dict: u8, name: u8 },
    /// `n` fresh names `"{prefix}{j}"` in one go (the dictionaries' vectors and maps grow)
    GetOrCreateMany { dict: u8, n: u8 },
    /// label / key: selector into the ids issued so far (k = 0) or a raw, never issued id (k = 1)
    CreateIndex { label: (u16, u8), key: (u16, u8), ty: u8 },
    /// k: 0 = a live index, 1 = a dropped one, 2 = an id never issued
    DropIndex { i: u16, k: u8 },
    AddUnique { label: u16, key: u16 },
    AddRequired { label: u16, key: u16 },
}

#[derive(Clone, Debug, PartialEq, Serialize, Deserialize)]
pub struct CatalogCase {
    pub schema: bool,
    pub ops: Vec<COp>,
}

pub fn catalog_case(max_ops: usize) -> BoxedStrategy<CatalogCase> {
    let sel = || (any::<u16>(), prop_oneof![9 => Just(0u8), 1 => Just(1u8)]);
    let op = prop_oneof![
        12 => (0u8..3, 0u8..12).prop_map(|(dict, name)| COp::GetOrCreate { dict, name }),
        1 => (0u8..3, prop_oneof![3 => 2u8..20, 1 => 100u8..=255]).prop_map(|(dict, n)| COp::GetOrCreateMany { dict, n }),
        8 => (sel(), sel(), 0u8..3).prop_map(|(label, key, ty)| COp::CreateIndex { label, key, ty }),
        5 => (any::<u16>(), prop_oneof![6 => Just(0u8), 2 => Just(1u8), 1 => Just(2u8)]).prop_map(|(i, k)| COp::DropIndex { i, k }),
        3 => (any::<u16>(), any::<u16>()).prop_map(|(label, key)| COp::AddUnique { label, key }),
        3 => (any::<u16>(), any::<u16>()).prop_map(|(label, key)| COp::AddRequired { label, key }),
    ];
    (any::<bool>(), vec(op, 1..=max_ops)).prop_map(|(schema, ops)| CatalogCase { schema, ops }).boxed()
}

#[derive(Default)]
struct Dict {
    /// name → id as first returned
    by_name: BTreeMap<String, u32>,
    by_id: BTreeMap<u32, String>,
}

#[derive(Clone, Debug, PartialEq)]
struct MIndex {
    label: u32,
    key: u32,
    ty: u8,
    live: bool,
}

fn dict_get_or_create(cat: &Catalog, d: u8, n: &str) -> u32 {
    match d {
        0 => cat.get_or_create_label(n).as_u32(),
        1 => cat.get_or_create_property_key(n).as_u32(),
        _ => cat.get_or_create_edge_type(n).as_u32(),
    }
}
fn dict_id(cat: &Catalog, d: u8, n: &str) -> Option<u32> {
    match d {
        0 => cat.get_label_id(n).map(|i| i.as_u32()),
        1 => cat.get_property_key_id(n).map(|i| i.as_u32()),
        _ => cat.get_edge_type_id(n).map(|i| i.as_u32()),
    }
}
fn dict_name(cat: &Catalog, d: u8, id: u32) -> Option<String> {
    match d {
        0 => cat.get_label_name(LabelId::new(id)).map(|s| s.to_string()),
        1 => cat.get_property_key_name(PropertyKeyId::new(id)).map(|s| s.to_string()),
        _ => cat.get_edge_type_name(EdgeTypeId::new(id)).map(|s| s.to_string()),
    }
}
fn dict_count(cat: &Catalog, d: u8) -> usize {
    match d {
        0 => cat.label_count(),
        1 => cat.property_key_count(),
        _ => cat.edge_type_count(),
    }
}
fn dict_all(cat: &Catalog, d: u8) -> Vec<String> {
    match d {
        0 => cat.all_labels(),
        1 => cat.all_property_keys(),
        _ => cat.all_edge_types(),
    }
    .iter()
    .map(|s| s.to_string())
    .collect()
}

const DICT: [&str; 3] = ["label", "property_key", "edge_type"];

fn index_type(t: u8) -> IndexType {
    match t % 3 {
        0 => IndexType::Hash,
        1 => IndexType::BTree,
        _ => IndexType::FullText,
    }
}

pub fn check_catalog(case: &CatalogCase) -> CaseResult {
    let cat = guard("Catalog::new", || if case.schema { Catalog::with_schema() } else { Catalog::new() })?;
    let mut dicts: [Dict; 3] = [Dict::default(), Dict::default(), Dict::default()];
    let mut indexes: BTreeMap<u32, MIndex> = BTreeMap::new();
    let mut unique: BTreeSet<(u32, u32)> = BTreeSet::new();
    let mut required: BTreeSet<(u32, u32)> = BTreeSet::new();
    let mut fresh = 0u32;
    let (mut repeats, mut drops, mut dup_constraints) = (0u32, 0u32, 0u32);

    if guard("has_schema", || cat.has_schema())? != case.schema {
        return fail("c14/catalog/has_schema", format!("has_schema != {}", case.schema));
    }

    // an issued id of dictionary `d` (k = 0), or an id that was never issued (k = 1)
    let pick_id = |dicts: &[Dict; 3], d: usize, (i, k): (u16, u8)| -> u32 {
        if k == 0 && !dicts[d].by_id.is_empty() {
            *dicts[d].by_id.keys().nth(pick(i, dicts[d].by_id.len())).unwrap()
        } else {
            1_000_000 + u32::from(i)
        }
    };

    for (step, op) in case.ops.iter().enumerate() {
        let after = format!("after step {step} ({op:?})");
        let mut create = |dicts: &mut [Dict; 3], d: u8, n: String| -> Result<(), Failure> {
            let id = guard("get_or_create", || dict_get_or_create(&cat, d, &n))?;
            let dict = &mut dicts[usize::from(d)];
            match dict.by_name.get(&n) {
                Some(old) => {
                    repeats += 1;
                    if *old != id {
                        return fail(format!("c14/catalog/{}/id-not-stable", DICT[usize::from(d)]), format!("{after}: get_or_create({n:?}) = {id}, it was {old} before"));
                    }
                }
                None => {
                    if let Some(other) = dict.by_id.get(&id) {
                        return fail(format!("c14/catalog/{}/id-reused", DICT[usize::from(d)]), format!("{after}: get_or_create({n:?}) = {id}, which is the id of {other:?}"));
                    }
                    dict.by_name.insert(n.clone(), id);
                    dict.by_id.insert(id, n);
                }
            }
            Ok(())
        };
        match op {
            COp::GetOrCreate { dict, name: n } => create(&mut dicts, *dict % 3, name(*n))?,
            COp::GetOrCreateMany { dict, n } => {
                for _ in 0..*n {
                    fresh += 1;
                    create(&mut dicts, *dict % 3, format!("n{fresh}"))?;
                }
            }
            COp::CreateIndex { label, key, ty } => {
                let (l, k) = (pick_id(&dicts, 0, *label), pick_id(&dicts, 1, *key));
                let id = guard("create_index", || cat.create_index(LabelId::new(l), PropertyKeyId::new(k), index_type(*ty)))?.as_u32();
                if let Some(old) = indexes.get(&id) {
                    return fail("c14/catalog/index/id-reused", format!("{after}: create_index returned id {id}, already issued for {old:?}"));
                }
                indexes.insert(id, MIndex { label: l, key: k, ty: *ty % 3, live: true });
            }
            COp::DropIndex { i, k } => {
                let pool: Vec<u32> = indexes.iter().filter(|(_, m)| m.live == (*k == 0)).map(|(id, _)| *id).collect();
                let id = if *k < 2 && !pool.is_empty() { pool[pick(*i, pool.len())] } else { 2_000_000 + u32::from(*i) };
                let exp = indexes.get(&id).is_some_and(|m| m.live);
                let got = guard("drop_index", || cat.drop_index(IndexId::new(id)))?;
                if got != exp {
                    return fail("c14/catalog/index/drop-return", format!("{after}: drop_index({id}) = {got}, model {exp}"));
                }
                if let Some(m) = indexes.get_mut(&id) {
                    m.live = false;
                }
                drops += u32::from(exp);
            }
            COp::AddUnique { label, key } | COp::AddRequired { label, key } => {
                let is_unique = matches!(op, COp::AddUnique { .. });
                let (l, k) = (pick_id(&dicts, 0, (*label, 0)), pick_id(&dicts, 1, (*key, 0)));
                let got = guard("add_constraint", || {
                    if is_unique { cat.add_unique_constraint(LabelId::new(l), PropertyKeyId::new(k)) } else { cat.add_required_property(LabelId::new(l), PropertyKeyId::new(k)) }
                })?;
                let set = if is_unique { &mut unique } else { &mut required };
                let exp: Result<(), CatalogError> = if !case.schema {
                    Err(CatalogError::SchemaNotEnabled)
                } else if set.contains(&(l, k)) {
                    dup_constraints += 1;
                    Err(CatalogError::ConstraintAlreadyExists)
                } else {
                    set.insert((l, k));
                    Ok(())
                };
                if got != exp {
                    return fail("c14/catalog/constraint/result", format!("{after}: returned {got:?}, model {exp:?}"));
                }
            }
        }

        // ---- oracle after every step ----
        for d in 0u8..3 {
            let dn = DICT[usize::from(d)];
            let dict = &dicts[usize::from(d)];
            let cnt = guard("count", || dict_count(&cat, d))?;
            if cnt != dict.by_name.len() {
                return fail(format!("c14/catalog/{dn}/count"), format!("{after}: {dn}_count {cnt}, model has {} names", dict.by_name.len()));
            }
            let mut all = guard("all_names", || dict_all(&cat, d))?;
            all.sort();
            let exp: Vec<String> = dict.by_name.keys().cloned().collect();
            if all != exp {
                return fail(format!("c14/catalog/{dn}/listing"), format!("{after}: all names {:?}…, model {:?}… ({} vs {})", &all[..all.len().min(16)], &exp[..exp.len().min(16)], all.len(), exp.len()));
            }
            // name → id for every name of the pool (unknown ones must be None, never a panic) and every created name
            let check_name = |n: &str| -> Result<(), Failure> {
                let got = guard("get_id", || dict_id(&cat, d, n))?;
                let exp = dict.by_name.get(n).copied();
                if got != exp {
                    return fail(format!("c14/catalog/{dn}/get_id"), format!("{after}: get_{dn}_id({n:?}) = {got:?}, model {exp:?}"));
                }
                Ok(())
            };
            for i in 0..NAMES.len() as u8 {
                check_name(&name(i))?;
            }
            check_name("n0")?;
            check_name("never")?;
            let many = dict.by_name.len() > 64;
            for (j, (n, id)) in dict.by_name.iter().enumerate() {
                if many && j % 7 != step % 7 {
                    continue;
                }
                check_name(n)?;
                // id → name is the inverse
                let back = guard("get_name", || dict_name(&cat, d, *id))?;
                if back.as_deref() != Some(n.as_str()) {
                    return fail(format!("c14/catalog/{dn}/get_name"), format!("{after}: get_{dn}_name({id}) = {back:?}, the id was issued for {n:?}"));
                }
            }
            // ids never issued
            let max = dict.by_id.keys().next_back().copied();
            for id in [max.map_or(0, |m| m + 1), max.map_or(7, |m| m + 1000), u32::MAX - 1, u32::MAX] {
                if dict.by_id.contains_key(&id) {
                    continue;
                }
                if let Some(n) = guard("get_name", || dict_name(&cat, d, id))? {
                    return fail(format!("c14/catalog/{dn}/get_name/unknown-id"), format!("{after}: get_{dn}_name({id}) = {n:?} for an id that was never issued"));
                }
            }
        }
        // index definitions
        let live: Vec<(&u32, &MIndex)> = indexes.iter().filter(|(_, m)| m.live).collect();
        let ic = guard("index_count", || cat.index_count())?;
        if ic != live.len() {
            return fail("c14/catalog/index/count", format!("{after}: index_count {ic}, model {}", live.len()));
        }
        for (id, m) in &indexes {
            let got = guard("get_index", || cat.get_index(IndexId::new(*id)))?;
            match (&got, m.live) {
                (None, false) => {}
                (Some(def), true) if def.id.as_u32() == *id && def.label.as_u32() == m.label && def.property_key.as_u32() == m.key && def.index_type == index_type(m.ty) => {}
                _ => return fail(if m.live { "c14/catalog/index/get_index" } else { "c14/catalog/index/dropped-visible" }, format!("{after}: get_index({id}) = {got:?}, model {m:?}")),
            }
        }
        if let Some(def) = guard("get_index", || cat.get_index(IndexId::new(3_000_000)))? {
            return fail("c14/catalog/index/get_index/unknown-id", format!("{after}: get_index(3000000) = {def:?}"));
        }
        let labels: BTreeSet<u32> = indexes.values().map(|m| m.label).chain(dicts[0].by_id.keys().copied().take(6)).chain([999_999]).collect();
        for l in &labels {
            let mut got: Vec<u32> = guard("indexes_for_label", || cat.indexes_for_label(LabelId::new(*l)))?.iter().map(|i| i.as_u32()).collect();
            got.sort_unstable();
            let exp: Vec<u32> = live.iter().filter(|(_, m)| m.label == *l).map(|(id, _)| **id).collect();
            if got != exp {
                let sig = if got.iter().any(|g| indexes.get(g).is_some_and(|m| !m.live)) { "c14/catalog/index/for_label/dropped-listed" } else { "c14/catalog/index/for_label" };
                return fail(sig, format!("{after}: indexes_for_label({l}) = {got:?}, live indexes of the label {exp:?}"));
            }
        }
        let pairs: BTreeSet<(u32, u32)> = indexes.values().map(|m| (m.label, m.key)).chain(indexes.values().map(|m| (m.key, m.label))).chain([(999_999, 0)]).collect();
        for (l, k) in &pairs {
            let mut got: Vec<u32> =
                guard("indexes_for_label_property", || cat.indexes_for_label_property(LabelId::new(*l), PropertyKeyId::new(*k)))?.iter().map(|i| i.as_u32()).collect();
            got.sort_unstable();
            let exp: Vec<u32> = live.iter().filter(|(_, m)| m.label == *l && m.key == *k).map(|(id, _)| **id).collect();
            if got != exp {
                let sig = if got.iter().any(|g| indexes.get(g).is_some_and(|m| !m.live)) { "c14/catalog/index/for_label_property/dropped-listed" } else { "c14/catalog/index/for_label_property" };
                return fail(sig, format!("{after}: indexes_for_label_property({l}, {k}) = {got:?}, model {exp:?}"));
            }
        }
        // constraints
        let cpairs: BTreeSet<(u32, u32)> = unique.iter().chain(required.iter()).copied().flat_map(|(l, k)| [(l, k), (k, l)]).chain([(0, 0), (999_999, 1)]).collect();
        for (l, k) in &cpairs {
            let u = guard("is_property_unique", || cat.is_property_unique(LabelId::new(*l), PropertyKeyId::new(*k)))?;
            let r = guard("is_property_required", || cat.is_property_required(LabelId::new(*l), PropertyKeyId::new(*k)))?;
            if u != unique.contains(&(*l, *k)) || r != required.contains(&(*l, *k)) {
                return fail("c14/catalog/constraint/query", format!("{after}: ({l}, {k}) unique {u} required {r}, model {} / {}", unique.contains(&(*l, *k)), required.contains(&(*l, *k))));
            }
        }
    }
    let total: usize = dicts.iter().map(|d| d.by_name.len()).sum();
    let class = format!(
        "{}{}{}",
        if case.schema { "schema" } else { "plain" },
        if drops > 0 { "+drop" } else { "" },
        if total > 64 { "+many" } else { "" }
    );
    ok(repeats > 0 && total >= 3 && (drops > 0 || dup_constraints > 0 || indexes.len() >= 2), class, hash_dbg(case))
}

// =================================================================================================
// Listings of LpgStore / GrafeoDB against the model
// =================================================================================================

/// Names a history has mentioned to the store so far (upper bound of what the dictionaries may list: a dictionary
/// entry may outlive its last user — the listings are documented as "all names", and the per-name counts are exact).
#[derive(Clone, Debug, Default)]
pub struct Ever {
    pub labels: BTreeSet<u8>,
    pub types: BTreeSet<u8>,
    pub node_keys: BTreeSet<u8>,
    pub edge_keys: BTreeSet<u8>,
}

impl Ever {
    pub fn note(&mut self, cmd: &Cmd) {
        match cmd {
            Cmd::CreateNode { labels, props } => {
                self.labels.extend(labels.iter().map(|l| l % 3));
                self.node_keys.extend(props.iter().map(|(k, _)| k % 4));
            }
            Cmd::CreateEdge { ty, props, .. } => {
                self.types.insert(ty % 2);
                self.edge_keys.extend(props.iter().map(|(k, _)| k % 4));
            }
            Cmd::Burst { ty, n, .. } => {
                if *n > 0 {
                    self.types.insert(ty % 2);
                }
            }
            Cmd::SetNodeProp { key, .. } => {
                self.node_keys.insert(key % 4);
            }
            Cmd::SetEdgeProp { key, .. } => {
                self.edge_keys.insert(key % 4);
            }
            Cmd::AddLabel { label, .. } => {
                self.labels.insert(label % 3);
            }
            _ => {}
        }
    }
}

fn names(set: &BTreeSet<u8>, table: &[&str]) -> BTreeSet<String> {
    set.iter().map(|i| table[usize::from(*i) % table.len()].to_string()).collect()
}

/// `lower ⊆ listed ⊆ upper`, no duplicates.
fn check_listing(what: &str, listed: &[String], lower: &BTreeSet<String>, upper: &BTreeSet<String>) -> Result<(), Failure> {
    let set: BTreeSet<String> = listed.iter().cloned().collect();
    if set.len() != listed.len() {
        return fail(format!("c14/listing/{what}/duplicate"), format!("{what} = {listed:?}"));
    }
    if let Some(m) = lower.iter().find(|n| !set.contains(*n)) {
        return fail(format!("c14/listing/{what}/missing-live-name"), format!("{what} = {listed:?} lacks {m:?}, which live entities carry"));
    }
    if let Some(x) = set.iter().find(|n| !upper.contains(*n)) {
        return fail(format!("c14/listing/{what}/unknown-name"), format!("{what} = {listed:?} lists {x:?}, which the history never mentioned (mentioned: {upper:?})"));
    }
    Ok(())
}

/// The store's dictionaries, counts, statistics maps and estimators against a scan of the model.
pub fn store_listings(store: &LpgStore, model: &Model, ever: &Ever) -> Result<(), Failure> {
    let live_labels: BTreeSet<u8> = model.nodes.values().flat_map(|n| n.labels.iter().copied()).collect();
    let live_types: BTreeSet<u8> = model.edges.values().map(|e| e.ty).collect();
    let live_nkeys: BTreeSet<u8> = model.nodes.values().flat_map(|n| n.props.keys().copied()).collect();
    let live_ekeys: BTreeSet<u8> = model.edges.values().flat_map(|e| e.props.keys().copied()).collect();

    let labels = guard("all_labels", || store.all_labels())?;
    check_listing("all_labels", &labels, &names(&live_labels, &LABELS), &names(&ever.labels, &LABELS))?;
    let lc = guard("label_count", || store.label_count())?;
    if lc != labels.len() {
        return fail("c14/listing/label_count", format!("label_count {lc}, all_labels lists {} names", labels.len()));
    }
    let types = guard("all_edge_types", || store.all_edge_types())?;
    check_listing("all_edge_types", &types, &names(&live_types, &TYPES), &names(&ever.types, &TYPES))?;
    let tc = guard("edge_type_count", || store.edge_type_count())?;
    if tc != types.len() {
        return fail("c14/listing/edge_type_count", format!("edge_type_count {tc}, all_edge_types lists {} names", types.len()));
    }
    let keys = guard("all_property_keys", || store.all_property_keys())?;
    let live_keys: BTreeSet<u8> = live_nkeys.union(&live_ekeys).copied().collect();
    let ever_keys: BTreeSet<u8> = ever.node_keys.union(&ever.edge_keys).copied().collect();
    check_listing("all_property_keys", &keys, &names(&live_keys, &KEYS), &names(&ever_keys, &KEYS))?;
    // documented: node columns + edge columns, a key used on both sides is counted twice
    let kc = guard("property_key_count", || store.property_key_count())?;
    let (lo, hi) = (live_nkeys.len() + live_ekeys.len(), ever.node_keys.len() + ever.edge_keys.len());
    if kc < lo || kc > hi || kc < keys.len() {
        return fail("c14/listing/property_key_count", format!("property_key_count {kc} outside [{lo}, {hi}] (live node keys + live edge keys .. ever-set node keys + ever-set edge keys), all_property_keys lists {}", keys.len()));
    }

    // statistics as computed by the store: after `compute_statistics` with nothing mutated since, the maps hold exactly
    // the labels / types that have live members, and the estimators read the exact counts back
    if model.stats_fresh == 2 {
        let st = guard("statistics", || store.statistics())?;
        let got_l: BTreeSet<String> = st.labels.keys().cloned().collect();
        if got_l != names(&live_labels, &LABELS) {
            return fail("c14/statistics/label-set", format!("statistics.labels has {got_l:?}, labels with live nodes {:?}", names(&live_labels, &LABELS)));
        }
        let got_t: BTreeSet<String> = st.edge_types.keys().cloned().collect();
        if got_t != names(&live_types, &TYPES) {
            return fail("c14/statistics/edge-type-set", format!("statistics.edge_types has {got_t:?}, types with live edges {:?}", names(&live_types, &TYPES)));
        }
        for l in &live_labels {
            let name = LABELS[usize::from(*l) % 3];
            let exp = model.nodes.values().filter(|n| n.labels.contains(l)).count() as f64;
            let got = guard("estimate_label_cardinality", || store.estimate_label_cardinality(name))?;
            let via = st.estimate_label_cardinality(name);
            if got != exp || via != exp {
                return fail("c14/statistics/estimate_label_cardinality", format!("label {name}: store estimate {got}, Statistics estimate {via}, live nodes {exp}"));
            }
        }
        for t in &live_types {
            let name = TYPES[usize::from(*t) % 2];
            let cnt = model.edges.values().filter(|e| e.ty == *t).count();
            for outgoing in [true, false] {
                let got = guard("estimate_avg_degree", || store.estimate_avg_degree(name, outgoing))?;
                // an average degree over a graph with `cnt` edges of the type and at least one node lies in (0, cnt]
                if !(got > 0.0 && got <= cnt as f64) && !model.nodes.is_empty() {
                    return fail("c14/statistics/estimate_avg_degree/out-of-bounds", format!("type {name} outgoing {outgoing}: estimate {got}, {cnt} live edges of the type, {} live nodes", model.nodes.len()));
                }
            }
        }
    }
    Ok(())
}

/// The database-level reports (`info`, `detailed_stats`, `schema`, `*_count`) against a scan of the model.
pub fn db_listings(db: &GrafeoDB, model: &Model, ever: &Ever, known: &mut Vec<String>) -> Result<(), Failure> {
    store_listings(db.store(), model, ever)?;
    let (n, e) = (model.nodes.len(), model.edges.len());
    let info = guard("info", || db.info())?;
    if info.node_count != n || info.edge_count != e {
        return fail("c14/engine/info/counts", format!("info(): {} nodes {} edges, model {n} / {e}", info.node_count, info.edge_count));
    }
    let ds = guard("detailed_stats", || db.detailed_stats())?;
    if ds.node_count != n || ds.edge_count != e {
        return fail("c14/engine/detailed_stats/counts", format!("detailed_stats(): {} nodes {} edges, model {n} / {e}", ds.node_count, ds.edge_count));
    }
    let (lc, tc, kc) = (guard("label_count", || db.label_count())?, guard("edge_type_count", || db.edge_type_count())?, guard("property_key_count", || db.property_key_count())?);
    if ds.label_count != lc || ds.edge_type_count != tc || ds.property_key_count != kc || lc != db.store().label_count() || tc != db.store().edge_type_count() || kc != db.store().property_key_count() {
        return fail(
            "c14/engine/detailed_stats/dictionary-counts",
            format!("detailed_stats(): labels {} types {} keys {}; db accessors {lc} / {tc} / {kc}", ds.label_count, ds.edge_type_count, ds.property_key_count),
        );
    }
    // "Number of indexes": these histories create property indexes only
    if ds.index_count != model.indexes.len() {
        if ds.index_count == 0 {
            // the listed shape (the field is a constant 0); an observation, the history goes on
            if known.is_empty() {
                known.push("c14/engine/detailed_stats/index_count-always-zero".to_string());
            }
        } else {
            return fail(
                "c14/engine/detailed_stats/index_count",
                format!("detailed_stats().index_count = {}, but has_property_index is true for {} keys ({:?})", ds.index_count, model.indexes.len(), names(&model.indexes, &KEYS)),
            );
        }
    }
    let SchemaInfo::Lpg(schema) = guard("schema", || db.schema())? else {
        return fail("c14/engine/schema/kind", "schema() of an LPG database is not SchemaInfo::Lpg");
    };
    let live_labels: BTreeSet<u8> = model.nodes.values().flat_map(|n| n.labels.iter().copied()).collect();
    let live_types: BTreeSet<u8> = model.edges.values().map(|e| e.ty).collect();
    let listed: Vec<String> = schema.labels.iter().map(|l| l.name.clone()).collect();
    check_listing("schema.labels", &listed, &names(&live_labels, &LABELS), &names(&ever.labels, &LABELS))?;
    for l in &schema.labels {
        let li = LABELS.iter().position(|x| *x == l.name).unwrap_or(99) as u8;
        let exp = model.nodes.values().filter(|n| n.labels.contains(&li)).count();
        if l.count != exp {
            return fail("c14/engine/schema/label-count", format!("schema(): label {} count {}, live nodes with the label {exp}", l.name, l.count));
        }
    }
    let listed: Vec<String> = schema.edge_types.iter().map(|t| t.name.clone()).collect();
    check_listing("schema.edge_types", &listed, &names(&live_types, &TYPES), &names(&ever.types, &TYPES))?;
    for t in &schema.edge_types {
        let ti = TYPES.iter().position(|x| *x == t.name).unwrap_or(99) as u8;
        let exp = model.edges.values().filter(|e| e.ty == ti).count();
        if t.count != exp {
            return fail("c14/engine/schema/edge-type-count", format!("schema(): edge type {} count {}, live edges of the type {exp}", t.name, t.count));
        }
    }
    let mut sk = schema.property_keys.clone();
    sk.sort();
    let mut ak = db.store().all_property_keys();
    ak.sort();
    if sk != ak {
        return fail("c14/engine/schema/property-keys", format!("schema().property_keys {sk:?}, store.all_property_keys {ak:?}"));
    }
    Ok(())
}
