//! `statistics/collector.rs`: `StatisticsCollector` → `ColumnStatistics` (+ the equi-depth `Histogram` it builds)
//! against the figures' definitions over a scan of the same column.
//!
//! `StatisticsCollector` is `pub` inside a private module and not re-exported, so no crate outside grafeo-core can name
//! it. The two source files are therefore compiled into the harness verbatim with `#[path]` (nothing in /repo is
//! touched; a change to either file is picked up by the next build like any other change under /repo).
//!
//! Columns are (a) generated value vectors of one kind or mixed, with nulls, and (b) the values of one node property
//! (Null where a node lacks it) read by a scan of an `LpgStore` after a generated C14 history, optionally restricted to a
//! label — the expected figures of (b) come from the abstract model, not from the store.
//!
//! What is asserted is what the field docs state (`total_count` "including nulls", `null_count`, `distinct_count`
//! "number of distinct values", min / max, "most common values with their frequencies", bucket `lower`/`upper`
//! "inclusive", `row_count` "number of values in this bucket", "buckets of roughly equal row counts") and nothing about
//! the selectivity estimates. Where value equality is ambiguous (NaN, ±0.0) the figure is only bounded.

#![allow(clippy::all)]

use std::collections::{BTreeMap, BTreeSet};

use proptest::collection::vec;
use proptest::prelude::*;
use serde::{Deserialize, Serialize};

use grafeo_common::types::{PropertyKey, Value};
use grafeo_core::graph::lpg::LpgStore;

use crate::driver::{CaseResult, Failure, catch, fail, guard, hash_dbg, ok_with_known};

use super::generate::{Op, ops_strategy, value};
use super::model::{KEYS, LABELS, Model, V, apply_model, vcmp, veq};
use super::store::{IdMap, apply_store, from_value, to_value};

#[allow(dead_code, unused_imports, unused_variables)]
mod src {
    #[path = "/repo/crates/grafeo-core/src/statistics/histogram.rs"]
    pub mod histogram;
    #[path = "/repo/crates/grafeo-core/src/statistics/collector.rs"]
    pub mod collector;
}

use src::collector::{ColumnStatistics, StatisticsCollector};

#[derive(Clone, Debug, PartialEq, Serialize, Deserialize)]
pub enum Column {
    Values { kind: u8, vals: Vec<V> },
    History { ops: Vec<Op>, key: u8, label: Option<u8> },
}

#[derive(Clone, Debug, PartialEq, Serialize, Deserialize)]
pub struct CollectCase {
    pub col: Column,
    pub buckets: u8,
    pub mcv: u8,
}

const KINDS: [&str; 9] = ["small-int", "wide-int", "float", "float-edges", "string", "bool", "int+float", "mixed", "bytes+vector"];

fn column_value(kind: u8) -> BoxedStrategy<V> {
    let two53 = 1i64 << 53;
    let base: BoxedStrategy<V> = match kind % 9 {
        0 => (-3i64..8).prop_map(V::Int).boxed(),
        1 => prop_oneof![
            4 => any::<i64>().prop_map(V::Int),
            2 => (-1000i64..1000).prop_map(|i| V::Int(i * 1_000_003)),
            1 => prop_oneof![Just(V::Int(i64::MIN)), Just(V::Int(i64::MAX)), Just(V::Int(two53 + 1)), Just(V::Int(-two53 - 1))],
        ]
        .boxed(),
        2 => prop_oneof![4 => (-40i64..40).prop_filter("zero", |i| *i != 0).prop_map(|i| V::f(i as f64 / 4.0)), 1 => (1i64..1000).prop_map(|i| V::f(i as f64 * 1e300 / 1000.0)), 1 => Just(V::f(f64::MIN_POSITIVE))].boxed(),
        3 => prop_oneof![
            3 => (-6i64..6).prop_map(|i| V::f(i as f64 / 2.0)),
            2 => Just(V::f(-0.0)),
            2 => Just(V::f(f64::NAN)),
            1 => Just(V::F(0x7ff8_0000_0000_0001)),
            1 => Just(V::f(f64::INFINITY)),
            1 => Just(V::f(f64::NEG_INFINITY)),
        ]
        .boxed(),
        4 => prop_oneof![
            Just(""), Just("a"), Just("b"), Just("ab"), Just("a\"b"), Just("q\"))"), Just("String("), Just("\u{e9}"), Just("back\\slash"), Just("line\nbreak"), Just("Int64(7)"), Just("tab\t"), Just("z")
        ]
        .prop_map(|s| V::Str(s.to_string()))
        .boxed(),
        5 => any::<bool>().prop_map(V::Bool).boxed(),
        6 => prop_oneof![1 => (-4i64..6).prop_map(V::Int), 1 => (-8i64..12).prop_map(|i| V::f(i as f64 / 2.0)), 1 => (1i64..40).prop_map(|i| V::f(i as f64 + 0.25))].boxed(),
        7 => value(),
        _ => prop_oneof![
            3 => vec(0u8..3, 0..3).prop_map(V::Bytes),
            3 => vec(prop_oneof![Just(0.5f32), Just(1.0f32), Just(2.0f32)], 0..3).prop_map(|v| V::Vector(v.into_iter().map(f32::to_bits).collect())),
            1 => (0i64..3).prop_map(V::Ts),
        ]
        .boxed(),
    };
    prop_oneof![9 => base, 1 => Just(V::Null)].boxed()
}

pub fn collect_case(max_len: usize, max_hist: usize) -> BoxedStrategy<CollectCase> {
    let len = prop_oneof![2 => 0usize..=3, 4 => 3usize..=24, 3 => 24usize..=120, 2 => 120usize..=max_len.max(121)];
    let values = (0u8..9, len).prop_flat_map(|(kind, n)| vec(column_value(kind), n).prop_map(move |vals| Column::Values { kind, vals }));
    let history = (ops_strategy(max_hist), 0u8..4, proptest::option::weighted(0.4, 0u8..3)).prop_map(|(ops, key, label)| Column::History { ops, key, label });
    (prop_oneof![4 => values.boxed(), 1 => history.boxed()], prop_oneof![1 => Just(0u8), 2 => 1u8..=4, 3 => 5u8..=16, 1 => 17u8..=64], 0u8..8)
        .prop_map(|(col, buckets, mcv)| CollectCase { col, buckets, mcv })
        .boxed()
}

/// NaN → one canonical NaN, −0.0 → 0.0, at any depth: the coarsest reading of "equal values".
fn coarse(v: &V) -> V {
    match v {
        V::F(b) => {
            let x = f64::from_bits(*b);
            if x.is_nan() {
                V::f(f64::NAN)
            } else if x == 0.0 {
                V::f(0.0)
            } else {
                v.clone()
            }
        }
        V::Vector(xs) => V::Vector(
            xs.iter()
                .map(|b| {
                    let x = f32::from_bits(*b);
                    if x.is_nan() {
                        f32::NAN.to_bits()
                    } else if x == 0.0 {
                        0f32.to_bits()
                    } else {
                        *b
                    }
                })
                .collect(),
        ),
        V::List(l) => V::List(l.iter().map(coarse).collect()),
        V::Map(m) => V::Map(m.iter().map(|(k, v)| (k.clone(), coarse(v))).collect()),
        _ => v.clone(),
    }
}

fn is_nan(v: &V) -> bool {
    matches!(v, V::F(b) if f64::from_bits(*b).is_nan())
}

/// Exact comparison of two numeric values (no rounding of big integers through f64).
fn exact_cmp(a: &V, b: &V) -> Option<std::cmp::Ordering> {
    match (a, b) {
        (V::Int(x), V::F(y)) => {
            let y = f64::from_bits(*y);
            if y.is_nan() {
                None
            } else if y >= 9.3e18 {
                Some(std::cmp::Ordering::Less)
            } else if y <= -9.3e18 {
                Some(std::cmp::Ordering::Greater)
            } else {
                // |y| < 2^63.x: compare integer parts exactly, then the fraction
                let yi = y.trunc() as i128;
                Some((i128::from(*x)).cmp(&yi).then_with(|| 0.0f64.partial_cmp(&(y - y.trunc())).unwrap()))
            }
        }
        (V::F(_), V::Int(_)) => exact_cmp(b, a).map(std::cmp::Ordering::reverse),
        _ => vcmp(a, b),
    }
}

/// The scanned column: values in scan order (store order for histories), `Null` = absent.
fn column_of(case: &CollectCase) -> Result<(Vec<V>, String), Failure> {
    match &case.col {
        Column::Values { kind, vals } => Ok((vals.clone(), KINDS[usize::from(*kind % 9)].to_string())),
        Column::History { ops, key, label } => {
            let store = guard("LpgStore::new", LpgStore::new)?;
            let mut model = Model::new(true);
            let mut ids = IdMap::new();
            for op in ops {
                let cmd = model.resolve(op);
                apply_store(&store, &cmd, &mut ids)?;
                apply_model(&mut model, &cmd);
            }
            let k = *key % 4;
            let pk = PropertyKey::new(KEYS[usize::from(k)]);
            // the scan: every live node (of the label), its value of the key or Null
            let nodes = guard("scan", || match label {
                Some(l) => store.nodes_with_label(LABELS[usize::from(*l % 3)]).collect::<Vec<_>>(),
                None => store.all_nodes().collect::<Vec<_>>(),
            })?;
            let got: Vec<V> = nodes.iter().map(|n| n.properties.get(&pk).map_or(V::Null, from_value)).collect();
            // the model's column (as a multiset — scan order is the store's business)
            let mut exp: Vec<V> = model
                .nodes
                .values()
                .filter(|n| label.is_none_or(|l| n.labels.contains(&(l % 3))))
                .map(|n| n.props.get(&k).cloned().unwrap_or(V::Null))
                .collect();
            let mut g = got.clone();
            g.sort();
            exp.sort();
            if g != exp {
                return fail("c14/collector/history/scan-differs-from-model", format!("scan of key {} (label {label:?}) gives {g:?}, model {exp:?}", KEYS[usize::from(k)]));
            }
            Ok((got, "history".to_string()))
        }
    }
}

pub fn check_collect(case: &CollectCase) -> CaseResult {
    let (col, kind) = column_of(case)?;
    let nn: Vec<&V> = col.iter().filter(|v| !matches!(v, V::Null)).collect();
    let n_null = col.len() - nn.len();
    let (buckets, mcv) = (usize::from(case.buckets), usize::from(case.mcv));
    let mut known: Vec<String> = Vec::new();

    // shape of the column
    let any_nan = nn.iter().any(|v| is_nan(v));
    let comparable = !any_nan && nn.iter().all(|a| vcmp(a, nn[0]).is_some());
    let single_type = comparable && nn.iter().all(|a| std::mem::discriminant(*a) == std::mem::discriminant(nn[0]));
    let numeric = nn.iter().all(|v| matches!(v, V::Int(_) | V::F(_)));

    let stats: ColumnStatistics = match catch(|| {
        let mut c = StatisticsCollector::new();
        for v in &col {
            c.add(to_value(v));
        }
        c.build(buckets, mcv)
    }) {
        Ok(s) => s,
        Err(p) => {
            let sig = if !comparable && p.msg.contains("total order") { "c14/collector/build/sort-panics-on-unordered-column".to_string() } else { p.signature() };
            return fail(sig, format!("StatisticsCollector over {} values ({} non-null, {kind}) panicked at {}: {}", col.len(), nn.len(), p.file, p.msg));
        }
    };

    // ---- counts ----
    if stats.total_count != col.len() as u64 {
        return fail("c14/collector/total_count", format!("total_count {}, the column has {} values", stats.total_count, col.len()));
    }
    if stats.null_count != n_null as u64 {
        return fail("c14/collector/null_count", format!("null_count {}, the column has {n_null} nulls", stats.null_count));
    }
    // ---- distinct ----
    let finest: BTreeSet<&V> = nn.iter().copied().collect();
    let coarsest: BTreeSet<V> = nn.iter().map(|v| coarse(v)).collect();
    let d = stats.distinct_count as usize;
    if d < coarsest.len() || d > finest.len() {
        // the shape of the known defect: distinct values counted by their Debug rendering, which abbreviates Bytes and
        // Vector to "first element; length"
        let by_debug: BTreeSet<String> = nn.iter().map(|v| format!("{:?}", to_value(v))).collect();
        if d == by_debug.len() && d < coarsest.len() {
            known.push("c14/collector/distinct_count/counts-debug-renderings".to_string());
        } else {
            return fail("c14/collector/distinct_count", format!("distinct_count {d}, the column has between {} and {} distinct values ({kind})", coarsest.len(), finest.len()));
        }
    }
    // ---- min / max ----
    match (&stats.min_value, &stats.max_value) {
        (None, None) if nn.is_empty() => {}
        (Some(mn), Some(mx)) if !nn.is_empty() => {
            let (mn, mx) = (from_value(mn), from_value(mx));
            if !nn.iter().any(|v| **v == mn) || !nn.iter().any(|v| **v == mx) {
                return fail("c14/collector/min-max/not-a-column-value", format!("min {mn:?} max {mx:?} are not both values of the column"));
            }
            if comparable {
                // no value may be strictly below the minimum / above the maximum; Int-vs-Float pairs at |x| >= 2^53 are
                // judged on their f64 images (the documented comparison of the collector casts the integer)
                let big_mixed = !single_type && nn.iter().any(|v| matches!(v, V::Int(i) if i.unsigned_abs() >= (1 << 53)));
                let cmp = |a: &V, b: &V| if big_mixed { vcmp(a, b) } else { exact_cmp(a, b) };
                for w in nn.iter().copied() {
                    if cmp(w, &mn) == Some(std::cmp::Ordering::Less) {
                        return fail("c14/collector/min/not-minimal", format!("min_value {mn:?}, but the column holds {w:?}"));
                    }
                    if cmp(w, &mx) == Some(std::cmp::Ordering::Greater) {
                        return fail("c14/collector/max/not-maximal", format!("max_value {mx:?}, but the column holds {w:?}"));
                    }
                }
            }
        }
        (mn, mx) => return fail("c14/collector/min-max/presence", format!("min {mn:?} max {mx:?} for a column with {} non-null values", nn.len())),
    }
    // ---- average (numeric columns without NaN / infinities) ----
    if nn.is_empty() {
        if stats.avg_value.is_some() {
            return fail("c14/collector/avg/of-nothing", format!("avg_value {:?} for a column without non-null values", stats.avg_value));
        }
    } else if numeric {
        let xs: Vec<f64> = nn.iter().map(|v| match v {
            V::Int(i) => *i as f64,
            V::F(b) => f64::from_bits(*b),
            _ => unreachable!(),
        }).collect();
        let abs: f64 = xs.iter().map(|x| x.abs()).sum();
        if xs.iter().all(|x| x.is_finite()) && abs.is_finite() {
            let mean = xs.iter().sum::<f64>() / xs.len() as f64;
            let tol = 1e-9 * (abs / xs.len() as f64) + f64::MIN_POSITIVE;
            match stats.avg_value {
                Some(a) if (a - mean).abs() <= tol => {}
                other => return fail("c14/collector/avg", format!("avg_value {other:?}, the mean of the {} numeric values is {mean}", xs.len())),
            }
        }
    }
    // ---- histogram ----
    match &stats.histogram {
        None => {
            if nn.len() >= buckets.max(1) {
                return fail("c14/collector/histogram/absent", format!("no histogram for {} non-null values and {buckets} requested buckets", nn.len()));
            }
        }
        Some(h) => {
            let bs = h.buckets();
            let rows: u64 = bs.iter().map(|b| b.row_count).sum();
            if h.total_rows() != nn.len() as u64 || rows != nn.len() as u64 {
                return fail("c14/collector/histogram/total-rows", format!("total_rows {} (bucket row counts sum to {rows}), the column has {} non-null values", h.total_rows(), nn.len()));
            }
            if h.bucket_count() != bs.len() || bs.len() > buckets.max(1) || (bs.is_empty() != nn.is_empty()) {
                return fail("c14/collector/histogram/bucket-count", format!("{} buckets ({} reported) for {} values, {buckets} requested", bs.len(), h.bucket_count(), nn.len()));
            }
            if let (Some(lo), Some(hi)) = (bs.iter().map(|b| b.row_count).min(), bs.iter().map(|b| b.row_count).max()) {
                // equi-depth: "buckets of roughly equal row counts" — all but one bucket get floor(n / b) rows
                if lo == 0 || hi - lo >= bs.len() as u64 {
                    return fail("c14/collector/histogram/not-equi-depth", format!("bucket row counts {:?} for {} values", bs.iter().map(|b| b.row_count).collect::<Vec<_>>(), nn.len()));
                }
            }
            for b in bs {
                if b.distinct_count == 0 || b.distinct_count > b.row_count {
                    return fail("c14/collector/histogram/bucket-distinct", format!("bucket {:?}..{:?}: distinct_count {} with row_count {}", b.lower, b.upper, b.distinct_count, b.row_count));
                }
            }
            // every value lies in some bucket (the inclusive bounds), judged by the harness's own comparison
            let bounds: Vec<(V, V)> = bs.iter().map(|b| (from_value(&b.lower), from_value(&b.upper))).collect();
            for v in &nn {
                let inside = bounds.iter().any(|(lo, hi)| vcmp(v, lo) != Some(std::cmp::Ordering::Less) && vcmp(v, hi) != Some(std::cmp::Ordering::Greater));
                if !inside {
                    let sig = if comparable { "c14/collector/histogram/value-outside-every-bucket" } else { "c14/collector/histogram/value-outside-every-bucket/unordered-column" };
                    return fail(sig, format!("{v:?} lies in none of the buckets {bounds:?}"));
                }
            }
            if comparable {
                // buckets are consecutive slices of the sorted column
                let mut sorted: Vec<&V> = nn.clone();
                sorted.sort_by(|a, b| vcmp(a, b).unwrap());
                let mut at = 0usize;
                for (i, b) in bs.iter().enumerate() {
                    let end = at + b.row_count as usize;
                    let (lo, hi) = &bounds[i];
                    let eq = |a: &V, b: &V| vcmp(a, b) == Some(std::cmp::Ordering::Equal);
                    if !eq(lo, sorted[at]) || !eq(hi, sorted[end - 1]) {
                        return fail(
                            "c14/collector/histogram/bucket-bounds",
                            format!("bucket {i} [{lo:?}, {hi:?}] with {} rows; rows {at}..{end} of the sorted column run from {:?} to {:?}", b.row_count, sorted[at], sorted[end - 1]),
                        );
                    }
                    if single_type {
                        let dd = sorted[at..end].iter().map(|v| coarse(v)).collect::<BTreeSet<_>>().len() as u64;
                        if b.distinct_count != dd {
                            return fail("c14/collector/histogram/bucket-distinct", format!("bucket {i} [{lo:?}, {hi:?}]: distinct_count {}, its {} rows hold {dd} distinct values", b.distinct_count, b.row_count));
                        }
                    }
                    at = end;
                }
            }
        }
    }
    // ---- most common values ----
    if stats.most_common.len() > mcv {
        return fail("c14/collector/most_common/too-many", format!("{} most-common values, {mcv} requested", stats.most_common.len()));
    }
    if !stats.most_common.is_empty() {
        // class counts: bitwise classes, all NaNs together (either reading gives the same k-th largest count bound below)
        let mut counts: BTreeMap<V, u64> = BTreeMap::new();
        for v in &nn {
            *counts.entry(if is_nan(v) { V::f(f64::NAN) } else { (*v).clone() }).or_insert(0) += 1;
        }
        let mut by_count: Vec<u64> = counts.values().copied().collect();
        by_count.sort_unstable_by(|a, b| b.cmp(a));
        let threshold = by_count.get(mcv.saturating_sub(1)).copied().unwrap_or(0);
        let mut last = f64::INFINITY;
        for (val, freq) in &stats.most_common {
            let v = from_value(val);
            // occurrences under value equality and under bit identity (they differ for NaN and ±0.0; either reading of
            // "the same value" is accepted)
            let cnt_eq = nn.iter().filter(|x| veq(x, &v)).count() as u64;
            let cnt_bits = nn.iter().filter(|x| ***x == v).count() as u64;
            let cnt = cnt_eq.max(cnt_bits);
            if cnt == 0 {
                // the shape of the known defect: a string column's value comes back as the Debug rendering of the Value
                let is_rendering = matches!(&v, V::Str(s) if nn.iter().any(|x| matches!(x, V::Str(_)) && (format!("{:?}", to_value(x)) == *s || format!("{:?}", to_value(x)).contains(s.as_str()))));
                if is_rendering {
                    known.push("c14/collector/most_common/string-is-debug-rendering".to_string());
                    continue;
                }
                return fail("c14/collector/most_common/not-a-column-value", format!("most_common lists {v:?}, which the column does not hold"));
            }
            let matches = |c: u64| c > 0 && (*freq - c as f64 / nn.len() as f64).abs() <= 1e-12;
            if !matches(cnt_eq) && !matches(cnt_bits) {
                return fail("c14/collector/most_common/frequency", format!("most_common gives {v:?} the frequency {freq}, it occurs {cnt} times among {} non-null values", nn.len()));
            }
            let plain = !any_nan && nn.iter().all(|x| matches!(x, V::Int(_) | V::F(_) | V::Str(_) | V::Bool(_) | V::Ts(_)));
            if plain && cnt < threshold {
                return fail("c14/collector/most_common/not-among-the-most-common", format!("{v:?} occurs {cnt} times; {mcv} values were asked for and the {mcv}-th most common occurs {threshold} times"));
            }
            if *freq > last + 1e-12 {
                return fail("c14/collector/most_common/not-descending", format!("frequencies not in descending order: {:?}", stats.most_common));
            }
            last = *freq;
        }
    }

    let class = format!("{kind}/{}", if stats.histogram.is_some() { "hist" } else { "nohist" });
    let nontrivial = nn.len() >= 8 && finest.len() >= 2 && finest.len() < nn.len() && stats.histogram.as_ref().is_some_and(|h| h.bucket_count() >= 2);
    ok_with_known(nontrivial, class, hash_dbg(case), known)
}
