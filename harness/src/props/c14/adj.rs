//! Bare `ChunkedAdjacency` against a multiset model: the only place where the delta-buffer → hot-chunk → cold
//! (compressed) path is reachable — `LpgStore` never calls `compact*` / `freeze_all` on its adjacency.

use std::collections::BTreeMap;

use proptest::collection::vec;
use proptest::prelude::*;
use serde::{Deserialize, Serialize};

use grafeo_common::types::{EdgeId, NodeId};
use grafeo_core::index::ChunkedAdjacency;

use crate::driver::{CaseResult, fail, guard, hash_dbg, ok, pick};

#[derive(Clone, Debug, PartialEq, Serialize, Deserialize)]
pub enum AOp {
    Add { src: u8, dst: u8 },
    /// `n` adds to one list, destinations `dst0, dst0+step, …` (mod 23)
    Burst { src: u8, n: u16, dst0: u8, step: u8 },
    /// soft-delete one live entry
    Del { i: u16 },
    /// soft-delete up to `n` live entries of one list, oldest (or newest) first
    DelMany { src: u8, n: u16, newest: bool },
    Compact,
    CompactIfNeeded,
    FreezeAll,
}

#[derive(Clone, Debug, PartialEq, Serialize, Deserialize)]
pub struct AdjCase {
    /// `None` = `ChunkedAdjacency::new()` (64); `Some(c)` = `with_chunk_capacity(c)`
    pub cap: Option<u8>,
    /// destinations are `dst_base + d`; base 0 only in a minority of cases (NodeId 0 in a one-entry cold chunk
    /// is the known codec defect C15-deltabitpacked-single-zero)
    pub dst_base: u8,
    pub ops: Vec<AOp>,
}

pub fn adj_case(max_len: usize, max_burst: u16) -> BoxedStrategy<AdjCase> {
    let burst_n = prop_oneof![
        2 => 1u16..20,
        3 => 60u16..70,
        2 => 120u16..136,
        2 => 250u16..=300u16.min(max_burst).max(251),
        1 => 300u16.min(max_burst)..=max_burst,
    ];
    let op = prop_oneof![
        20 => (0u8..4, 0u8..23).prop_map(|(src, dst)| AOp::Add { src, dst }),
        8 => (0u8..4, burst_n, 0u8..23, 0u8..4).prop_map(|(src, n, dst0, step)| AOp::Burst { src, n, dst0, step }),
        14 => any::<u16>().prop_map(|i| AOp::Del { i }),
        4 => (0u8..4, 1u16..140, any::<bool>()).prop_map(|(src, n, newest)| AOp::DelMany { src, n, newest }),
        8 => Just(AOp::Compact),
        6 => Just(AOp::CompactIfNeeded),
        3 => Just(AOp::FreezeAll),
    ]
    .boxed();
    let len = prop_oneof![3 => 1usize..12, 5 => 12usize..50, 2 => 50usize..=max_len.max(51)];
    (
        prop_oneof![6 => Just(None), 1 => Just(Some(1u8)), 1 => Just(Some(2u8)), 1 => Just(Some(3u8)), 1 => Just(Some(8u8))],
        prop_oneof![6 => Just(1u8), 1 => Just(0u8)],
        len.prop_flat_map(move |n| vec(op.clone(), n)),
    )
        .prop_map(|(cap, dst_base, ops)| AdjCase { cap, dst_base, ops })
        .boxed()
}

#[derive(Clone, Copy, Debug)]
struct Entry {
    dst: u64,
    eid: u64,
    deleted: bool,
}

pub fn check(case: &AdjCase) -> CaseResult {
    let adj = match case.cap {
        None => guard("new", ChunkedAdjacency::new)?,
        Some(c) => guard("with_chunk_capacity", || ChunkedAdjacency::with_chunk_capacity(usize::from(c.max(1))))?,
    };
    let cap = case.cap.map_or(64usize, |c| usize::from(c.max(1)));
    let mut lists: BTreeMap<u64, Vec<Entry>> = BTreeMap::new();
    let mut next_eid = 0u64;
    let mut total = 0usize;
    let mut deleted = 0usize;
    let mut compacted_big = false; // a list longer than one chunk went through compaction
    let mut del_then_add = false;
    let mut had_delete: BTreeMap<u64, bool> = BTreeMap::new();
    let mut froze = false;
    let mut cold = false; // some list had more than 4 chunks' worth compacted

    for (step, op) in case.ops.iter().enumerate() {
        match op {
            AOp::Add { src, dst } => {
                let (s, d) = (u64::from(*src), u64::from(case.dst_base) + u64::from(*dst));
                guard("add_edge", || adj.add_edge(NodeId::new(s), NodeId::new(d), EdgeId::new(next_eid)))?;
                lists.entry(s).or_default().push(Entry { dst: d, eid: next_eid, deleted: false });
                if had_delete.get(&s).copied().unwrap_or(false) {
                    del_then_add = true;
                }
                next_eid += 1;
                total += 1;
            }
            AOp::Burst { src, n, dst0, step } => {
                let s = u64::from(*src);
                for j in 0..u64::from(*n) {
                    let d = u64::from(case.dst_base) + (u64::from(*dst0) + j * u64::from(*step)) % 23;
                    guard("add_edge", || adj.add_edge(NodeId::new(s), NodeId::new(d), EdgeId::new(next_eid)))?;
                    lists.entry(s).or_default().push(Entry { dst: d, eid: next_eid, deleted: false });
                    next_eid += 1;
                    total += 1;
                }
                if had_delete.get(&s).copied().unwrap_or(false) {
                    del_then_add = true;
                }
            }
            AOp::Del { i } => {
                // precondition kept (all callers do): only an existing, not yet deleted (src, edge) pair
                let live: Vec<(u64, u64)> =
                    lists.iter().flat_map(|(s, l)| l.iter().filter(|e| !e.deleted).map(move |e| (*s, e.eid))).collect();
                if !live.is_empty() {
                    let (s, eid) = live[pick(*i, live.len())];
                    guard("mark_deleted", || adj.mark_deleted(NodeId::new(s), EdgeId::new(eid)))?;
                    for e in lists.get_mut(&s).unwrap().iter_mut().filter(|e| e.eid == eid) {
                        e.deleted = true;
                    }
                    had_delete.insert(s, true);
                    deleted += 1;
                }
            }
            AOp::DelMany { src, n, newest } => {
                let s = u64::from(*src);
                if let Some(l) = lists.get_mut(&s) {
                    let mut idx: Vec<usize> = (0..l.len()).filter(|i| !l[*i].deleted).collect();
                    if *newest {
                        idx.reverse();
                    }
                    for i in idx.into_iter().take(usize::from(*n)) {
                        let eid = l[i].eid;
                        guard("mark_deleted", || adj.mark_deleted(NodeId::new(s), EdgeId::new(eid)))?;
                        l[i].deleted = true;
                        deleted += 1;
                        had_delete.insert(s, true);
                    }
                }
            }
            AOp::Compact => {
                guard("compact", || adj.compact())?;
                if lists.values().any(|l| l.len() > cap) {
                    compacted_big = true;
                }
                if lists.values().any(|l| l.len() > 4 * cap) {
                    cold = true;
                }
            }
            AOp::CompactIfNeeded => {
                guard("compact_if_needed", || adj.compact_if_needed())?;
                if lists.values().any(|l| l.len() > cap.max(64)) {
                    compacted_big = true;
                }
                if lists.values().any(|l| l.len() >= 64 && l.len() > 4 * cap) {
                    cold = true;
                }
            }
            AOp::FreezeAll => {
                guard("freeze_all", || adj.freeze_all())?;
                froze = true;
            }
        }

        // ---- oracle after every step ----
        let after = format!("after step {step} ({op:?})");
        for s in (0u64..5).chain([77]) {
            let mut exp: Vec<(u64, u64)> =
                lists.get(&s).map(|l| l.iter().filter(|e| !e.deleted).map(|e| (e.dst, e.eid)).collect()).unwrap_or_default();
            exp.sort_unstable();
            let mut got: Vec<(u64, u64)> =
                guard("edges_from", || adj.edges_from(NodeId::new(s)))?.into_iter().map(|(n, e)| (n.as_u64(), e.as_u64())).collect();
            got.sort_unstable();
            if got != exp {
                let missing: Vec<&(u64, u64)> = exp.iter().filter(|p| !got.contains(p)).collect();
                let extra: Vec<&(u64, u64)> = got.iter().filter(|p| !exp.contains(p)).collect();
                let tomb = extra.iter().any(|p| lists.get(&s).is_some_and(|l| l.iter().any(|e| e.eid == p.1 && e.deleted)));
                let sig = if extra.is_empty() && !missing.is_empty() && missing.iter().all(|p| p.0 == 0) && (froze || cold) {
                    // known codec defect: a one-entry chunk whose only destination is NodeId(0) decodes to nothing
                    "c14/adjacency/edges_from/lost-dst0-after-compression"
                } else if !missing.is_empty() && extra.is_empty() {
                    "c14/adjacency/edges_from/missing"
                } else if tomb {
                    "c14/adjacency/edges_from/tombstoned-visible"
                } else {
                    "c14/adjacency/edges_from/mismatch"
                };
                return fail(sig, format!("{after}: edges_from({s}) missing {missing:?} extra {extra:?} (expected {} entries)", exp.len()));
            }
            let mut nb: Vec<u64> = guard("neighbors", || adj.neighbors(NodeId::new(s)))?.into_iter().map(|n| n.as_u64()).collect();
            nb.sort_unstable();
            let mut enb: Vec<u64> = exp.iter().map(|p| p.0).collect();
            enb.sort_unstable();
            if nb != enb {
                return fail("c14/adjacency/neighbors", format!("{after}: neighbors({s}) = {nb:?}, model {enb:?}"));
            }
            let od = guard("out_degree", || adj.out_degree(NodeId::new(s)))?;
            let idg = guard("in_degree", || adj.in_degree(NodeId::new(s)))?;
            if od != exp.len() || idg != exp.len() {
                return fail("c14/adjacency/degree", format!("{after}: out_degree({s}) = {od}, in_degree = {idg}, model {}", exp.len()));
            }
        }
        let t = guard("total_edge_count", || adj.total_edge_count())?;
        let a = guard("active_edge_count", || adj.active_edge_count())?;
        if t != total || a != total - deleted {
            return fail("c14/adjacency/counts", format!("{after}: total_edge_count {t} active_edge_count {a}, model {total} / {}", total - deleted));
        }
        let nc = guard("node_count", || adj.node_count())?;
        if nc != lists.len() {
            return fail("c14/adjacency/node_count", format!("{after}: node_count {nc}, model {}", lists.len()));
        }
        let ms = guard("memory_stats", || adj.memory_stats())?;
        if ms.total_entries() != total {
            let sig = if froze || cold { "c14/adjacency/memory_stats/entries-after-compression" } else { "c14/adjacency/memory_stats/entries" };
            return fail(sig, format!("{after}: memory_stats hot {} + cold {} entries, {total} were added", ms.hot_entries, ms.cold_entries));
        }
    }
    let class = match (cold || froze, compacted_big, del_then_add) {
        (true, _, true) => "cold+readd",
        (true, _, false) => "cold",
        (false, true, true) => "multi-chunk+readd",
        (false, true, false) => "multi-chunk",
        (false, false, true) => "readd",
        (false, false, false) => "plain",
    };
    ok(cold || froze || compacted_big || del_then_add, class, hash_dbg(case))
}
