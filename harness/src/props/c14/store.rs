//! Real-store side of C14: applying a `Cmd` to an `LpgStore`, and the *battery* — the cross-check of every
//! access path of the store against the abstract model.

use std::collections::{BTreeMap, BTreeSet};
use std::sync::Arc;

use grafeo_common::types::{EdgeId, NodeId, PropertyKey, Timestamp, Value};
use grafeo_core::graph::Direction;
use grafeo_core::graph::lpg::{CompareOp, LpgStore};

use crate::driver::{Failure, fail, guard};

use super::model::{Cmd, KEYS, LABELS, Model, Outcome, TYPES, UNKNOWN_BASE, V, in_range, vcmp, veq};

// ------------------------------------------------------------------------------------------------
// values
// ------------------------------------------------------------------------------------------------

pub fn to_value(v: &V) -> Value {
    match v {
        V::Null => Value::Null,
        V::Bool(b) => Value::Bool(*b),
        V::Int(i) => Value::Int64(*i),
        V::F(b) => Value::Float64(f64::from_bits(*b)),
        V::Str(s) => Value::String(s.as_str().into()),
        V::Bytes(b) => Value::Bytes(Arc::from(b.as_slice())),
        V::Ts(t) => Value::Timestamp(Timestamp::from_micros(*t)),
        V::List(l) => Value::List(l.iter().map(to_value).collect::<Vec<_>>().into()),
        V::Map(m) => Value::Map(Arc::new(m.iter().map(|(k, v)| (PropertyKey::new(k.as_str()), to_value(v))).collect())),
        V::Vector(x) => Value::Vector(x.iter().map(|b| f32::from_bits(*b)).collect::<Vec<_>>().into()),
    }
}

pub fn from_value(v: &Value) -> V {
    match v {
        Value::Null => V::Null,
        Value::Bool(b) => V::Bool(*b),
        Value::Int64(i) => V::Int(*i),
        Value::Float64(f) => V::F(f.to_bits()),
        Value::String(s) => V::Str(s.to_string()),
        Value::Bytes(b) => V::Bytes(b.to_vec()),
        Value::Timestamp(t) => V::Ts(t.as_micros()),
        Value::List(l) => V::List(l.iter().map(from_value).collect()),
        Value::Map(m) => V::Map(m.iter().map(|(k, v)| (k.as_str().to_string(), from_value(v))).collect()),
        Value::Vector(x) => V::Vector(x.iter().map(|f| f.to_bits()).collect()),
    }
}

fn key(k: u8) -> &'static str {
    KEYS[usize::from(k) % KEYS.len()]
}

fn label(l: u8) -> &'static str {
    LABELS[usize::from(l) % LABELS.len()]
}

fn etype(t: u8) -> &'static str {
    TYPES[usize::from(t) % TYPES.len()]
}

// ------------------------------------------------------------------------------------------------
// id map
// ------------------------------------------------------------------------------------------------

/// Model id ↔ store id. Model ids are dense (0, 1, 2, … in creation order); the store's are whatever it
/// returned. Ids that were never issued map to themselves (they are ≥ `UNKNOWN_BASE`).
#[derive(Clone, Debug, Default)]
pub struct IdMap {
    pub nodes: BTreeMap<u64, NodeId>,
    pub edges: BTreeMap<u64, EdgeId>,
    pub rnodes: BTreeMap<u64, u64>,
    pub redges: BTreeMap<u64, u64>,
}

impl IdMap {
    pub fn new() -> Self {
        Self::default()
    }

    pub fn node(&self, m: u64) -> NodeId {
        self.nodes.get(&m).copied().unwrap_or(NodeId::new(m.max(UNKNOWN_BASE)))
    }

    pub fn edge(&self, m: u64) -> EdgeId {
        self.edges.get(&m).copied().unwrap_or(EdgeId::new(m.max(UNKNOWN_BASE)))
    }

    /// Store id → model id; an id the map has never seen is reported as `u64::MAX - raw` so that it can never
    /// equal a model id.
    pub fn mnode(&self, s: NodeId) -> u64 {
        let raw = s.as_u64();
        match self.rnodes.get(&raw) {
            Some(m) => *m,
            None if raw >= UNKNOWN_BASE && raw < UNKNOWN_BASE + 1000 => raw,
            None => u64::MAX - raw,
        }
    }

    pub fn medge(&self, s: EdgeId) -> u64 {
        let raw = s.as_u64();
        match self.redges.get(&raw) {
            Some(m) => *m,
            None if raw >= UNKNOWN_BASE && raw < UNKNOWN_BASE + 1000 => raw,
            None => u64::MAX - raw,
        }
    }

    /// Registers a node id returned by the store; fails if the store handed out an id twice.
    pub fn bind_node(&mut self, s: NodeId) -> Result<u64, Failure> {
        let m = self.nodes.len() as u64;
        if self.rnodes.insert(s.as_u64(), m).is_some() || s.as_u64() >= UNKNOWN_BASE {
            return fail("c14/create_node/id-not-fresh", format!("create_node returned {s:?} which was issued before"));
        }
        self.nodes.insert(m, s);
        Ok(m)
    }

    pub fn bind_edge(&mut self, s: EdgeId) -> Result<u64, Failure> {
        let m = self.edges.len() as u64;
        if self.redges.insert(s.as_u64(), m).is_some() || s.as_u64() >= UNKNOWN_BASE {
            return fail("c14/create_edge/id-not-fresh", format!("create_edge returned {s:?} which was issued before"));
        }
        self.edges.insert(m, s);
        Ok(m)
    }
}

// ------------------------------------------------------------------------------------------------
// applying a command
// ------------------------------------------------------------------------------------------------

fn kv(props: &[(u8, V)]) -> Vec<(PropertyKey, Value)> {
    props.iter().map(|(k, v)| (PropertyKey::new(key(*k)), to_value(v))).collect()
}

/// Applies `cmd` to the real store through its public API and reports what the store answered.
pub fn apply_store(store: &LpgStore, cmd: &Cmd, ids: &mut IdMap) -> Result<Outcome, Failure> {
    let ctx = cmd.name();
    Ok(match cmd {
        Cmd::CreateNode { labels, props } => {
            let ls: Vec<&str> = labels.iter().map(|l| label(*l)).collect();
            let id = if props.is_empty() {
                guard(ctx, || store.create_node(&ls))?
            } else {
                let p = kv(props);
                guard(ctx, || store.create_node_with_props(&ls, p))?
            };
            Outcome::Created(ids.bind_node(id)?)
        }
        Cmd::DeleteNode { id } => {
            let n = ids.node(*id);
            Outcome::Bool(guard(ctx, || store.delete_node(n))?)
        }
        Cmd::DetachDeleteNode { id } => {
            let n = ids.node(*id);
            guard("delete_node_edges", || store.delete_node_edges(n))?;
            Outcome::Bool(guard(ctx, || store.delete_node(n))?)
        }
        Cmd::CreateEdge { src, dst, ty, props } => {
            let (s, d) = (ids.node(*src), ids.node(*dst));
            let id = if props.is_empty() {
                guard(ctx, || store.create_edge(s, d, etype(*ty)))?
            } else {
                let p = kv(props);
                guard(ctx, || store.create_edge_with_props(s, d, etype(*ty), p))?
            };
            Outcome::Created(ids.bind_edge(id)?)
        }
        Cmd::Burst { hub, others, n, incoming, ty } => {
            let mut out = Vec::with_capacity(usize::from(*n));
            for j in 0..usize::from(*n) {
                let o = ids.node(if others.is_empty() { *hub } else { others[j % others.len()] });
                let h = ids.node(*hub);
                let (s, d) = if *incoming { (o, h) } else { (h, o) };
                let id = guard(ctx, || store.create_edge(s, d, etype(*ty)))?;
                out.push(ids.bind_edge(id)?);
            }
            Outcome::CreatedMany(out)
        }
        Cmd::DeleteEdge { id } => {
            let e = ids.edge(*id);
            Outcome::Bool(guard(ctx, || store.delete_edge(e))?)
        }
        Cmd::SetNodeProp { id, key: k, val } => {
            let n = ids.node(*id);
            guard(ctx, || store.set_node_property(n, key(*k), to_value(val)))?;
            Outcome::Unit
        }
        Cmd::RemoveNodeProp { id, key: k } => {
            let n = ids.node(*id);
            Outcome::Removed(guard(ctx, || store.remove_node_property(n, key(*k)))?.as_ref().map(from_value))
        }
        Cmd::SetEdgeProp { id, key: k, val } => {
            let e = ids.edge(*id);
            guard(ctx, || store.set_edge_property(e, key(*k), to_value(val)))?;
            Outcome::Unit
        }
        Cmd::RemoveEdgeProp { id, key: k } => {
            let e = ids.edge(*id);
            Outcome::Removed(guard(ctx, || store.remove_edge_property(e, key(*k)))?.as_ref().map(from_value))
        }
        Cmd::AddLabel { id, label: l } => {
            let n = ids.node(*id);
            Outcome::Bool(guard(ctx, || store.add_label(n, label(*l)))?)
        }
        Cmd::RemoveLabel { id, label: l } => {
            let n = ids.node(*id);
            Outcome::Bool(guard(ctx, || store.remove_label(n, label(*l)))?)
        }
        Cmd::CreateIndex { key: k } => {
            guard(ctx, || store.create_property_index(key(*k)))?;
            Outcome::Unit
        }
        Cmd::DropIndex { key: k } => Outcome::Bool(guard(ctx, || store.drop_property_index(key(*k)))?),
        Cmd::ComputeStatistics => {
            guard(ctx, || store.compute_statistics())?;
            Outcome::Unit
        }
        Cmd::EnsureStatisticsFresh => {
            guard(ctx, || store.ensure_statistics_fresh())?;
            Outcome::Unit
        }
        Cmd::RebuildZoneMaps => {
            guard(ctx, || store.rebuild_zone_maps())?;
            Outcome::Unit
        }
    })
}

/// Compares the store's answer to a command with the model's. `model` is the state *after* the command.
pub fn check_outcome(cmd: &Cmd, got: &Outcome, exp: &Outcome, model: &Model) -> Result<(), Failure> {
    if got == exp {
        return Ok(());
    }
    // a property written to a deleted id (finding C14-set-property-on-deleted-id) comes back on removal
    let ghost = match cmd {
        Cmd::RemoveNodeProp { id, key } => model.ghosts.contains(&(false, *id, *key)) && !model.nodes.contains_key(id),
        Cmd::RemoveEdgeProp { id, key } => model.ghosts.contains(&(true, *id, *key)) && !model.edges.contains_key(id),
        _ => false,
    };
    let sig = if ghost && matches!((got, exp), (Outcome::Removed(Some(_)), Outcome::Removed(None))) {
        format!("c14/ret/{}/ghost-of-deleted-id", cmd.name())
    } else {
        format!("c14/ret/{}", cmd.name())
    };
    fail(sig, format!("{cmd:?}: store answered {got:?}, model says {exp:?}"))
}

// ------------------------------------------------------------------------------------------------
// battery
// ------------------------------------------------------------------------------------------------

fn sorted<T: Ord>(mut v: Vec<T>) -> Vec<T> {
    v.sort();
    v
}

/// Classifies a set difference between an id list the store returned and the model's expectation.
fn diff_kind(got: &[u64], exp: &[u64], live: impl Fn(u64) -> bool, dead: impl Fn(u64) -> bool) -> Option<String> {
    let g: BTreeSet<u64> = got.iter().copied().collect();
    let e: BTreeSet<u64> = exp.iter().copied().collect();
    let dup = g.len() != got.len();
    let missing: Vec<u64> = e.difference(&g).copied().collect();
    let extra: Vec<u64> = g.difference(&e).copied().collect();
    if missing.is_empty() && extra.is_empty() {
        return if dup { Some("duplicate".into()) } else { None };
    }
    let mut parts = Vec::new();
    if !missing.is_empty() {
        parts.push("missing");
    }
    if extra.iter().any(|x| dead(*x)) {
        parts.push("extra-deleted");
    }
    if extra.iter().any(|x| live(*x)) {
        parts.push("extra-live");
    }
    if extra.iter().any(|x| !live(*x) && !dead(*x)) {
        parts.push("extra-unknown");
    }
    Some(parts.join("+"))
}

fn same_props(got: &BTreeMap<PropertyKey, Value>, exp: &BTreeMap<u8, V>) -> bool {
    let g: BTreeMap<String, V> = got.iter().map(|(k, v)| (k.as_str().to_string(), from_value(v))).collect();
    let e: BTreeMap<String, V> = exp.iter().map(|(k, v)| (key(*k).to_string(), v.clone())).collect();
    g == e
}

/// Probe values for one key: everything stored under it plus near misses (other zero, other NaN payload,
/// the same number in the other numeric type, absent values).
fn probes(present: &BTreeSet<V>, cap: usize) -> Vec<V> {
    let mut out: BTreeSet<V> = BTreeSet::new();
    for v in present.iter().take(cap) {
        out.insert(v.clone());
        match v {
            V::F(b) => {
                let x = f64::from_bits(*b);
                if x == 0.0 {
                    out.insert(V::f(0.0));
                    out.insert(V::f(-0.0));
                } else if x.is_nan() {
                    out.insert(V::f(f64::NAN));
                    out.insert(V::F(0x7ff8_0000_0000_0001));
                } else if x.fract() == 0.0 && x.abs() < 1e15 {
                    out.insert(V::Int(x as i64));
                }
            }
            V::Int(i) if i.unsigned_abs() < (1 << 54) => {
                out.insert(V::f(*i as f64));
                out.insert(V::Int(i.wrapping_add(1)));
            }
            V::List(l) if l.len() == 1 => {
                if let V::F(b) = &l[0] {
                    if f64::from_bits(*b) == 0.0 {
                        out.insert(V::List(vec![V::f(0.0)]));
                        out.insert(V::List(vec![V::f(-0.0)]));
                    }
                }
            }
            _ => {}
        }
    }
    for v in [V::Int(0), V::f(0.0), V::f(-0.0), V::f(f64::NAN), V::Null, V::Str("a".into()), V::Int(97)] {
        out.insert(v);
    }
    out.into_iter().collect()
}

/// A definite match for `op` exists among `vals` (same-type, ordered comparisons only — the cases on which
/// every evaluator agrees; NaN and cross-type pairs never count).
fn definite_match(vals: &[&V], op: CompareOp, q: &V) -> bool {
    use std::cmp::Ordering::*;
    vals.iter().any(|v| match op {
        CompareOp::Eq => veq(v, q),
        CompareOp::Ne => matches!(vcmp(v, q), Some(Less | Greater)),
        CompareOp::Lt => vcmp(v, q) == Some(Less),
        CompareOp::Le => matches!(vcmp(v, q), Some(Less | Equal)),
        CompareOp::Gt => vcmp(v, q) == Some(Greater),
        CompareOp::Ge => matches!(vcmp(v, q), Some(Greater | Equal)),
    })
}

/// Region of known finding C14-zone-map-int-float-rounding: the column's min/max summary has seen a finite Float with
/// |x| >= 2^53 (`seen_big_float`, tracked by the model — the summary never narrows) and an Int with |x| >= 2^53 is
/// stored or asked for; there the zone map's Int-vs-Float comparison (integer cast to f64) sees neighbours as equal.
fn int_float_rounding(seen_big_float: bool, present: &BTreeSet<V>, query: &[&V]) -> bool {
    let big_i = present.iter().chain(query.iter().copied()).any(|v| matches!(v, V::Int(i) if i.unsigned_abs() >= (1 << 53)));
    seen_big_float && big_i
}

const OPS: [(CompareOp, &str); 6] = [
    (CompareOp::Eq, "eq"),
    (CompareOp::Ne, "ne"),
    (CompareOp::Lt, "lt"),
    (CompareOp::Le, "le"),
    (CompareOp::Gt, "gt"),
    (CompareOp::Ge, "ge"),
];

/// The full cross-check of every access path of `store` against `model`. `Err` carries a signature naming the
/// accessor and the shape of the disagreement.
pub fn battery(store: &LpgStore, model: &Model, ids: &IdMap) -> Result<(), Failure> {
    let live_n = |m: u64| model.nodes.contains_key(&m);
    let dead_n = |m: u64| model.dead_nodes.contains(&m);
    let live_e = |m: u64| model.edges.contains_key(&m);
    let dead_e = |m: u64| model.dead_edges.contains(&m);
    let exp_nodes: Vec<u64> = model.live_node_ids();
    let exp_edges: Vec<u64> = model.live_edge_ids();

    // ---- counts and enumerations -------------------------------------------------------------
    let nc = guard("node_count", || store.node_count())?;
    if nc != exp_nodes.len() {
        return fail("c14/node_count", format!("node_count {nc}, model has {} live nodes", exp_nodes.len()));
    }
    let ec = guard("edge_count", || store.edge_count())?;
    if ec != exp_edges.len() {
        return fail("c14/edge_count", format!("edge_count {ec}, model has {} live edges", exp_edges.len()));
    }
    let node_ids_raw = guard("node_ids", || store.node_ids())?;
    if !node_ids_raw.windows(2).all(|w| w[0] < w[1]) {
        return fail("c14/node_ids/not-sorted", format!("node_ids not strictly ascending: {node_ids_raw:?}"));
    }
    let node_ids: Vec<u64> = node_ids_raw.iter().map(|n| ids.mnode(*n)).collect();
    if let Some(k) = diff_kind(&node_ids, &exp_nodes, live_n, dead_n) {
        return fail(format!("c14/node_ids/{k}"), format!("node_ids {node_ids:?}, model {exp_nodes:?}"));
    }
    let all_nodes = guard("all_nodes", || store.all_nodes().collect::<Vec<_>>())?;
    let an: Vec<u64> = all_nodes.iter().map(|n| ids.mnode(n.id)).collect();
    if let Some(k) = diff_kind(&an, &exp_nodes, live_n, dead_n) {
        return fail(format!("c14/all_nodes/{k}"), format!("all_nodes {:?}, model {exp_nodes:?}", sorted(an)));
    }
    for n in &all_nodes {
        let m = ids.mnode(n.id);
        let mn = &model.nodes[&m];
        let ls: Vec<String> = sorted(n.labels.iter().map(|l| l.to_string()).collect());
        let el: Vec<String> = mn.labels.iter().map(|l| label(*l).to_string()).collect();
        if ls != el {
            return fail("c14/all_nodes/labels", format!("node {m}: labels {ls:?}, model {el:?}"));
        }
        if !same_props(&n.properties, &mn.props) {
            return fail("c14/all_nodes/properties", format!("node {m}: properties {:?}, model {:?}", n.properties, mn.props));
        }
    }
    let all_edges = guard("all_edges", || store.all_edges().collect::<Vec<_>>())?;
    let ae: Vec<u64> = all_edges.iter().map(|e| ids.medge(e.id)).collect();
    if let Some(k) = diff_kind(&ae, &exp_edges, live_e, dead_e) {
        return fail(format!("c14/all_edges/{k}"), format!("all_edges {:?}, model {exp_edges:?}", sorted(ae)));
    }
    for e in &all_edges {
        let m = ids.medge(e.id);
        let me = &model.edges[&m];
        if ids.mnode(e.src) != me.src || ids.mnode(e.dst) != me.dst || e.edge_type.as_str() != etype(me.ty) {
            return fail("c14/all_edges/endpoints", format!("edge {m}: {e:?}, model {me:?}"));
        }
        if !same_props(&e.properties, &me.props) {
            return fail("c14/all_edges/properties", format!("edge {m}: properties {:?}, model {:?}", e.properties, me.props));
        }
    }

    // ---- point lookups ------------------------------------------------------------------------
    for (m, mn) in &model.nodes {
        let sid = ids.node(*m);
        let Some(n) = guard("get_node", || store.get_node(sid))? else {
            return fail("c14/get_node/missing", format!("get_node({m}) is None for a live node"));
        };
        let ls: Vec<String> = sorted(n.labels.iter().map(|l| l.to_string()).collect());
        let el: Vec<String> = mn.labels.iter().map(|l| label(*l).to_string()).collect();
        if ls != el {
            return fail("c14/get_node/labels", format!("node {m}: labels {ls:?}, model {el:?}"));
        }
        if !same_props(&n.properties, &mn.props) {
            return fail("c14/get_node/properties", format!("node {m}: properties {:?}, model {:?}", n.properties, mn.props));
        }
        for (k, name) in KEYS.iter().enumerate() {
            let got = guard("get_node_property", || store.get_node_property(sid, &PropertyKey::new(*name)))?;
            let exp = mn.props.get(&(k as u8));
            if got.as_ref().map(from_value).as_ref() != exp {
                return fail("c14/get_node_property", format!("node {m}.{name}: {got:?}, model {exp:?}"));
            }
        }
    }
    for m in model.dead_nodes.iter().copied().chain([UNKNOWN_BASE, UNKNOWN_BASE + 3]) {
        let sid = ids.node(m);
        if let Some(n) = guard("get_node", || store.get_node(sid))? {
            return fail("c14/get_node/deleted-visible", format!("get_node({m}) of a deleted/unknown id returns {n:?}"));
        }
        for (k, name) in KEYS.iter().enumerate() {
            if let Some(v) = guard("get_node_property", || store.get_node_property(sid, &PropertyKey::new(*name)))? {
                let sig = if model.ghosts.contains(&(false, m, k as u8)) {
                    "c14/get_node_property/ghost-of-deleted-id"
                } else {
                    "c14/get_node_property/deleted-visible"
                };
                return fail(sig, format!("get_node_property({m}, {name}) of a deleted/unknown id returns {v:?}"));
            }
        }
    }
    for (m, me) in &model.edges {
        let sid = ids.edge(*m);
        let Some(e) = guard("get_edge", || store.get_edge(sid))? else {
            return fail("c14/get_edge/missing", format!("get_edge({m}) is None for a live edge"));
        };
        if ids.mnode(e.src) != me.src || ids.mnode(e.dst) != me.dst || e.edge_type.as_str() != etype(me.ty) {
            return fail("c14/get_edge/endpoints", format!("edge {m}: {e:?}, model {me:?}"));
        }
        if !same_props(&e.properties, &me.props) {
            return fail("c14/get_edge/properties", format!("edge {m}: properties {:?}, model {:?}", e.properties, me.props));
        }
        let t = guard("edge_type", || store.edge_type(sid))?;
        if t.as_ref().map(|s| s.as_str()) != Some(etype(me.ty)) {
            return fail("c14/edge_type", format!("edge {m}: edge_type {t:?}, model {}", etype(me.ty)));
        }
    }
    for m in model.dead_edges.iter().copied().chain([UNKNOWN_BASE]) {
        let sid = ids.edge(m);
        if let Some(e) = guard("get_edge", || store.get_edge(sid))? {
            return fail("c14/get_edge/deleted-visible", format!("get_edge({m}) of a deleted/unknown id returns {e:?}"));
        }
    }

    // ---- label index --------------------------------------------------------------------------
    for (li, name) in LABELS.iter().enumerate() {
        let exp: Vec<u64> = model.nodes.iter().filter(|(_, n)| n.labels.contains(&(li as u8))).map(|(m, _)| *m).collect();
        let raw = guard("nodes_by_label", || store.nodes_by_label(name))?;
        if !raw.windows(2).all(|w| w[0] < w[1]) {
            return fail("c14/nodes_by_label/not-sorted", format!("nodes_by_label({name}) = {raw:?}"));
        }
        let got: Vec<u64> = raw.iter().map(|n| ids.mnode(*n)).collect();
        if let Some(k) = diff_kind(&got, &exp, live_n, dead_n) {
            return fail(format!("c14/nodes_by_label/{k}"), format!("nodes_by_label({name}) = {got:?}, model {exp:?}"));
        }
        let it: Vec<u64> = guard("nodes_with_label", || store.nodes_with_label(name).map(|n| ids.mnode(n.id)).collect())?;
        if let Some(k) = diff_kind(&it, &exp, live_n, dead_n) {
            return fail(format!("c14/nodes_with_label/{k}"), format!("nodes_with_label({name}) = {it:?}, model {exp:?}"));
        }
    }
    let z = guard("nodes_by_label", || store.nodes_by_label("Z"))?;
    if !z.is_empty() {
        return fail("c14/nodes_by_label/unknown-label", format!("nodes_by_label(Z) = {z:?}"));
    }
    for (ti, name) in TYPES.iter().enumerate() {
        let exp: Vec<u64> = model.edges.iter().filter(|(_, e)| e.ty == ti as u8).map(|(m, _)| *m).collect();
        let got: Vec<u64> = guard("edges_with_type", || store.edges_with_type(name).map(|e| ids.medge(e.id)).collect())?;
        if let Some(k) = diff_kind(&got, &exp, live_e, dead_e) {
            return fail(format!("c14/edges_with_type/{k}"), format!("edges_with_type({name}) = {:?}, model {exp:?}", sorted(got)));
        }
    }

    // ---- adjacency ----------------------------------------------------------------------------
    let out = model.out_edges();
    let inn = model.in_edges();
    let mut probe_nodes: BTreeSet<u64> = model.nodes.keys().copied().collect();
    probe_nodes.extend(model.dead_nodes.iter().copied());
    probe_nodes.extend(out.keys().copied());
    probe_nodes.extend(inn.keys().copied());
    probe_nodes.insert(UNKNOWN_BASE + 2);
    // without backward adjacency `edges_to` / `in_degree` scan all edges: bound the work on big graphs
    let scan_budget_exceeded = !model.backward && probe_nodes.len() * exp_edges.len() > 30_000;
    let in_sample: BTreeSet<u64> = if scan_budget_exceeded {
        let mut s: BTreeSet<u64> = BTreeSet::new();
        let mut by_deg: Vec<(usize, u64)> = inn.iter().map(|(n, v)| (v.len(), *n)).collect();
        by_deg.sort();
        s.extend(by_deg.iter().rev().take(3).map(|(_, n)| *n));
        s.extend(probe_nodes.iter().take(2).copied());
        s.extend(probe_nodes.iter().rev().take(2).copied());
        s
    } else {
        probe_nodes.clone()
    };
    let empty: Vec<(u64, u64)> = Vec::new();
    for m in &probe_nodes {
        let sid = ids.node(*m);
        let eo = sorted(out.get(m).unwrap_or(&empty).clone());
        let ei = sorted(inn.get(m).unwrap_or(&empty).clone());
        let pairs = |v: Vec<(NodeId, EdgeId)>| sorted(v.into_iter().map(|(n, e)| (ids.mnode(n), ids.medge(e))).collect::<Vec<_>>());
        let adj_kind = |got: &[(u64, u64)], exp: &[(u64, u64)]| -> String {
            let g: Vec<u64> = got.iter().map(|p| p.1).collect();
            let e: Vec<u64> = exp.iter().map(|p| p.1).collect();
            diff_kind(&g, &e, live_e, dead_e).unwrap_or_else(|| "wrong-endpoint".into())
        };

        let go = pairs(guard("edges_from", || store.edges_from(sid, Direction::Outgoing).collect())?);
        if go != eo {
            return fail(
                format!("c14/edges_from-out/{}", adj_kind(&go, &eo)),
                format!("edges_from({m}, Outgoing) = {go:?}, model {eo:?}"),
            );
        }
        let od = guard("out_degree", || store.out_degree(sid))?;
        if od != eo.len() {
            return fail("c14/out_degree", format!("out_degree({m}) = {od}, model {} ({eo:?})", eo.len()));
        }
        let no: Vec<u64> = sorted(guard("neighbors", || store.neighbors(sid, Direction::Outgoing).map(|n| ids.mnode(n)).collect())?);
        let eno: Vec<u64> = sorted(eo.iter().map(|p| p.0).collect());
        if no != eno {
            return fail("c14/neighbors-out", format!("neighbors({m}, Outgoing) = {no:?}, model {eno:?}"));
        }

        if in_sample.contains(m) {
            let gi = pairs(guard("edges_to", || store.edges_to(sid))?);
            if gi != ei {
                return fail(
                    format!("c14/edges_to/{}", adj_kind(&gi, &ei)),
                    format!("edges_to({m}) = {gi:?}, model {ei:?} (backward adjacency {})", model.backward),
                );
            }
            let id = guard("in_degree", || store.in_degree(sid))?;
            if id != ei.len() {
                return fail("c14/in_degree", format!("in_degree({m}) = {id}, model {} (backward adjacency {})", ei.len(), model.backward));
            }
        }

        let g_in = pairs(guard("edges_from", || store.edges_from(sid, Direction::Incoming).collect())?);
        let g_both = pairs(guard("edges_from", || store.edges_from(sid, Direction::Both).collect())?);
        let n_in: Vec<u64> = sorted(guard("neighbors", || store.neighbors(sid, Direction::Incoming).map(|n| ids.mnode(n)).collect())?);
        let n_both: Vec<u64> = sorted(guard("neighbors", || store.neighbors(sid, Direction::Both).map(|n| ids.mnode(n)).collect())?);
        if model.backward {
            if g_in != ei {
                return fail(
                    format!("c14/edges_from-in/{}", adj_kind(&g_in, &ei)),
                    format!("edges_from({m}, Incoming) = {g_in:?}, model {ei:?}"),
                );
            }
            let eb = sorted(eo.iter().chain(ei.iter()).copied().collect::<Vec<_>>());
            if g_both != eb {
                return fail(format!("c14/edges_from-both/{}", adj_kind(&g_both, &eb)), format!("edges_from({m}, Both) = {g_both:?}, model {eb:?}"));
            }
            let eni: Vec<u64> = sorted(ei.iter().map(|p| p.0).collect());
            if n_in != eni {
                return fail("c14/neighbors-in", format!("neighbors({m}, Incoming) = {n_in:?}, model {eni:?}"));
            }
            let enb: Vec<u64> = sorted(eb.iter().map(|p| p.0).collect());
            if n_both != enb {
                return fail("c14/neighbors-both", format!("neighbors({m}, Both) = {n_both:?}, model {enb:?}"));
            }
        } else {
            // no backward adjacency: incoming traversal through neighbors()/edges_from() is not offered by this
            // configuration ("turn off if you only traverse outgoing edges"): the answer may be empty, or the truth
            // (a scan fallback like edges_to has), never anything else
            if !(g_in.is_empty() || g_in == ei) {
                return fail("c14/no-backward/edges_from-in", format!("edges_from({m}, Incoming) = {g_in:?} without backward adjacency, incoming edges are {ei:?}"));
            }
            let eni: Vec<u64> = sorted(ei.iter().map(|p| p.0).collect());
            if !(n_in.is_empty() || n_in == eni) {
                return fail("c14/no-backward/neighbors-in", format!("neighbors({m}, Incoming) = {n_in:?} without backward adjacency, model {eni:?}"));
            }
            let eb = sorted(eo.iter().chain(g_in.iter()).copied().collect::<Vec<_>>());
            let enb: Vec<u64> = sorted(eno.iter().chain(n_in.iter()).copied().collect());
            if g_both != eb || n_both != enb {
                return fail("c14/no-backward/both", format!("edges_from({m}, Both) = {g_both:?}, outgoing {eo:?} + incoming as reported {g_in:?}"));
            }
        }
    }

    // ---- property lookups ---------------------------------------------------------------------
    for (ki, name) in KEYS.iter().enumerate() {
        let k = ki as u8;
        let pk = PropertyKey::new(*name);
        let holders: Vec<(u64, &V)> = model.nodes.iter().filter_map(|(m, n)| n.props.get(&k).map(|v| (*m, v))).collect();
        let present: BTreeSet<V> = holders.iter().map(|(_, v)| (*v).clone()).collect();
        let vals: Vec<&V> = holders.iter().map(|(_, v)| *v).collect();
        let indexed = model.indexes.contains(&k);
        let has = guard("has_property_index", || store.has_property_index(name))?;
        if has != indexed {
            return fail("c14/has_property_index", format!("has_property_index({name}) = {has}, model {indexed}"));
        }
        let pr = probes(&present, 14);
        for q in &pr {
            let exp: Vec<u64> = holders.iter().filter(|(_, v)| veq(v, q)).map(|(m, _)| *m).collect();
            let qv = to_value(q);
            // pruning first: it must never rule out an existing match
            for (op, opname) in OPS {
                if definite_match(&vals, op, q) && !guard("node_property_might_match", || store.node_property_might_match(&pk, op, &qv))? {
                    return fail(
                        if int_float_rounding(model.big_float_seen.contains(&(false, k)), &present, &[q]) {
                            format!("c14/might_match/int-float-rounding-2^53/{opname}")
                        } else {
                            format!("c14/might_match/{opname}/false-negative")
                        },
                        format!("node_property_might_match({name}, {opname}, {q:?}) = false but the column holds {present:?}"),
                    );
                }
            }
            let got: Vec<u64> = guard("find_nodes_by_property", || store.find_nodes_by_property(name, &qv))?.iter().map(|n| ids.mnode(*n)).collect();
            if let Some(kind) = diff_kind(&got, &exp, live_n, dead_n) {
                let bitwise: Vec<u64> = holders.iter().filter(|(_, v)| *v == q).map(|(m, _)| *m).collect();
                let g: BTreeSet<u64> = got.iter().copied().collect();
                let extra_are_ghosts = g.iter().filter(|x| !exp.contains(x)).all(|x| model.ghosts.contains(&(false, *x, k)) && dead_n(*x))
                    && exp.iter().all(|x| g.contains(x));
                let sig = if indexed && extra_are_ghosts {
                    "c14/find_nodes_by_property/indexed/ghost-of-deleted-id".to_string()
                } else if indexed && sorted(got.clone()) == bitwise && q.has_float_edge() {
                    "c14/find_nodes_by_property/indexed/bitwise-float-equality".to_string()
                } else {
                    format!("c14/find_nodes_by_property/{}/{kind}", if indexed { "indexed" } else { "scan" })
                };
                return fail(sig, format!("find_nodes_by_property({name}, {q:?}) = {:?}, scan of the model = {exp:?} (index on {name}: {indexed})", sorted(got)));
            }
        }
        // ranges
        let mut bounds: Vec<V> = Vec::new();
        {
            let pv: Vec<&V> = present.iter().collect();
            if !pv.is_empty() {
                for i in [0, 1, pv.len() / 2, pv.len() - 1] {
                    if i < pv.len() && !bounds.contains(pv[i]) {
                        bounds.push(pv[i].clone());
                    }
                }
            }
            for v in [V::Int(0), V::Int(3), V::f(0.5), V::f(2.0), V::Str("a".into()), V::Int(1 << 53), V::Bool(false)] {
                if !bounds.contains(&v) {
                    bounds.push(v);
                }
            }
        }
        let mut ranges: Vec<(Option<V>, Option<V>, bool, bool)> = vec![(None, None, true, true)];
        for (i, b) in bounds.iter().enumerate() {
            ranges.push((Some(b.clone()), None, true, true));
            ranges.push((Some(b.clone()), None, false, true));
            ranges.push((None, Some(b.clone()), true, true));
            ranges.push((None, Some(b.clone()), true, false));
            ranges.push((Some(b.clone()), Some(b.clone()), true, true));
            if let Some(c) = bounds.get(i + 1) {
                if matches!(vcmp(b, c), Some(std::cmp::Ordering::Less)) {
                    ranges.push((Some(b.clone()), Some(c.clone()), i % 2 == 0, i % 3 == 0));
                } else if matches!(vcmp(c, b), Some(std::cmp::Ordering::Less)) {
                    ranges.push((Some(c.clone()), Some(b.clone()), i % 2 == 0, i % 3 == 0));
                }
            }
        }
        for (lo, hi, li, hi_incl) in &ranges {
            let exp: Vec<u64> = holders.iter().filter(|(_, v)| in_range(v, lo.as_ref(), hi.as_ref(), *li, *hi_incl)).map(|(m, _)| *m).collect();
            let (lov, hiv) = (lo.as_ref().map(to_value), hi.as_ref().map(to_value));
            let got: Vec<u64> = guard("find_nodes_in_range", || store.find_nodes_in_range(name, lov.as_ref(), hiv.as_ref(), *li, *hi_incl))?
                .iter()
                .map(|n| ids.mnode(*n))
                .collect();
            if let Some(kind) = diff_kind(&got, &exp, live_n, dead_n) {
                let bounds_q: Vec<&V> = lo.iter().chain(hi.iter()).collect();
                let sig = if got.is_empty() && int_float_rounding(model.big_float_seen.contains(&(false, k)), &present, &bounds_q) {
                    "c14/find_nodes_in_range/int-float-rounding-2^53".to_string()
                } else if got.is_empty() {
                    "c14/find_nodes_in_range/pruned-existing-match".to_string()
                } else {
                    format!("c14/find_nodes_in_range/{kind}")
                };
                return fail(
                    sig,
                    format!("find_nodes_in_range({name}, {lo:?}, {hi:?}, {li}, {hi_incl}) = {:?}, scan of the model = {exp:?}; column holds {present:?}", sorted(got)),
                );
            }
        }
    }

    // conjunctions
    {
        let all: Vec<u64> = guard("find_nodes_by_properties", || store.find_nodes_by_properties(&[]))?.iter().map(|n| ids.mnode(*n)).collect();
        if let Some(kind) = diff_kind(&all, &exp_nodes, live_n, dead_n) {
            return fail(format!("c14/find_nodes_by_properties/empty/{kind}"), format!("find_nodes_by_properties([]) = {all:?}, model {exp_nodes:?}"));
        }
        let with_props: Vec<(&u64, &super::model::MNode)> = model.nodes.iter().filter(|(_, n)| !n.props.is_empty()).collect();
        let mut conds: Vec<Vec<(u8, V)>> = Vec::new();
        if !with_props.is_empty() {
            for i in [0, with_props.len() / 2, with_props.len() - 1] {
                let n = with_props[i].1;
                let c: Vec<(u8, V)> = n.props.iter().take(2).map(|(k, v)| (*k, v.clone())).collect();
                // and the same with the second condition first (start-condition choice differs)
                let mut r = c.clone();
                r.reverse();
                // and with a second condition that cannot hold
                let mut x = c.clone();
                x.push(((c[0].0 + 1) % 4, V::Int(97)));
                for cc in [c, r, x] {
                    if !conds.contains(&cc) {
                        conds.push(cc);
                    }
                }
            }
        }
        for c in &conds {
            let exp: Vec<u64> =
                model.nodes.iter().filter(|(_, n)| c.iter().all(|(k, v)| n.props.get(k).is_some_and(|pv| veq(pv, v)))).map(|(m, _)| *m).collect();
            let cv: Vec<(&str, Value)> = c.iter().map(|(k, v)| (key(*k), to_value(v))).collect();
            let got: Vec<u64> = guard("find_nodes_by_properties", || store.find_nodes_by_properties(&cv))?.iter().map(|n| ids.mnode(*n)).collect();
            if let Some(kind) = diff_kind(&got, &exp, live_n, dead_n) {
                let any_indexed = c.iter().any(|(k, _)| model.indexes.contains(k));
                let float_edge = c.iter().any(|(_, v)| v.has_float_edge());
                let bitwise: Vec<u64> = model
                    .nodes
                    .iter()
                    .filter(|(_, n)| c.iter().all(|(k, v)| n.props.get(k).is_some_and(|pv| if model.indexes.contains(k) { pv == v } else { veq(pv, v) })))
                    .map(|(m, _)| *m)
                    .collect();
                let g: BTreeSet<u64> = got.iter().copied().collect();
                let extra_are_ghosts = exp.iter().all(|x| g.contains(x))
                    && g.iter().filter(|x| !exp.contains(x)).all(|x| dead_n(*x) && c.iter().any(|(k, _)| model.ghosts.contains(&(false, *x, *k))));
                let sig = if any_indexed && extra_are_ghosts {
                    "c14/find_nodes_by_properties/indexed/ghost-of-deleted-id".to_string()
                } else if any_indexed && float_edge && (sorted(got.clone()) == bitwise || got.is_empty()) {
                    "c14/find_nodes_by_properties/indexed/bitwise-float-equality".to_string()
                } else {
                    format!("c14/find_nodes_by_properties/{}/{kind}", if any_indexed { "indexed" } else { "scan" })
                };
                return fail(sig, format!("find_nodes_by_properties({c:?}) = {:?}, scan of the model = {exp:?} (indexes: {:?})", sorted(got), model.indexes));
            }
        }
    }

    // edge-property pruning
    for (ki, name) in KEYS.iter().enumerate() {
        let k = ki as u8;
        let pk = PropertyKey::new(*name);
        let vals: Vec<&V> = model.edges.values().filter_map(|e| e.props.get(&k)).collect();
        if vals.is_empty() {
            continue;
        }
        let present: BTreeSet<V> = vals.iter().map(|v| (*v).clone()).collect();
        for q in probes(&present, 5) {
            let qv = to_value(&q);
            for (op, opname) in OPS {
                if definite_match(&vals, op, &q) && !guard("edge_property_might_match", || store.edge_property_might_match(&pk, op, &qv))? {
                    return fail(
                        if int_float_rounding(model.big_float_seen.contains(&(true, k)), &present, &[&q]) {
                            format!("c14/edge_might_match/int-float-rounding-2^53/{opname}")
                        } else {
                            format!("c14/edge_might_match/{opname}/false-negative")
                        },
                        format!("edge_property_might_match({name}, {opname}, {q:?}) = false but the column holds {present:?}"),
                    );
                }
            }
        }
    }

    // ---- statistics ---------------------------------------------------------------------------
    if model.stats_fresh >= 1 {
        let st = guard("statistics", || store.statistics())?;
        if st.total_nodes != exp_nodes.len() as u64 || st.total_edges != exp_edges.len() as u64 {
            let which = if model.stats_fresh == 2 { "compute_statistics" } else { "ensure_statistics_fresh" };
            return fail(
                format!("c14/statistics/totals-after-{which}"),
                format!("after {which}: total_nodes {} total_edges {}, model {} / {}", st.total_nodes, st.total_edges, exp_nodes.len(), exp_edges.len()),
            );
        }
        if model.stats_fresh == 2 {
            for (li, name) in LABELS.iter().enumerate() {
                let exp = model.nodes.values().filter(|n| n.labels.contains(&(li as u8))).count() as u64;
                let got = st.get_label(name).map_or(0, |l| l.node_count);
                if got != exp {
                    return fail("c14/statistics/label-count", format!("label {name}: node_count {got}, model {exp}"));
                }
            }
            for (ti, name) in TYPES.iter().enumerate() {
                let exp = model.edges.values().filter(|e| e.ty == ti as u8).count() as u64;
                let got = st.get_edge_type(name).map_or(0, |t| t.edge_count);
                if got != exp {
                    return fail("c14/statistics/edge-type-count", format!("edge type {name}: edge_count {got}, model {exp}"));
                }
            }
        }
    }
    Ok(())
}
