//! C14 — every access path to the property graph tells the same story.
//!
//! Sub-checks
//! * `store`      generated histories on a bare `LpgStore` (epoch 0; `new()`, backward adjacency on / off), the full
//!                battery against the abstract model after **every** step, return values included, plus an
//!                index-vs-scan differential (toggle each property index, compare all lookups) at the end;
//! * `adjacency`  bare `ChunkedAdjacency` (chunk capacities 1/2/3/8/64) with compaction, threshold compaction and
//!                freezing against a multiset model after every step (`LpgStore` itself never compacts);
//! * `engine`     the same histories through `GrafeoDB`'s direct API: battery on `db.store()`, db-level
//!                find / index entry points, and `validate()` = exactly the model's dangling references; plus the
//!                catalog-level listings (`catalog::db_listings`: `info()`, `detailed_stats()`, `schema()` with per-label /
//!                per-type counts, `*_count`, `all_labels` / `all_edge_types` / `all_property_keys`, the `Statistics`
//!                maps and `estimate_*` readers) against a scan of the model — `store` runs the store-level part too;
//! * `btree_index` / `hash_index` / `trie_index`  the standalone index structures (`indexes.rs`) against plain models
//!                after every step: `BTreeIndex` over i64 / `OrderedFloat` / `String` keys with every kind of range bound,
//!                `HashIndex` + `FingerprintedHashIndex`, `TrieIndex` + `TrieIterator` + `LeapfrogJoin`;
//! * `catalog`    `grafeo_engine::catalog::Catalog` histories (three dictionaries, index definitions, constraints);
//! * `stats_collector`  `StatisticsCollector` / `ColumnStatistics` / `Histogram` (sources compiled in with `#[path]`,
//!                the collector is not exported) against the figures' definitions over a scan of the same column.
//!
//! Reusable pieces for other properties (C20): [`Op`], [`ops_strategy`], [`Model`], [`Cmd`], [`apply_model`],
//! [`apply_store`], [`IdMap`], [`battery`], [`step`].

#![allow(unused_imports, dead_code)]

pub mod adj;
pub mod catalog;
pub mod collect;
pub mod engine;
pub mod generate;
pub mod indexes;
pub mod model;
pub mod store;

use proptest::prelude::*;
use serde::{Deserialize, Serialize};

use grafeo_core::graph::lpg::{LpgStore, LpgStoreConfig};
use grafeo_engine::GrafeoDB;

use crate::driver::{CaseResult, Failure, Run, fail, guard, hash_dbg, ok};

pub use generate::{EdgeMode, GenCfg, Op, ops_strategy, ops_strategy_cfg, value};
pub use model::{Cmd, Flags, MEdge, MNode, Model, Outcome, Tgt, V, apply_model};
pub use store::{IdMap, apply_store, battery, check_outcome, from_value, to_value};

/// One step of a sequential history: resolve the op against the model, apply it to both sides, compare the
/// return values, run the battery.
pub fn step(store: &LpgStore, model: &mut Model, ids: &mut IdMap, op: &Op) -> Result<(), Failure> {
    let cmd = model.resolve(op);
    let got = apply_store(store, &cmd, ids)?;
    let exp = apply_model(model, &cmd);
    check_outcome(&cmd, &got, &exp, model)?;
    battery(store, model, ids).map_err(|f| Failure { signature: f.signature, what: format!("after {cmd:?}: {}", f.what) })
}

#[derive(Clone, Debug, PartialEq, Serialize, Deserialize)]
pub struct StoreCase {
    /// 0 = `LpgStore::new()`, 1 = `with_config(backward_edges: true)`, 2 = `with_config(backward_edges: false)`
    pub config: u8,
    /// `set_*_property` may aim at deleted ids in this history (10 % of the cases)
    #[serde(default)]
    pub set_on_dead: bool,
    pub ops: Vec<Op>,
}

fn new_store(config: u8) -> (LpgStore, bool) {
    match config {
        0 => (LpgStore::new(), true),
        1 => (LpgStore::with_config(LpgStoreConfig { backward_edges: true, initial_node_capacity: 4, initial_edge_capacity: 4 }), true),
        _ => (LpgStore::with_config(LpgStoreConfig { backward_edges: false, ..LpgStoreConfig::default() }), false),
    }
}

fn store_case(cfg: GenCfg) -> BoxedStrategy<StoreCase> {
    // a few seed nodes first, so that the early ops have something to aim at
    let seeds = proptest::collection::vec(
        (proptest::collection::vec(0u8..3, 0..=2), proptest::collection::vec((0u8..4, value()), 0..=2))
            .prop_map(|(labels, props)| Op::CreateNode { labels, props }),
        0..5,
    );
    (prop_oneof![2 => Just(0u8), 1 => Just(1u8), 2 => Just(2u8)], prop_oneof![9 => Just(false), 1 => Just(true)], seeds, ops_strategy_cfg(cfg))
        .prop_map(|(config, set_on_dead, mut s, ops)| {
            s.extend(ops);
            StoreCase { config, set_on_dead, ops: s }
        })
        .boxed()
}

/// "A property lookup through an index equals a scan for that value", literally: every lookup is taken with the
/// key's index in its current state and again with the index toggled (created from scratch / dropped).
fn index_differential(store: &LpgStore, model: &Model, ids: &IdMap) -> Result<(), Failure> {
    for (ki, name) in model::KEYS.iter().enumerate() {
        let k = ki as u8;
        let mut present: Vec<V> = model.nodes.values().filter_map(|n| n.props.get(&k).cloned()).collect();
        present.sort();
        present.dedup();
        let mut qs: Vec<V> = present.iter().take(12).cloned().collect();
        qs.extend([V::f(0.0), V::f(-0.0), V::f(f64::NAN), V::Int(0), V::Null]);
        let lookup = |q: &V| -> Result<Vec<u64>, Failure> {
            let mut r: Vec<u64> =
                guard("find_nodes_by_property", || store.find_nodes_by_property(name, &to_value(q)))?.iter().map(|n| ids.mnode(*n)).collect();
            r.sort_unstable();
            Ok(r)
        };
        let before: Vec<Vec<u64>> = qs.iter().map(&lookup).collect::<Result<_, _>>()?;
        let indexed = guard("has_property_index", || store.has_property_index(name))?;
        if indexed {
            guard("drop_property_index", || store.drop_property_index(name))?;
        } else {
            guard("create_property_index", || store.create_property_index(name))?;
        }
        let after: Vec<Vec<u64>> = qs.iter().map(&lookup).collect::<Result<_, _>>()?;
        for ((q, b), a) in qs.iter().zip(&before).zip(&after) {
            if a != b {
                let (ix, sc) = if indexed { (b, a) } else { (a, b) };
                let only_ghosts = sc.iter().all(|x| ix.contains(x))
                    && ix.iter().filter(|x| !sc.contains(x)).all(|x| model.dead_nodes.contains(x) && model.ghosts.contains(&(false, *x, k)));
                let sig = if only_ghosts {
                    "c14/index-vs-scan/ghost-of-deleted-id"
                } else if q.has_float_edge() {
                    "c14/index-vs-scan/float-edge"
                } else {
                    "c14/index-vs-scan/differs"
                };
                return fail(sig, format!("find_nodes_by_property({name}, {q:?}): with index {ix:?}, by scan {sc:?}"));
            }
        }
        // restore
        if indexed {
            guard("create_property_index", || store.create_property_index(name))?;
        } else {
            guard("drop_property_index", || store.drop_property_index(name))?;
        }
    }
    Ok(())
}

fn check_store(case: &StoreCase) -> CaseResult {
    let (store, backward) = guard("LpgStore::new", || new_store(case.config))?;
    let mut model = Model::new(backward);
    model.allow_set_on_dead = case.set_on_dead;
    let mut ids = IdMap::new();
    battery(&store, &model, &ids)?;
    let mut ever = catalog::Ever::default();
    catalog::store_listings(&store, &model, &ever)?;
    for op in &case.ops {
        ever.note(&model.resolve(op));
        step(&store, &mut model, &mut ids, op)?;
        catalog::store_listings(&store, &model, &ever).map_err(|f| Failure { signature: f.signature, what: format!("after {op:?}: {}", f.what) })?;
    }
    index_differential(&store, &model, &ids)?;
    battery(&store, &model, &ids)?;
    let class = format!("{}{}", if backward { "" } else { "nobwd/" }, model.class());
    ok(model.nontrivial(), class, hash_dbg(case))
}

fn check_engine(case: &StoreCase) -> CaseResult {
    let db = guard("GrafeoDB::new_in_memory", GrafeoDB::new_in_memory)?;
    let mut model = Model::new(true);
    model.allow_set_on_dead = case.set_on_dead;
    let mut ids = IdMap::new();
    let mut ever = catalog::Ever::default();
    let mut known: Vec<String> = Vec::new();
    catalog::db_listings(&db, &model, &ever, &mut known)?;
    for op in &case.ops {
        let cmd = model.resolve(op);
        ever.note(&cmd);
        let got = engine::apply_db(&db, &cmd, &mut ids)?;
        let exp = apply_model(&mut model, &cmd);
        // the db-level remove_* calls only say whether something was removed
        let (g, e) = match (&got, &exp) {
            (Outcome::Removed(g), Outcome::Removed(e)) if g.is_some() == e.is_some() => (Outcome::Unit, Outcome::Unit),
            _ => (got.clone(), exp.clone()),
        };
        check_outcome(&cmd, &g, &e, &model)?;
        let ctx = |f: Failure| Failure { signature: f.signature, what: format!("after {cmd:?}: {}", f.what) };
        engine::db_checks(&db, &model, &ids).map_err(ctx)?;
        catalog::db_listings(&db, &model, &ever, &mut known).map_err(ctx)?;
        battery(db.store(), &model, &ids).map_err(ctx)?;
    }
    let dangling = !model.dangling().is_empty();
    let class = format!("{}{}", if dangling { "dangling/" } else { "" }, model.class());
    crate::driver::ok_with_known(model.nontrivial(), class, hash_dbg(case), known)
}

pub fn run(r: &mut Run) {
    r.level = "exploration";
    r.rule = "histories of 1-400 generated ops (create/delete/detach-delete node, create edge incl. forced self-loops 17%, parallel 25% and \
              reversed 8% edges, bursts of 1-300 (thorough: 2000) edges on one hub, delete edge, set/remove node & edge property with \
              values of every type from a small colliding domain incl. NaN payloads, +-0.0, Int/Float twins, +-2^53+-1, add/remove label, \
              create/drop property index, compute_statistics / ensure_statistics_fresh / rebuild_zone_maps), targets picked from the \
              model's live ids with ~10% deleted/unknown ids (set_*_property: never unissued ids; deleted ids in 6% of the sets of the 10% of histories that opt in, because of known finding C14-set-property-on-deleted-id); three op-weight \
              profiles (mixed / hub / index-heavy); LpgStore::new(), backward adjacency on and off; full battery after every step. \
              Non-trivial = some adjacency list exceeds 64 entries, or a label / property / (src,dst) pair is re-added after removal, or \
              an indexed property is overwritten with a different value (adjacency sub-check: a list longer than one chunk went through \
              compaction / freezing, or an add follows a delete on the same list). Distinct by hash of the whole case. \
              Index structures: histories of 1-60 ops (single ops and runs of up to the whole key universe, 1-3000 keys) on BTreeIndex \
              (i64 / OrderedFloat / String keys from a universe listed in documented order with hand-written equivalence classes; \
              ranges with every bound kind, ~45% of the histories ask an inverted or empty range), HashIndex / FingerprintedHashIndex \
              (7 constructors x 3 key kinds) and TrieIndex (paths of length 0-6 over colliding node ids, fans of up to 255 siblings, \
              iterator walks with next / seek / open, leapfrog joins over 0-4 iterators); non-trivial = the structure passed 12 keys \
              (a B-tree node split) and an overwrite / removal / re-insert happened (trie: a path that is a prefix of another or was \
              inserted twice, and an iterator walk or join ran). Catalog: 1-80 ops over 12 colliding names x 3 dictionaries + runs of \
              fresh names, index create / drop (live, dropped, unknown ids), constraints with and without schema; non-trivial = a \
              repeated get_or_create and a drop / duplicate constraint / two indexes. stats_collector: columns of 0-700 values of 9 \
              kinds (80%) or the scan of one property after a C14 history (20%), 0-64 buckets, 0-7 MCVs; non-trivial = >= 8 non-null \
              values with duplicates and a histogram of >= 2 buckets."
        .into();
    r.assumptions.push("delete_node does not cascade (code + delete_node_edges doc): edges of a deleted node stay live and stay listed under the dead id; create_edge does not check endpoints".into());
    r.assumptions.push("without backward adjacency, neighbors()/edges_from() with Direction::Incoming are not offered (config doc: 'turn off if you only traverse outgoing edges'): may be empty or exact, Both = Outgoing + whatever Incoming reports; edges_to / in_degree must still be exact (documented scan fallback)".into());
    r.assumptions.push("'a scan for that value' = Value's own equality (IEEE: 0.0 == -0.0, NaN equals nothing), which is what the unindexed path of find_nodes_by_property evaluates".into());
    r.assumptions.push("min/max pruning is only required not to rule out definite matches: same-type Int/Float/String/Bool comparisons, NaN never matches, cross-type pairs never count".into());
    r.assumptions.push("ChunkedAdjacency::mark_deleted is only called for an existing, not yet deleted (src, edge) pair and edge ids are unique, as LpgStore does".into());
    r.assumptions.push("set_node_property / set_edge_property are never aimed at ids the API has not issued".into());

    r.assumptions.push("dictionary listings (all_labels / all_edge_types / all_property_keys, schema()) are 'all names': an entry may outlive its last user, so the set is bounded (names on live entities <= listed <= names the history mentioned) while every per-name count is exact; property_key_count is documented as node columns + edge columns".into());
    r.assumptions.push("TrieIterator::seek is judged as 'first key >= target from the current position on' (leapfrog iterators only move forward); a target behind the iterator must leave it on a valid key >= target".into());
    r.assumptions.push("ColumnStatistics: distinct_count is bounded by the coarsest (NaN = NaN, -0.0 = 0.0) and finest (bit identity) reading of 'distinct'; min/max are judged only on columns whose values are pairwise comparable; avg only on finite numeric columns; nothing is asserted about selectivity estimates".into());

    let thorough = r.is_thorough();
    let cfg = if thorough { GenCfg { max_len: 400, max_burst: 2000 } } else { GenCfg { max_len: 400, max_burst: 300 } };

    r.subcheck("store", r.cases(3_000, 200_000), move || store_case(cfg), check_store);

    let (alen, aburst) = if thorough { (120, 2000) } else { (80, 300) };
    r.subcheck("adjacency", r.cases(6_000, 400_000), move || adj::adj_case(alen, aburst), adj::check);

    let ecfg = GenCfg { max_len: if thorough { 200 } else { 120 }, max_burst: 130 };
    r.subcheck("engine", r.cases(600, 30_000), move || store_case(ecfg), check_engine);

    let (bsize, bops) = if thorough { (6000, 120) } else { (3000, 60) };
    r.subcheck("btree_index", r.cases(40_000, 2_000_000), move || indexes::btree_case(bsize, bops), indexes::check_btree);
    r.subcheck("hash_index", r.cases(4_000, 200_000), move || indexes::hash_case(bsize, bops), indexes::check_hash);
    r.subcheck("trie_index", r.cases(6_000, 300_000), move || indexes::trie_case(if thorough { 120 } else { 60 }), indexes::check_trie);
    r.subcheck("catalog", r.cases(6_000, 300_000), move || catalog::catalog_case(if thorough { 150 } else { 80 }), catalog::check_catalog);
    r.subcheck("stats_collector", r.cases(8_000, 400_000), move || collect::collect_case(if thorough { 3000 } else { 700 }, 60), collect::check_collect);
}
