//! Generated graph-building histories (`Op`) for C14 / C20.

use proptest::collection::vec;
use proptest::prelude::*;
use serde::{Deserialize, Serialize};

use super::model::{Tgt, V};

/// How the endpoints of a new edge are chosen.
#[derive(Clone, Copy, Debug, PartialEq, Eq, Serialize, Deserialize)]
pub enum EdgeMode {
    Normal,
    /// dst = src
    SelfLoop,
    /// same (src, dst) as an existing live edge
    Parallel,
    /// (dst, src) of an existing live edge
    Reverse,
}

/// One generated operation. Targets are selectors resolved against the model's state when the op is
/// applied (`Model::resolve`), so every prefix / sub-sequence of a history is again a valid history.
#[derive(Clone, Debug, PartialEq, Serialize, Deserialize)]
pub enum Op {
    CreateNode { labels: Vec<u8>, props: Vec<(u8, V)> },
    DeleteNode { t: Tgt },
    DetachDeleteNode { t: Tgt },
    CreateEdge { src: Tgt, dst: Tgt, ty: u8, mode: EdgeMode, props: Vec<(u8, V)> },
    /// `n` edges between one hub and a small window of other nodes
    Burst { hub: Tgt, n: u16, incoming: bool, ty: u8, spread: u16 },
    DeleteEdge { t: Tgt },
    SetNodeProp { t: Tgt, key: u8, val: V },
    RemoveNodeProp { t: Tgt, key: u8 },
    SetEdgeProp { t: Tgt, key: u8, val: V },
    RemoveEdgeProp { t: Tgt, key: u8 },
    AddLabel { t: Tgt, label: u8 },
    RemoveLabel { t: Tgt, label: u8 },
    CreateIndex { key: u8 },
    DropIndex { key: u8 },
    ComputeStatistics,
    EnsureStatisticsFresh,
    RebuildZoneMaps,
}

const TWO53: i64 = 1 << 53;

/// Property values of every type, with a deliberately small domain (so that equal values, overwrites with the
/// same value and index hits are common) and the float / integer edges the index and the min/max summaries
/// have to get right.
pub fn value() -> BoxedStrategy<V> {
    let small_int = (-2i64..6).prop_map(V::Int);
    let big_int = prop_oneof![
        Just(V::Int(TWO53)),
        Just(V::Int(TWO53 + 1)),
        Just(V::Int(TWO53 - 1)),
        Just(V::Int(-TWO53 - 1)),
        Just(V::Int(i64::MAX)),
        Just(V::Int(i64::MIN)),
    ];
    let float = prop_oneof![
        3 => Just(V::f(0.0)),
        3 => Just(V::f(-0.0)),
        3 => Just(V::f(f64::NAN)),
        1 => Just(V::F(0x7ff8_0000_0000_0001)),
        1 => Just(V::F(0xfff8_0000_0000_0000)),
        6 => (-2i64..6).prop_map(|i| V::f(i as f64)),
        3 => (-4i64..12).prop_map(|i| V::f(i as f64 / 2.0)),
        1 => Just(V::f(f64::INFINITY)),
        1 => Just(V::f(f64::NEG_INFINITY)),
        1 => Just(V::f(TWO53 as f64)),
        1 => Just(V::f(f64::MIN_POSITIVE / 2.0)),
    ];
    let string = prop_oneof![
        Just(V::Str(String::new())),
        Just(V::Str("a".into())),
        Just(V::Str("b".into())),
        Just(V::Str("ab".into())),
        Just(V::Str("é".into())),
        Just(V::Str("1".into())),
    ];
    let scalar = prop_oneof![
        8 => small_int.clone(),
        2 => big_int,
        7 => float.clone(),
        5 => string.clone(),
        2 => any::<bool>().prop_map(V::Bool),
        2 => Just(V::Null),
        1 => (0i64..3).prop_map(V::Ts),
        1 => vec(0u8..3, 0..3).prop_map(V::Bytes),
    ];
    let inner = prop_oneof![3 => small_int, 3 => float, 1 => string, 1 => Just(V::Null)];
    let list = vec(inner.clone(), 0..3).prop_map(V::List);
    let map = vec((prop_oneof![Just("k".to_string()), Just("j".to_string())], inner), 0..3).prop_map(|mut kv| {
        kv.sort_by(|a, b| a.0.cmp(&b.0));
        kv.dedup_by(|a, b| a.0 == b.0);
        V::Map(kv)
    });
    let vector = vec(prop_oneof![Just(0.0f32), Just(-0.0f32), Just(1.0f32), Just(f32::NAN), Just(0.5f32)], 0..3)
        .prop_map(|v| V::Vector(v.into_iter().map(f32::to_bits).collect()));
    prop_oneof![24 => scalar, 3 => list, 1 => map, 1 => vector].boxed()
}

/// Values without NaN / zero floats (the region of the fixed index defect), for histories that must stay
/// clear of it.
pub fn tame_value() -> BoxedStrategy<V> {
    value().prop_filter("float edge", |v| !v.has_float_edge()).boxed()
}

fn tgt() -> impl Strategy<Value = Tgt> {
    // ~10 % dead / unknown ids
    (any::<u16>(), prop_oneof![18 => Just(0u8), 1 => Just(1u8), 1 => Just(2u8)]).prop_map(|(i, k)| Tgt { i, k })
}

fn set_tgt() -> impl Strategy<Value = Tgt> {
    // `set_*_property` has no return value; a deleted id is aimed at in 6 % of the sets, and only in histories
    // that opted in (`Model::allow_set_on_dead`; see known finding C14-set-property-on-deleted-id)
    (any::<u16>(), prop_oneof![15 => Just(0u8), 1 => Just(1u8)]).prop_map(|(i, k)| Tgt { i, k })
}

fn live_tgt() -> impl Strategy<Value = Tgt> {
    any::<u16>().prop_map(|i| Tgt { i, k: 0 })
}

fn labels() -> impl Strategy<Value = Vec<u8>> {
    vec(0u8..3, 0..=3)
}

fn props() -> impl Strategy<Value = Vec<(u8, V)>> {
    vec((0u8..4, value()), 0..=3)
}

/// Generator knobs.
#[derive(Clone, Copy, Debug)]
pub struct GenCfg {
    pub max_len: usize,
    /// largest burst (edges added to one hub by one op)
    pub max_burst: u16,
}

/// Relative weights of the op kinds; three profiles aim the same op alphabet at different structures.
#[derive(Clone, Copy)]
struct Weights {
    create_node: u32,
    delete_node: u32,
    create_edge: u32,
    burst: u32,
    delete_edge: u32,
    node_prop: u32,
    edge_prop: u32,
    label: u32,
    index: u32,
    stats: u32,
}

const MIXED: Weights = Weights {
    create_node: 14,
    delete_node: 6,
    create_edge: 16,
    burst: 1,
    delete_edge: 8,
    node_prop: 18,
    edge_prop: 6,
    label: 12,
    index: 6,
    stats: 4,
};
const HUB: Weights = Weights {
    create_node: 8,
    delete_node: 4,
    create_edge: 20,
    burst: 10,
    delete_edge: 16,
    node_prop: 3,
    edge_prop: 3,
    label: 3,
    index: 1,
    stats: 3,
};
const INDEX: Weights = Weights {
    create_node: 12,
    delete_node: 7,
    create_edge: 3,
    burst: 1,
    delete_edge: 1,
    node_prop: 40,
    edge_prop: 2,
    label: 6,
    index: 12,
    stats: 2,
};

fn op(w: Weights, max_burst: u16) -> BoxedStrategy<Op> {
    let burst_n = prop_oneof![
        3 => 1u16..20,
        3 => 60u16..70,
        2 => Just(64u16),
        2 => Just(65u16),
        2 => 120u16..136,
        2 => 250u16..=300u16.min(max_burst).max(251),
        1 => (300u16.min(max_burst))..=max_burst,
    ];
    prop_oneof![
        w.create_node => (labels(), props()).prop_map(|(labels, props)| Op::CreateNode { labels, props }),
        w.delete_node * 2 => tgt().prop_map(|t| Op::DeleteNode { t }),
        w.delete_node => tgt().prop_map(|t| Op::DetachDeleteNode { t }),
        w.create_edge => (
            tgt(),
            tgt(),
            0u8..2,
            prop_oneof![6 => Just(EdgeMode::Normal), 2 => Just(EdgeMode::SelfLoop), 3 => Just(EdgeMode::Parallel), 1 => Just(EdgeMode::Reverse)],
            prop_oneof![3 => Just(Vec::new()), 1 => props()],
        )
            .prop_map(|(src, dst, ty, mode, props)| Op::CreateEdge { src, dst, ty, mode, props }),
        w.burst => (live_tgt(), burst_n, any::<bool>(), 0u8..2, any::<u16>())
            .prop_map(|(hub, n, incoming, ty, spread)| Op::Burst { hub, n, incoming, ty, spread }),
        w.delete_edge => tgt().prop_map(|t| Op::DeleteEdge { t }),
        w.node_prop * 2 => (set_tgt(), 0u8..4, value()).prop_map(|(t, key, val)| Op::SetNodeProp { t, key, val }),
        w.node_prop => (tgt(), 0u8..4).prop_map(|(t, key)| Op::RemoveNodeProp { t, key }),
        w.edge_prop * 2 => (set_tgt(), 0u8..4, value()).prop_map(|(t, key, val)| Op::SetEdgeProp { t, key, val }),
        w.edge_prop => (tgt(), 0u8..4).prop_map(|(t, key)| Op::RemoveEdgeProp { t, key }),
        w.label => (tgt(), 0u8..3).prop_map(|(t, label)| Op::AddLabel { t, label }),
        w.label => (tgt(), 0u8..3).prop_map(|(t, label)| Op::RemoveLabel { t, label }),
        w.index * 2 => (0u8..4).prop_map(|key| Op::CreateIndex { key }),
        w.index => (0u8..4).prop_map(|key| Op::DropIndex { key }),
        w.stats * 2 => Just(Op::ComputeStatistics),
        w.stats => Just(Op::EnsureStatisticsFresh),
        w.stats => Just(Op::RebuildZoneMaps),
    ]
    .boxed()
}

fn len(max_len: usize) -> BoxedStrategy<usize> {
    let m = max_len.max(2);
    prop_oneof![
        2 => 1usize..=8.min(m),
        5 => 8.min(m)..=60.min(m),
        3 => 60.min(m)..=150.min(m),
        1 => 150.min(m)..=m,
    ]
    .boxed()
}

pub fn ops_strategy_cfg(cfg: GenCfg) -> BoxedStrategy<Vec<Op>> {
    let mb = cfg.max_burst.max(1);
    prop_oneof![
        5 => len(cfg.max_len).prop_flat_map(move |n| vec(op(MIXED, mb), n)),
        2 => len(cfg.max_len.min(120)).prop_flat_map(move |n| vec(op(HUB, mb), n)),
        3 => len(cfg.max_len).prop_flat_map(move |n| vec(op(INDEX, mb), n)),
    ]
    .boxed()
}

/// Histories of 1..=`max_len` ops (hubs up to 300 edges per burst).
pub fn ops_strategy(max_len: usize) -> BoxedStrategy<Vec<Op>> {
    ops_strategy_cfg(GenCfg { max_len, max_burst: 300 })
}
