//! The standalone index structures of `grafeo_core::index` (`btree.rs`, `hash.rs` + `fingerprinted_hash.rs`,
//! `trie.rs`) against plain models, compared after **every** step of a generated history.
//!
//! * `btree_index` — `BTreeIndex<K, NodeId>` for `i64`, `OrderedFloat` and `String` keys. The model never sees a key:
//!   every case fixes a *universe* of keys listed in ascending order of the documented ordering together with their
//!   equivalence class (`-0.0`/`0.0` one class, all NaNs one class above every number — `OrderedFloat`'s doc), and the
//!   model is a `BTreeMap<class, value>`. So `OrderedFloat`'s `Ord` is judged by a hand-written class table, not by itself.
//!   Ranges come with every bound kind, empty and inverted ones included.
//! * `hash_index`  — `HashIndex` and `FingerprintedHashIndex` (1 / 4 / 64 shards, with_capacity) behind one trait,
//!   against `BTreeMap<selector, value>`.
//! * `trie_index`  — `TrieIndex` (paths of any length: empty, one a prefix of another, duplicates, hundreds of
//!   siblings), its `TrieIterator` (key / next / seek / open / is_valid) and `LeapfrogJoin` against a map
//!   path → edge list and path → child set.

use std::collections::{BTreeMap, BTreeSet};
use std::fmt::Debug;
use std::ops::Bound;

use proptest::collection::vec;
use proptest::prelude::*;
use serde::{Deserialize, Serialize};

use grafeo_common::types::{EdgeId, NodeId};
use grafeo_core::index::btree::OrderedFloat;
use grafeo_core::index::trie::{LeapfrogJoin, TrieIndex, TrieIterator};
use grafeo_core::index::{BTreeIndex, FingerprintedHashIndex, HashIndex};

use crate::driver::{CaseResult, Failure, catch, fail, guard, hash_dbg, ok, pick};

// =================================================================================================
// BTreeIndex
// =================================================================================================

#[derive(Clone, Copy, Debug, PartialEq, Serialize, Deserialize)]
pub enum Bnd {
    Unb,
    Inc(u16),
    Exc(u16),
}

#[derive(Clone, Debug, PartialEq, Serialize, Deserialize)]
pub enum BOp {
    Insert { k: u16, v: u32 },
    /// keys `start, start+stride, …` (n of them, wrapping in the universe), values `v0, v0+1, …`
    InsertRun { start: u16, n: u16, stride: u8, v0: u32 },
    Remove { k: u16 },
    RemoveRun { start: u16, n: u16, stride: u8 },
    /// remove the `i`-th present key (a removal that is never a no-op unless the index is empty)
    RemoveLive { i: u16 },
    Range { lo: Bnd, hi: Bnd },
    /// `a..b`, `a..=b`, `..b`, `a..` and `..` through the range sugar (i64 keys only; other kinds use the tuple form)
    RangeSugar { a: u16, b: u16, form: u8 },
    Clear,
}

#[derive(Clone, Debug, PartialEq, Serialize, Deserialize)]
pub struct BTreeCase {
    /// 0 = i64, 1 = OrderedFloat, 2 = String
    pub kind: u8,
    /// number of selectors of the universe in use (keys are `universe[sel % size]`)
    pub size: u16,
    pub ops: Vec<BOp>,
}

fn bnd(size: u16) -> BoxedStrategy<Bnd> {
    prop_oneof![1 => Just(Bnd::Unb), 3 => (0..size).prop_map(Bnd::Inc), 3 => (0..size).prop_map(Bnd::Exc)].boxed()
}

pub fn btree_case(max_size: u16, max_ops: usize) -> BoxedStrategy<BTreeCase> {
    let size = prop_oneof![2 => 1u16..=6, 3 => 7u16..=40, 3 => 41u16..=400, 2 => 401u16..=max_size.max(402)];
    (0u8..3, size)
        .prop_flat_map(move |(kind, size)| {
            let run_n = prop_oneof![3 => 1u16..=13, 3 => 10u16..=80, 2 => (size / 2).max(1)..=size.max(2)];
            let op = prop_oneof![
                10 => (0..size, any::<u32>()).prop_map(|(k, v)| BOp::Insert { k, v }),
                6 => (0..size, run_n.clone(), 1u8..=5, any::<u32>()).prop_map(|(start, n, stride, v0)| BOp::InsertRun { start, n, stride, v0 }),
                5 => (0..size).prop_map(|k| BOp::Remove { k }),
                3 => (0..size, run_n, 1u8..=5).prop_map(|(start, n, stride)| BOp::RemoveRun { start, n, stride }),
                6 => any::<u16>().prop_map(|i| BOp::RemoveLive { i }),
                10 => (bnd(size), bnd(size)).prop_map(|(lo, hi)| BOp::Range { lo, hi }),
                2 => (0..size, 0..size, 0u8..5).prop_map(|(a, b, form)| BOp::RangeSugar { a, b, form }),
                1 => Just(BOp::Clear),
            ];
            vec(op, 1..=max_ops).prop_map(move |ops| BTreeCase { kind, size, ops })
        })
        .boxed()
}

/// i64 universe: strictly ascending, both extremes, dense in the middle.
fn i64_universe(size: u16) -> Vec<(i64, u32)> {
    let n = i64::from(size);
    (0..n)
        .map(|i| {
            let k = if i == 0 && n > 2 {
                i64::MIN
            } else if i == n - 1 && n > 2 {
                i64::MAX
            } else {
                (i - n / 2) * 3
            };
            (k, i as u32)
        })
        .collect()
}

/// Float universe in ascending documented order. Classes: `-0.0` and `0.0` are one key (they compare equal), every NaN
/// is one key above `+inf` ("NaN values are treated as equal to each other and greater than every number").
fn float_universe(size: u16) -> Vec<(f64, u32)> {
    let mut v: Vec<f64> = vec![f64::NEG_INFINITY, f64::MIN, -1e300];
    let body = i64::from(size.saturating_sub(14).max(1));
    for i in 0..body {
        v.push(-(body - i) as f64 * 0.5);
    }
    v.extend([-f64::MIN_POSITIVE, -f64::MIN_POSITIVE / 2.0, -0.0, 0.0, f64::MIN_POSITIVE / 2.0, f64::MIN_POSITIVE]);
    for i in 0..body {
        v.push((i + 1) as f64 * 0.5);
    }
    v.extend([9_007_199_254_740_992.0, 9_007_199_254_740_994.0, 1e300, f64::MAX, f64::INFINITY]);
    v.extend([f64::NAN, f64::from_bits(0x7ff8_0000_0000_0001), f64::from_bits(0xfff8_0000_0000_0000)]);
    // classes by a hand-written rule, independent of OrderedFloat
    let mut out: Vec<(f64, u32)> = Vec::with_capacity(v.len());
    let mut class = 0u32;
    for (i, x) in v.iter().enumerate() {
        if i > 0 {
            let p = v[i - 1];
            let same = (p.is_nan() && x.is_nan()) || (p == 0.0 && *x == 0.0);
            if !same {
                class += 1;
            }
        }
        out.push((*x, class));
    }
    out
}

/// String universe: ascending in byte order (`str`'s `Ord`), full of shared prefixes, with the empty string.
fn string_universe(size: u16) -> Vec<(String, u32)> {
    let alphabet = ["", "\u{0}", "a", "a\u{0}", "aa", "ab", "b", "ba", "z", "é", "\u{10ffff}"];
    let mut set: BTreeSet<String> = BTreeSet::new();
    set.insert(String::new());
    let mut i = 0u32;
    while set.len() < usize::from(size) {
        // base-11 digits of i pick the pieces, so long common prefixes are the rule
        let mut s = String::new();
        let mut x = i;
        loop {
            s.push_str(alphabet[(x % 11) as usize]);
            s.push('a');
            x /= 11;
            if x == 0 {
                break;
            }
        }
        set.insert(s);
        i += 1;
    }
    set.into_iter().enumerate().map(|(c, s)| (s, c as u32)).collect()
}

fn fclass(uni: &[(f64, u32)], x: f64) -> Option<u32> {
    if x.is_nan() {
        return uni.iter().find(|(k, _)| k.is_nan()).map(|(_, c)| *c);
    }
    uni.iter().find(|(k, _)| *k == x).map(|(_, c)| *c)
}

struct BStats {
    known: Vec<String>,
    max_len: usize,
    overwrote: bool,
    removed_after_split: bool,
    inverted: u32,
    nonempty_ranges: u32,
}

fn to_bound<K: Clone>(uni: &[(K, u32)], b: Bnd) -> (Bound<K>, Bound<u32>) {
    match b {
        Bnd::Unb => (Bound::Unbounded, Bound::Unbounded),
        Bnd::Inc(s) => {
            let (k, c) = &uni[usize::from(s) % uni.len()];
            (Bound::Included(k.clone()), Bound::Included(*c))
        }
        Bnd::Exc(s) => {
            let (k, c) = &uni[usize::from(s) % uni.len()];
            (Bound::Excluded(k.clone()), Bound::Excluded(*c))
        }
    }
}

/// The model's answer for a range over classes; `None` marks the ranges on which `std::collections::BTreeMap::range`
/// panics (start > end, or start == end with both excluded) — the expected answer there is still the empty list,
/// because `BTreeIndex::range` documents no panic.
fn model_range(model: &BTreeMap<u32, u32>, lo: Bound<u32>, hi: Bound<u32>) -> (Vec<(u32, u32)>, bool) {
    let above = |c: u32| match lo {
        Bound::Unbounded => true,
        Bound::Included(l) => c >= l,
        Bound::Excluded(l) => c > l,
    };
    let below = |c: u32| match hi {
        Bound::Unbounded => true,
        Bound::Included(h) => c <= h,
        Bound::Excluded(h) => c < h,
    };
    let inverted = match (lo, hi) {
        (Bound::Included(l) | Bound::Excluded(l), Bound::Included(h) | Bound::Excluded(h)) if l > h => true,
        (Bound::Excluded(l), Bound::Excluded(h)) if l == h => true,
        _ => false,
    };
    (model.iter().filter(|(c, _)| above(**c) && below(**c)).map(|(c, v)| (*c, *v)).collect(), inverted)
}

fn run_btree<K: Ord + Clone + Debug>(
    uni: &[(K, u32)],
    class_of: &dyn Fn(&K) -> Option<u32>,
    ops: &[BOp],
    sugar: Option<&dyn Fn(&BTreeIndex<K, NodeId>, &K, &K, u8) -> Vec<(K, NodeId)>>,
) -> Result<BStats, Failure> {
    let ix: BTreeIndex<K, NodeId> = guard("BTreeIndex::new", BTreeIndex::new)?;
    let mut model: BTreeMap<u32, u32> = BTreeMap::new();
    let mut st = BStats { known: Vec::new(), max_len: 0, overwrote: false, removed_after_split: false, inverted: 0, nonempty_ranges: 0 };
    let n = uni.len();
    let at = |s: usize| -> &(K, u32) { &uni[s % n] };
    let nid = |v: u32| NodeId::new(u64::from(v));

    let cmp_entries = |what: &str, got: &[(K, NodeId)], exp: &[(u32, u32)]| -> Result<(), Failure> {
        let g: Vec<(Option<u32>, u64)> = got.iter().map(|(k, v)| (class_of(k), v.as_u64())).collect();
        let e: Vec<(Option<u32>, u64)> = exp.iter().map(|(c, v)| (Some(*c), u64::from(*v))).collect();
        if g != e {
            let sig = if g.len() == e.len() && {
                let mut a = g.clone();
                a.sort();
                a == e
            } {
                "c14/btree/range/not-in-key-order"
            } else if g.len() < e.len() {
                "c14/btree/range/missing-entries"
            } else {
                "c14/btree/range/mismatch"
            };
            let show = |v: &[(Option<u32>, u64)]| format!("{:?}{}", &v[..v.len().min(24)], if v.len() > 24 { " …" } else { "" });
            return fail(sig, format!("{what}: got {} entries {} (keys {:?}…), model {} entries {}", g.len(), show(&g), got.iter().take(6).map(|p| &p.0).collect::<Vec<_>>(), e.len(), show(&e)));
        }
        Ok(())
    };

    for (step, op) in ops.iter().enumerate() {
        let after = format!("after step {step} ({op:?})");
        let mut touched: Vec<usize> = Vec::new();
        match op {
            BOp::Insert { k, v } => {
                let (key, c) = at(usize::from(*k));
                let old = guard("insert", || ix.insert(key.clone(), nid(*v)))?;
                let exp = model.insert(*c, *v);
                if old.map(|o| o.as_u64()) != exp.map(u64::from) {
                    return fail("c14/btree/insert/previous-value", format!("{after}: insert({key:?}) returned {old:?}, model {exp:?}"));
                }
                st.overwrote |= exp.is_some();
                touched.push(usize::from(*k) % n);
            }
            BOp::InsertRun { start, n: cnt, stride, v0 } => {
                for j in 0..usize::from(*cnt) {
                    let s = usize::from(*start) + j * usize::from(*stride);
                    let (key, c) = at(s);
                    let v = v0.wrapping_add(j as u32);
                    let old = guard("insert", || ix.insert(key.clone(), nid(v)))?;
                    let exp = model.insert(*c, v);
                    if old.map(|o| o.as_u64()) != exp.map(u64::from) {
                        return fail("c14/btree/insert/previous-value", format!("{after}: insert({key:?}) (#{j} of the run) returned {old:?}, model {exp:?}"));
                    }
                    st.overwrote |= exp.is_some();
                    if j < 3 || j + 2 > usize::from(*cnt) {
                        touched.push(s % n);
                    }
                }
            }
            BOp::Remove { k } => {
                let (key, c) = at(usize::from(*k));
                let old = guard("remove", || ix.remove(key))?;
                let exp = model.remove(c);
                if old.map(|o| o.as_u64()) != exp.map(u64::from) {
                    return fail("c14/btree/remove/returned-value", format!("{after}: remove({key:?}) returned {old:?}, model {exp:?}"));
                }
                st.removed_after_split |= exp.is_some() && st.max_len >= 12;
                touched.push(usize::from(*k) % n);
            }
            BOp::RemoveRun { start, n: cnt, stride } => {
                for j in 0..usize::from(*cnt) {
                    let s = usize::from(*start) + j * usize::from(*stride);
                    let (key, c) = at(s);
                    let old = guard("remove", || ix.remove(key))?;
                    let exp = model.remove(c);
                    if old.map(|o| o.as_u64()) != exp.map(u64::from) {
                        return fail("c14/btree/remove/returned-value", format!("{after}: remove({key:?}) (#{j} of the run) returned {old:?}, model {exp:?}"));
                    }
                    st.removed_after_split |= exp.is_some() && st.max_len >= 12;
                    if j < 3 {
                        touched.push(s % n);
                    }
                }
            }
            BOp::RemoveLive { i } => {
                if !model.is_empty() {
                    let c = *model.keys().nth(pick(*i, model.len())).unwrap();
                    let s = uni.iter().position(|(_, cc)| *cc == c).unwrap();
                    let key = &uni[s].0;
                    let old = guard("remove", || ix.remove(key))?;
                    let exp = model.remove(&c);
                    if old.map(|o| o.as_u64()) != exp.map(u64::from) {
                        return fail("c14/btree/remove/returned-value", format!("{after}: remove({key:?}) returned {old:?}, model {exp:?}"));
                    }
                    st.removed_after_split |= st.max_len >= 12;
                    touched.push(s);
                }
            }
            BOp::Range { lo, hi } => {
                let (kl, cl) = to_bound(uni, *lo);
                let (kh, ch) = to_bound(uni, *hi);
                let (exp, inverted) = model_range(&model, cl, ch);
                let got = match catch(|| ix.range((kl.clone(), kh.clone()))) {
                    Ok(g) => g,
                    Err(p) if inverted && p.msg.contains("in BTreeMap") => {
                        // observation of the listed defect (BTreeMap::range's own panic surfacing); the history goes on
                        st.inverted += 1;
                        if !st.known.iter().any(|k| k == "c14/btree/range/panic-on-inverted-range") {
                            st.known.push("c14/btree/range/panic-on-inverted-range".to_string());
                        }
                        continue;
                    }
                    Err(p) => {
                        let sig = p.signature();
                        return fail(sig, format!("{after}: range(({kl:?}, {kh:?})) panicked at {}: {} (BTreeIndex::range documents no panic; the answer of an empty range is the empty list)", p.file, p.msg));
                    }
                };
                st.inverted += u32::from(inverted);
                st.nonempty_ranges += u32::from(!exp.is_empty());
                cmp_entries(&format!("{after}: range(({kl:?}, {kh:?}))"), &got, &exp)?;
            }
            BOp::RangeSugar { a, b, form } => {
                if let Some(f) = sugar {
                    let (ka, ca) = at(usize::from(*a));
                    let (kb, cb) = at(usize::from(*b));
                    let (lo, hi) = match form % 5 {
                        0 => (Bound::Included(*ca), Bound::Excluded(*cb)),
                        1 => (Bound::Included(*ca), Bound::Included(*cb)),
                        2 => (Bound::Unbounded, Bound::Excluded(*cb)),
                        3 => (Bound::Included(*ca), Bound::Unbounded),
                        _ => (Bound::Unbounded, Bound::Unbounded),
                    };
                    let (exp, inverted) = model_range(&model, lo, hi);
                    let got = match catch(|| f(&ix, ka, kb, *form % 5)) {
                        Ok(g) => g,
                        Err(p) if inverted && p.msg.contains("in BTreeMap") => {
                            st.inverted += 1;
                            if !st.known.iter().any(|k| k == "c14/btree/range/panic-on-inverted-range") {
                                st.known.push("c14/btree/range/panic-on-inverted-range".to_string());
                            }
                            continue;
                        }
                        Err(p) => {
                            let sig = p.signature();
                            return fail(sig, format!("{after}: range sugar form {} over ({ka:?}, {kb:?}) panicked at {}: {}", form % 5, p.file, p.msg));
                        }
                    };
                    st.inverted += u32::from(inverted);
                    st.nonempty_ranges += u32::from(!exp.is_empty());
                    cmp_entries(&format!("{after}: range sugar form {} over ({ka:?}, {kb:?})", form % 5), &got, &exp)?;
                }
            }
            BOp::Clear => {
                guard("clear", || ix.clear())?;
                model.clear();
            }
        }
        st.max_len = st.max_len.max(model.len());

        // ---- oracle after every step ----
        let len = guard("len", || ix.len())?;
        let emp = guard("is_empty", || ix.is_empty())?;
        if len != model.len() || emp != model.is_empty() {
            return fail("c14/btree/len", format!("{after}: len {len} is_empty {emp}, model holds {} keys", model.len()));
        }
        let mn = guard("min", || ix.min())?;
        let mx = guard("max", || ix.max())?;
        let emn = model.iter().next().map(|(c, v)| (Some(*c), u64::from(*v)));
        let emx = model.iter().next_back().map(|(c, v)| (Some(*c), u64::from(*v)));
        if mn.as_ref().map(|(k, v)| (class_of(k), v.as_u64())) != emn || mx.as_ref().map(|(k, v)| (class_of(k), v.as_u64())) != emx {
            return fail("c14/btree/min-max", format!("{after}: min {mn:?} max {mx:?}, model (class, value) {emn:?} / {emx:?}"));
        }
        // point probes: the touched keys, their neighbours, a spread of the universe; every key of a small universe
        let mut probes: BTreeSet<usize> = BTreeSet::new();
        if n <= 48 {
            probes.extend(0..n);
        } else {
            for t in &touched {
                probes.extend([(t + n - 1) % n, *t, (t + 1) % n]);
            }
            probes.extend((0..12).map(|i| (i * n / 12 + step) % n));
            probes.extend([0, n - 1]);
        }
        for s in &probes {
            let (key, c) = &uni[*s];
            let g = guard("get", || ix.get(key))?;
            let has = guard("contains", || ix.contains(key))?;
            let e = model.get(c);
            if g.map(|x| x.as_u64()) != e.map(|v| u64::from(*v)) || has != e.is_some() {
                return fail(
                    if e.is_some() { "c14/btree/get/present-key" } else { "c14/btree/get/absent-key" },
                    format!("{after}: get({key:?}) = {g:?}, contains = {has}, model {e:?}"),
                );
            }
        }
        // ordered enumeration: the whole index while it is small (and every 8th step / at the end otherwise), a window
        // around the touched keys always
        let full = model.len() <= 300 || step % 8 == 7 || step + 1 == ops.len();
        if full {
            let got = guard("range(..)", || ix.range::<(Bound<K>, Bound<K>)>((Bound::Unbounded, Bound::Unbounded)))?;
            let exp: Vec<(u32, u32)> = model.iter().map(|(c, v)| (*c, *v)).collect();
            cmp_entries(&format!("{after}: range(unbounded)"), &got, &exp)?;
        } else {
            for t in touched.iter().take(2) {
                let (lo_s, hi_s) = (t.saturating_sub(20), (t + 20).min(n - 1));
                let (kl, cl) = (&uni[lo_s].0, uni[lo_s].1);
                let (kh, ch) = (&uni[hi_s].0, uni[hi_s].1);
                let got = guard("range(window)", || ix.range((Bound::Included(kl.clone()), Bound::Included(kh.clone()))))?;
                let (exp, _) = model_range(&model, Bound::Included(cl), Bound::Included(ch));
                cmp_entries(&format!("{after}: range([{kl:?}, {kh:?}])"), &got, &exp)?;
            }
        }
    }
    Ok(st)
}

pub fn check_btree(case: &BTreeCase) -> CaseResult {
    let size = case.size.max(1);
    let st = match case.kind % 3 {
        0 => {
            let uni = i64_universe(size);
            let u2 = uni.clone();
            let class_of = move |k: &i64| u2.binary_search_by(|p| p.0.cmp(k)).ok().map(|i| u2[i].1);
            let sugar: &dyn Fn(&BTreeIndex<i64, NodeId>, &i64, &i64, u8) -> Vec<(i64, NodeId)> = &|ix, a, b, form| match form {
                0 => ix.range(*a..*b),
                1 => ix.range(*a..=*b),
                2 => ix.range(..*b),
                3 => ix.range(*a..),
                _ => ix.range(..),
            };
            run_btree(&uni, &class_of, &case.ops, Some(sugar))?
        }
        1 => {
            let funi = float_universe(size);
            let uni: Vec<(OrderedFloat, u32)> = funi.iter().map(|(x, c)| (OrderedFloat(*x), *c)).collect();
            let class_of = move |k: &OrderedFloat| fclass(&funi, k.0);
            run_btree(&uni, &class_of, &case.ops, None)?
        }
        _ => {
            let uni = string_universe(size);
            let u2 = uni.clone();
            let class_of = move |k: &String| u2.binary_search_by(|p| p.0.as_str().cmp(k.as_str())).ok().map(|i| u2[i].1);
            run_btree(&uni, &class_of, &case.ops, None)?
        }
    };
    let kind = ["i64", "float", "string"][usize::from(case.kind % 3)];
    let size_class = if st.max_len >= 144 {
        "3-levels"
    } else if st.max_len >= 12 {
        "split"
    } else {
        "one-node"
    };
    let nontrivial = st.max_len >= 12 && (st.removed_after_split || st.overwrote) && st.nonempty_ranges > 0;
    crate::driver::ok_with_known(nontrivial, format!("{kind}/{size_class}{}", if st.inverted > 0 { "/inverted-range" } else { "" }), hash_dbg(case), st.known)
}

// =================================================================================================
// HashIndex / FingerprintedHashIndex
// =================================================================================================

#[derive(Clone, Debug, PartialEq, Serialize, Deserialize)]
pub enum HOp {
    Insert { k: u16, v: u32 },
    InsertRun { start: u16, n: u16, v0: u32 },
    Remove { k: u16 },
    RemoveRun { start: u16, n: u16 },
    RemoveLive { i: u16 },
    Clear,
}

#[derive(Clone, Debug, PartialEq, Serialize, Deserialize)]
pub struct HashCase {
    /// 0 `HashIndex::new`, 1 `HashIndex::with_capacity`, 2 `FingerprintedHashIndex::new` (64 shards),
    /// 3 `with_shard_count(1)`, 4 `with_shard_count(3)` (rounded up to 4), 5 `FingerprintedHashIndex::with_capacity`,
    /// 6 `with_shard_count(0)`
    pub variant: u8,
    /// 0 = u64 keys (multiples of 2^16, so the low hash-input bits are constant), 1 = String keys with shared prefixes,
    /// 2 = NodeId keys
    pub key_kind: u8,
    pub size: u16,
    pub ops: Vec<HOp>,
}

pub fn hash_case(max_size: u16, max_ops: usize) -> BoxedStrategy<HashCase> {
    let size = prop_oneof![2 => 1u16..=6, 3 => 7u16..=64, 3 => 65u16..=600, 2 => 601u16..=max_size.max(602)];
    (0u8..7, 0u8..3, size)
        .prop_flat_map(move |(variant, key_kind, size)| {
            let run_n = prop_oneof![3 => 1u16..=20, 3 => 20u16..=200, 2 => (size / 2).max(1)..=size.max(2)];
            let op = prop_oneof![
                10 => (0..size, any::<u32>()).prop_map(|(k, v)| HOp::Insert { k, v }),
                5 => (0..size, run_n.clone(), any::<u32>()).prop_map(|(start, n, v0)| HOp::InsertRun { start, n, v0 }),
                6 => (0..size).prop_map(|k| HOp::Remove { k }),
                3 => (0..size, run_n).prop_map(|(start, n)| HOp::RemoveRun { start, n }),
                5 => any::<u16>().prop_map(|i| HOp::RemoveLive { i }),
                1 => Just(HOp::Clear),
            ];
            vec(op, 1..=max_ops).prop_map(move |ops| HashCase { variant, key_kind, size, ops })
        })
        .boxed()
}

trait MapLike<K> {
    fn insert(&self, k: K, v: NodeId) -> Option<NodeId>;
    fn get(&self, k: &K) -> Option<NodeId>;
    fn remove(&self, k: &K) -> Option<NodeId>;
    fn contains(&self, k: &K) -> bool;
    fn len(&self) -> usize;
    fn is_empty(&self) -> bool;
    fn clear(&self);
    /// all entries, where the structure can list them
    fn entries(&self) -> Option<Vec<(K, NodeId)>>;
}

impl<K: std::hash::Hash + Eq> MapLike<K> for HashIndex<K, NodeId> {
    fn insert(&self, k: K, v: NodeId) -> Option<NodeId> {
        HashIndex::insert(self, k, v)
    }
    fn get(&self, k: &K) -> Option<NodeId> {
        HashIndex::get(self, k)
    }
    fn remove(&self, k: &K) -> Option<NodeId> {
        HashIndex::remove(self, k)
    }
    fn contains(&self, k: &K) -> bool {
        HashIndex::contains(self, k)
    }
    fn len(&self) -> usize {
        HashIndex::len(self)
    }
    fn is_empty(&self) -> bool {
        HashIndex::is_empty(self)
    }
    fn clear(&self) {
        HashIndex::clear(self);
    }
    fn entries(&self) -> Option<Vec<(K, NodeId)>> {
        None
    }
}

impl<K: std::hash::Hash + Eq + Clone> MapLike<K> for FingerprintedHashIndex<K, NodeId> {
    fn insert(&self, k: K, v: NodeId) -> Option<NodeId> {
        FingerprintedHashIndex::insert(self, k, v)
    }
    fn get(&self, k: &K) -> Option<NodeId> {
        FingerprintedHashIndex::get(self, k)
    }
    fn remove(&self, k: &K) -> Option<NodeId> {
        FingerprintedHashIndex::remove(self, k)
    }
    fn contains(&self, k: &K) -> bool {
        FingerprintedHashIndex::contains(self, k)
    }
    fn len(&self) -> usize {
        FingerprintedHashIndex::len(self)
    }
    fn is_empty(&self) -> bool {
        FingerprintedHashIndex::is_empty(self)
    }
    fn clear(&self) {
        FingerprintedHashIndex::clear(self);
    }
    fn entries(&self) -> Option<Vec<(K, NodeId)>> {
        Some(self.iter().collect())
    }
}

fn make_map<K: std::hash::Hash + Eq + Clone + 'static>(variant: u8) -> (Box<dyn MapLike<K>>, Option<usize>) {
    match variant % 7 {
        0 => (Box::new(HashIndex::<K, NodeId>::new()), None),
        1 => (Box::new(HashIndex::<K, NodeId>::with_capacity(3)), None),
        2 => (Box::new(FingerprintedHashIndex::<K, NodeId>::new()), Some(64)),
        3 => (Box::new(FingerprintedHashIndex::<K, NodeId>::with_shard_count(1)), Some(1)),
        4 => (Box::new(FingerprintedHashIndex::<K, NodeId>::with_shard_count(3)), Some(4)),
        5 => (Box::new(FingerprintedHashIndex::<K, NodeId>::with_capacity(2)), Some(64)),
        _ => (Box::new(FingerprintedHashIndex::<K, NodeId>::with_shard_count(0)), Some(1)),
    }
}

fn run_hash<K: std::hash::Hash + Eq + Clone + Debug + 'static>(case: &HashCase, key: &dyn Fn(usize) -> K, sel_of: &dyn Fn(&K) -> Option<usize>) -> Result<(usize, bool, bool), Failure> {
    let (ix, _shards) = guard("new", || make_map::<K>(case.variant))?;
    let n = usize::from(case.size.max(1));
    let mut model: BTreeMap<usize, u32> = BTreeMap::new();
    let nid = |v: u32| NodeId::new(u64::from(v));
    let (mut max_len, mut overwrote, mut readded) = (0usize, false, false);
    let mut ever_removed: BTreeSet<usize> = BTreeSet::new();
    for (step, op) in case.ops.iter().enumerate() {
        let after = format!("after step {step} ({op:?})");
        let mut touched: Vec<usize> = Vec::new();
        let mut do_insert = |s: usize, v: u32, model: &mut BTreeMap<usize, u32>| -> Result<(), Failure> {
            let k = key(s);
            let old = guard("insert", || ix.insert(k.clone(), nid(v)))?;
            let exp = model.insert(s, v);
            if old.map(|o| o.as_u64()) != exp.map(u64::from) {
                return fail("c14/hash/insert/previous-value", format!("{after}: insert({k:?}) returned {old:?}, model {exp:?}"));
            }
            overwrote |= exp.is_some();
            readded |= exp.is_none() && ever_removed.contains(&s);
            Ok(())
        };
        match op {
            HOp::Insert { k, v } => {
                let s = usize::from(*k) % n;
                do_insert(s, *v, &mut model)?;
                touched.push(s);
            }
            HOp::InsertRun { start, n: cnt, v0 } => {
                for j in 0..usize::from(*cnt) {
                    let s = (usize::from(*start) + j) % n;
                    do_insert(s, v0.wrapping_add(j as u32), &mut model)?;
                    if j < 3 {
                        touched.push(s);
                    }
                }
            }
            HOp::Remove { .. } | HOp::RemoveRun { .. } | HOp::RemoveLive { .. } => {
                let sels: Vec<usize> = match op {
                    HOp::Remove { k } => vec![usize::from(*k) % n],
                    HOp::RemoveRun { start, n: cnt } => (0..usize::from(*cnt)).map(|j| (usize::from(*start) + j) % n).collect(),
                    HOp::RemoveLive { i } => {
                        if model.is_empty() {
                            vec![]
                        } else {
                            vec![*model.keys().nth(pick(*i, model.len())).unwrap()]
                        }
                    }
                    _ => unreachable!(),
                };
                for (j, s) in sels.iter().enumerate() {
                    let k = key(*s);
                    let old = guard("remove", || ix.remove(&k))?;
                    let exp = model.remove(s);
                    if old.map(|o| o.as_u64()) != exp.map(u64::from) {
                        return fail("c14/hash/remove/returned-value", format!("{after}: remove({k:?}) returned {old:?}, model {exp:?}"));
                    }
                    if exp.is_some() {
                        ever_removed.insert(*s);
                    }
                    if j < 3 {
                        touched.push(*s);
                    }
                }
            }
            HOp::Clear => {
                guard("clear", || ix.clear())?;
                ever_removed.extend(model.keys().copied());
                model.clear();
            }
        }
        max_len = max_len.max(model.len());

        let len = guard("len", || ix.len())?;
        let emp = guard("is_empty", || ix.is_empty())?;
        if len != model.len() || emp != model.is_empty() {
            return fail("c14/hash/len", format!("{after}: len {len} is_empty {emp}, model holds {} keys", model.len()));
        }
        let all = n <= 64 || step % 8 == 7 || step + 1 == case.ops.len();
        let mut probes: BTreeSet<usize> = BTreeSet::new();
        if all {
            probes.extend(0..n);
        } else {
            for t in &touched {
                probes.extend([(t + n - 1) % n, *t, (t + 1) % n]);
            }
            probes.extend((0..16).map(|i| (i * n / 16 + step) % n));
        }
        for s in &probes {
            let k = key(*s);
            let g = guard("get", || ix.get(&k))?;
            let has = guard("contains", || ix.contains(&k))?;
            let e = model.get(s);
            if g.map(|x| x.as_u64()) != e.map(|v| u64::from(*v)) || has != e.is_some() {
                return fail(
                    if e.is_some() { "c14/hash/get/present-key" } else { "c14/hash/get/absent-key" },
                    format!("{after}: get({k:?}) = {g:?}, contains = {has}, model {e:?}"),
                );
            }
        }
        if all {
            if let Some(ents) = guard("iter", || ix.entries())? {
                let mut got: Vec<(Option<usize>, u64)> = ents.iter().map(|(k, v)| (sel_of(k), v.as_u64())).collect();
                got.sort();
                let exp: Vec<(Option<usize>, u64)> = model.iter().map(|(s, v)| (Some(*s), u64::from(*v))).collect();
                if got != exp {
                    return fail("c14/hash/iter", format!("{after}: iter() yields {} entries, model {}; first differing pair: {:?}", got.len(), exp.len(), got.iter().zip(&exp).find(|(a, b)| a != b)));
                }
            }
        }
    }
    Ok((max_len, overwrote, readded))
}

pub fn check_hash(case: &HashCase) -> CaseResult {
    let n = usize::from(case.size.max(1));
    let (max_len, overwrote, readded) = match case.key_kind % 3 {
        0 => run_hash::<u64>(case, &|s| (s as u64) << 16, &|k| Some((*k >> 16) as usize))?,
        1 => {
            let uni: Vec<String> = string_universe(case.size.max(1)).into_iter().map(|p| p.0).collect();
            let u2 = uni.clone();
            run_hash::<String>(case, &move |s| uni[s % n].clone(), &move |k| u2.binary_search(k).ok())?
        }
        _ => run_hash::<NodeId>(case, &|s| if s == 0 { NodeId::new(u64::MAX) } else { NodeId::new(s as u64) }, &|k| {
            Some(if k.as_u64() == u64::MAX { 0 } else { k.as_u64() as usize })
        })?,
    };
    let variant = ["hash", "hash-cap", "fp64", "fp1", "fp4", "fp-cap", "fp0"][usize::from(case.variant % 7)];
    let size_class = if max_len >= 200 { "large" } else if max_len >= 12 { "medium" } else { "small" };
    ok(max_len >= 12 && (overwrote || readded), format!("{variant}/{size_class}"), hash_dbg(case))
}

// =================================================================================================
// TrieIndex / TrieIterator / LeapfrogJoin
// =================================================================================================

#[derive(Clone, Debug, PartialEq, Serialize, Deserialize)]
pub enum WalkStep {
    Next,
    Seek(u8),
    Open,
}

#[derive(Clone, Debug, PartialEq, Serialize, Deserialize)]
pub enum TOp {
    Insert { path: Vec<u8>, e: u16 },
    InsertEdge { src: u8, dst: u8, e: u16 },
    /// children `prefix + [first + j*stride]`, j < n
    InsertFan { prefix: Vec<u8>, first: u8, n: u8, stride: u8, e0: u16 },
    /// walk an iterator opened at (a prefix of) a present path, or at an absent path
    Walk { at: u16, cut: u8, absent: Option<Vec<u8>>, steps: Vec<WalkStep> },
    /// leapfrog over the iterators at several present paths
    Join { at: Vec<(u16, u8)> },
}

#[derive(Clone, Debug, PartialEq, Serialize, Deserialize)]
pub struct TrieCase {
    pub ops: Vec<TOp>,
}

fn node_byte() -> BoxedStrategy<u8> {
    prop_oneof![8 => 0u8..5, 2 => 0u8..40, 1 => 250u8..=255, 1 => any::<u8>()].boxed()
}

pub fn trie_case(max_ops: usize) -> BoxedStrategy<TrieCase> {
    let path = prop_oneof![1 => Just(Vec::new()), 3 => vec(node_byte(), 1..=2), 3 => vec(0u8..4, 1..=4), 1 => vec(node_byte(), 3..=6)];
    let step = prop_oneof![4 => Just(WalkStep::Next), 4 => node_byte().prop_map(WalkStep::Seek), 2 => Just(WalkStep::Open)];
    let op = prop_oneof![
        10 => (path.clone(), 0u16..12).prop_map(|(path, e)| TOp::Insert { path, e }),
        6 => (node_byte(), node_byte(), 0u16..12).prop_map(|(src, dst, e)| TOp::InsertEdge { src, dst, e }),
        2 => (vec(0u8..3, 0..=2), any::<u8>(), prop_oneof![3 => 2u8..=12, 1 => 100u8..=255], 1u8..=3, any::<u16>())
            .prop_map(|(prefix, first, n, stride, e0)| TOp::InsertFan { prefix, first, n, stride, e0 }),
        6 => (any::<u16>(), 0u8..4, proptest::option::weighted(0.15, vec(node_byte(), 1..=3)), vec(step, 0..=10))
            .prop_map(|(at, cut, absent, steps)| TOp::Walk { at, cut, absent, steps }),
        4 => vec((any::<u16>(), 0u8..4), 0..=4).prop_map(|at| TOp::Join { at }),
    ];
    vec(op, 1..=max_ops).prop_map(|ops| TrieCase { ops }).boxed()
}

/// byte → node id, monotone; the top six bytes are ids next to `u64::MAX`
fn nid(b: u8) -> u64 {
    if b < 250 { u64::from(b) } else { u64::MAX - u64::from(255 - b) }
}

#[derive(Default)]
struct TrieModel {
    /// path → edge ids in insertion order
    edges: BTreeMap<Vec<u64>, Vec<u64>>,
    /// every prefix of an inserted path (the empty one included: the root always exists) → its child keys
    children: BTreeMap<Vec<u64>, BTreeSet<u64>>,
    inserts: usize,
}

impl TrieModel {
    fn new() -> Self {
        let mut m = TrieModel::default();
        m.children.insert(Vec::new(), BTreeSet::new());
        m
    }
    fn insert(&mut self, path: &[u64], e: u64) {
        for i in 0..path.len() {
            self.children.entry(path[..i].to_vec()).or_default().insert(path[i]);
        }
        self.children.entry(path.to_vec()).or_default();
        self.edges.entry(path.to_vec()).or_default().push(e);
        self.inserts += 1;
    }
}

fn npath(p: &[u64]) -> Vec<NodeId> {
    p.iter().map(|x| NodeId::new(*x)).collect()
}

/// All keys of an iterator from its current position, by `key()` / `next()`; checks the return value of `next()` and
/// the exhausted state on the way.
fn drain(it: &mut TrieIterator<'_>, ctx: &str) -> Result<Vec<u64>, Failure> {
    let mut out = Vec::new();
    let mut guard_n = 0usize;
    loop {
        let k = it.key();
        if it.is_valid() != k.is_some() {
            return fail("c14/trie/iterator/is_valid-vs-key", format!("{ctx}: is_valid {} but key {k:?}", it.is_valid()));
        }
        let Some(k) = k else { break };
        out.push(k.as_u64());
        let more = it.next();
        if more != it.key().is_some() {
            return fail("c14/trie/iterator/next-return", format!("{ctx}: next() returned {more} but key() is then {:?}", it.key()));
        }
        guard_n += 1;
        if guard_n > 100_000 {
            return fail("c14/trie/iterator/does-not-terminate", format!("{ctx}: more than 100000 keys"));
        }
    }
    if it.next() {
        return fail("c14/trie/iterator/next-after-end", format!("{ctx}: next() on an exhausted iterator returned true"));
    }
    Ok(out)
}

fn check_node(trie: &TrieIndex, model: &TrieModel, p: &[u64], ctx: &str) -> Result<(), Failure> {
    let np = npath(p);
    let got = guard("get", || trie.get(&np).map(|s| s.iter().map(|e| e.as_u64()).collect::<Vec<_>>()))?;
    let exp = model.edges.get(p).cloned();
    if got != exp {
        return fail(
            if exp.is_some() && got.is_none() { "c14/trie/get/missing" } else { "c14/trie/get/mismatch" },
            format!("{ctx}: get({p:?}) = {got:?}, model {exp:?}"),
        );
    }
    let it = guard("iter_at", || trie.iter_at(&np))?;
    match (it, model.children.get(p)) {
        (None, None) => {}
        (Some(mut it), Some(ch)) => {
            let keys = guard("drain", || drain(&mut it, &format!("{ctx}: iter_at({p:?})")))??;
            let exp: Vec<u64> = ch.iter().copied().collect();
            if keys != exp {
                let mut s = keys.clone();
                s.sort_unstable();
                let sig = if s == exp { "c14/trie/iter_at/keys-not-sorted" } else { "c14/trie/iter_at/keys" };
                return fail(sig, format!("{ctx}: iter_at({p:?}) yields {keys:?}, model children {exp:?}"));
            }
        }
        (None, Some(_)) => return fail("c14/trie/iter_at/none-for-present-path", format!("{ctx}: iter_at({p:?}) is None, the path was inserted (or is a prefix of one)")),
        (Some(_), None) => return fail("c14/trie/iter_at/some-for-absent-path", format!("{ctx}: iter_at({p:?}) is Some, nothing was inserted under it")),
    }
    Ok(())
}

pub fn check_trie(case: &TrieCase) -> CaseResult {
    let mut trie = guard("TrieIndex::new", TrieIndex::new)?;
    let mut model = TrieModel::new();
    let (mut walks, mut joins, mut nonempty_joins, mut max_fan, mut prefix_pair, mut dup_path) = (0u32, 0u32, 0u32, 0usize, false, false);

    for (step, op) in case.ops.iter().enumerate() {
        let after = format!("after step {step} ({op:?})");
        let mut touched: Vec<Vec<u64>> = Vec::new();
        let mut ins = |trie: &mut TrieIndex, model: &mut TrieModel, p: Vec<u64>, e: u64, via_edge: bool| -> Result<(), Failure> {
            dup_path |= model.edges.contains_key(&p);
            prefix_pair |= model.children.get(&p).is_some_and(|c| !c.is_empty()) || (1..p.len()).any(|i| model.edges.contains_key(&p[..i]));
            if via_edge {
                guard("insert_edge", || trie.insert_edge(NodeId::new(p[0]), NodeId::new(p[1]), EdgeId::new(e)))?;
            } else {
                let np = npath(&p);
                guard("insert", || trie.insert(&np, EdgeId::new(e)))?;
            }
            model.insert(&p, e);
            Ok(())
        };
        match op {
            TOp::Insert { path, e } => {
                let p: Vec<u64> = path.iter().map(|b| nid(*b)).collect();
                ins(&mut trie, &mut model, p.clone(), u64::from(*e), false)?;
                touched.push(p);
            }
            TOp::InsertEdge { src, dst, e } => {
                let p = vec![nid(*src), nid(*dst)];
                ins(&mut trie, &mut model, p.clone(), u64::from(*e), true)?;
                touched.push(p);
            }
            TOp::InsertFan { prefix, first, n, stride, e0 } => {
                let pre: Vec<u64> = prefix.iter().map(|b| nid(*b)).collect();
                for j in 0..u64::from(*n) {
                    let mut p = pre.clone();
                    // descending insertion order for odd strides, so sortedness is not an accident of insertion order
                    let jj = if stride % 2 == 1 { u64::from(*n) - 1 - j } else { j };
                    p.push(u64::from(*first) + jj * u64::from(*stride) * 7);
                    ins(&mut trie, &mut model, p, u64::from(*e0) + j, false)?;
                }
                touched.push(pre);
            }
            TOp::Walk { at, cut, absent, steps } => {
                walks += 1;
                let p: Vec<u64> = match absent {
                    Some(a) => a.iter().map(|b| nid(*b).wrapping_add(1_000)).collect(),
                    None => {
                        let all: Vec<&Vec<u64>> = model.children.keys().collect();
                        let q = all[pick(*at, all.len())];
                        q[..q.len().saturating_sub(usize::from(*cut) % (q.len() + 1))].to_vec()
                    }
                };
                let np = npath(&p);
                let it = guard("iter_at", || trie.iter_at(&np))?;
                let Some(ch) = model.children.get(&p) else {
                    if it.is_some() {
                        return fail("c14/trie/iter_at/some-for-absent-path", format!("{after}: iter_at({p:?}) is Some"));
                    }
                    continue;
                };
                let Some(mut it) = it else {
                    return fail("c14/trie/iter_at/none-for-present-path", format!("{after}: iter_at({p:?}) is None"));
                };
                if p.is_empty() {
                    // `iter()` is the same view
                    let mut root = guard("iter", || trie.iter())?;
                    let keys = guard("drain", || drain(&mut root, &format!("{after}: iter()")))??;
                    if keys != ch.iter().copied().collect::<Vec<_>>() {
                        return fail("c14/trie/iter/keys", format!("{after}: iter() yields {keys:?}, model {ch:?}"));
                    }
                }
                // model iterator: sorted keys + position
                let mut cur_path = p.clone();
                let mut keys: Vec<u64> = ch.iter().copied().collect();
                let mut pos = 0usize;
                for (si, s) in steps.iter().enumerate() {
                    let ctx = format!("{after}: walk step {si} ({s:?}) under {cur_path:?}");
                    match s {
                        WalkStep::Next => {
                            let r = guard("next", || it.next())?;
                            if pos < keys.len() {
                                pos += 1;
                            }
                            if r != (pos < keys.len()) {
                                return fail("c14/trie/iterator/next-return", format!("{ctx}: next() = {r}, model position {pos} of {}", keys.len()));
                            }
                        }
                        WalkStep::Seek(t) => {
                            let t = nid(*t);
                            let forward = pos >= keys.len() || t >= keys[pos];
                            let r = guard("seek", || it.seek(NodeId::new(t)))?;
                            if forward {
                                // "Seeks to the first key >= target": from the current position on
                                pos += keys[pos.min(keys.len())..].iter().take_while(|k| **k < t).count();
                                if r != (pos < keys.len()) {
                                    return fail("c14/trie/iterator/seek-return", format!("{ctx}: seek({t}) = {r}, model lands on {:?}", keys.get(pos)));
                                }
                            } else {
                                // a target behind the iterator: leapfrog iterators only move forward; the only demand is a
                                // valid position on a key >= target that is not before the old position
                                let k = it.key().map(|k| k.as_u64());
                                match k.and_then(|k| keys.iter().position(|x| *x == k)) {
                                    Some(np) if np >= pos && keys[np] >= t && r => pos = np,
                                    _ => return fail("c14/trie/iterator/seek-backward", format!("{ctx}: seek({t}) from key {:?} = {r}, now at {k:?}", keys.get(pos))),
                                }
                            }
                        }
                        WalkStep::Open => {
                            let child = guard("open", || it.open())?;
                            match (child, keys.get(pos)) {
                                (None, None) => {}
                                (Some(c), Some(k)) => {
                                    cur_path.push(*k);
                                    keys = model.children.get(&cur_path).map(|c| c.iter().copied().collect()).unwrap_or_default();
                                    pos = 0;
                                    it = c;
                                }
                                (c, k) => return fail("c14/trie/iterator/open", format!("{ctx}: open() is_some = {}, model key {k:?}", c.is_some())),
                            }
                        }
                    }
                    let k = guard("key", || it.key())?.map(|k| k.as_u64());
                    let v = guard("is_valid", || it.is_valid())?;
                    if k != keys.get(pos).copied() || v != (pos < keys.len()) {
                        return fail("c14/trie/iterator/position", format!("{ctx}: key() = {k:?} is_valid = {v}, model key {:?} (keys {keys:?})", keys.get(pos)));
                    }
                }
            }
            TOp::Join { at } => {
                joins += 1;
                let all: Vec<&Vec<u64>> = model.children.keys().collect();
                let paths: Vec<Vec<u64>> = at
                    .iter()
                    .map(|(i, cut)| {
                        let q = all[pick(*i, all.len())];
                        q[..q.len().saturating_sub(usize::from(*cut) % (q.len() + 1))].to_vec()
                    })
                    .collect();
                let mut iters = Vec::new();
                for p in &paths {
                    let np = npath(p);
                    match guard("iter_at", || trie.iter_at(&np))? {
                        Some(it) => iters.push(it),
                        None => return fail("c14/trie/iter_at/none-for-present-path", format!("{after}: iter_at({p:?}) is None")),
                    }
                }
                let exp: Vec<u64> = match paths.first() {
                    None => Vec::new(),
                    Some(p0) => model.children[p0].iter().copied().filter(|k| paths.iter().all(|p| model.children[p].contains(k))).collect(),
                };
                nonempty_joins += u32::from(!exp.is_empty());
                let mut join = guard("LeapfrogJoin::new", || LeapfrogJoin::new(iters))?;
                let mut got = Vec::new();
                loop {
                    let Some(k) = guard("join.key", || join.key())? else { break };
                    got.push(k.as_u64());
                    // the next level: one iterator per input, over that input's children under the common key
                    let opened = guard("join.open", || join.open())?;
                    let Some(opened) = opened else {
                        return fail("c14/trie/join/open-none-at-key", format!("{after}: open() is None at key {k:?}"));
                    };
                    let mut got_lists: Vec<Vec<u64>> = Vec::new();
                    for mut o in opened {
                        got_lists.push(guard("drain", || drain(&mut o, &format!("{after}: join.open() at {k:?}")))??);
                    }
                    got_lists.sort();
                    let mut exp_lists: Vec<Vec<u64>> = paths
                        .iter()
                        .map(|p| {
                            let mut q = p.clone();
                            q.push(k.as_u64());
                            model.children.get(&q).map(|c| c.iter().copied().collect()).unwrap_or_default()
                        })
                        .collect();
                    exp_lists.sort();
                    if got_lists != exp_lists {
                        return fail("c14/trie/join/open", format!("{after}: open() at key {k:?} over {paths:?}: child key lists {got_lists:?}, model {exp_lists:?}"));
                    }
                    if got.len() > exp.len() + 2 {
                        break;
                    }
                    let more = guard("join.next", || join.next())?;
                    if more != join.key().is_some() {
                        return fail("c14/trie/join/next-return", format!("{after}: next() = {more}, key() then {:?}", join.key()));
                    }
                }
                if got != exp {
                    let sig = if got.len() < exp.len() && got.iter().all(|k| exp.contains(k)) { "c14/trie/join/missing-keys" } else { "c14/trie/join/keys" };
                    return fail(sig, format!("{after}: leapfrog over {paths:?} yields {got:?}, intersection of the child sets is {exp:?}"));
                }
                if guard("join.next", || join.next())? {
                    return fail("c14/trie/join/next-after-end", format!("{after}: next() after the last key returned true"));
                }
                if paths.is_empty() && guard("join.open", || join.open())?.is_some() {
                    return fail("c14/trie/join/open-without-key", format!("{after}: open() without a current key is Some"));
                }
            }
        }

        // ---- oracle after every step ----
        let len = guard("len", || trie.len())?;
        let emp = guard("is_empty", || trie.is_empty())?;
        if len != model.inserts || emp != (model.inserts == 0) {
            return fail("c14/trie/len", format!("{after}: len {len} is_empty {emp}, {} inserts so far", model.inserts));
        }
        max_fan = max_fan.max(model.children.values().map(BTreeSet::len).max().unwrap_or(0));
        let full = model.children.len() <= 150 || step % 8 == 7 || step + 1 == case.ops.len();
        if full {
            for p in model.children.keys() {
                check_node(&trie, &model, p, &after)?;
            }
        } else {
            for p in &touched {
                for i in 0..=p.len() {
                    check_node(&trie, &model, &p[..i], &after)?;
                }
            }
        }
        // absent paths: an extension of a touched path by an unused key, and an unused first key
        for p in touched.iter().chain([&Vec::new()]) {
            let mut q = p.clone();
            q.push(777_777);
            check_node(&trie, &model, &q, &after)?;
        }
    }
    let class = format!(
        "{}{}{}",
        if max_fan >= 100 { "wide" } else if max_fan >= 5 { "bushy" } else { "narrow" },
        if prefix_pair { "+prefix" } else { "" },
        if nonempty_joins > 0 { "+join" } else { "" }
    );
    ok((prefix_pair || dup_path) && (walks > 0 || joins > 0) && max_fan >= 3, class, hash_dbg(case))
}
