//! Abstract LPG model for C14 (and C20): plain BTreeMaps, plain-data values, no grafeo code.
//!
//! Conventions adopted from the code/docs of `LpgStore` (see DESIGN.md §5.2):
//! * ids are never reused; `delete_node` does **not** cascade (edges of a deleted node stay live and stay
//!   reachable through the adjacency of the dead id; `delete_node_edges` is the explicit detach);
//! * `create_edge` does not check its endpoints (dangling edges can be created);
//! * properties and labels of a dead node are gone (`get_node` is `None`).

use std::collections::{BTreeMap, BTreeSet};
use std::fmt;

use serde::{Deserialize, Serialize};

pub const LABELS: [&str; 3] = ["A", "B", "C"];
pub const KEYS: [&str; 4] = ["x", "y", "s", "w"];
pub const TYPES: [&str; 2] = ["R", "S"];

/// Offset added to a model id that was never issued, so that the store never issues it either.
pub const UNKNOWN_BASE: u64 = 1_000_000_000;

/// A property value as plain data. Floats are kept as bit patterns so that NaN payloads and the sign of
/// zero survive the JSON replay file.
#[derive(Clone, PartialEq, Eq, PartialOrd, Ord, Hash, Serialize, Deserialize)]
pub enum V {
    Null,
    Bool(bool),
    Int(i64),
    /// `f64::to_bits`
    F(u64),
    Str(String),
    Bytes(Vec<u8>),
    Ts(i64),
    List(Vec<V>),
    Map(Vec<(String, V)>),
    /// `f32::to_bits` per element
    Vector(Vec<u32>),
}

impl fmt::Debug for V {
    fn fmt(&self, f: &mut fmt::Formatter<'_>) -> fmt::Result {
        match self {
            V::Null => write!(f, "Null"),
            V::Bool(b) => write!(f, "{b}"),
            V::Int(i) => write!(f, "{i}i"),
            V::F(b) => {
                let x = f64::from_bits(*b);
                if x.is_nan() { write!(f, "NaN#{b:x}") } else { write!(f, "{x:?}f") }
            }
            V::Str(s) => write!(f, "{s:?}"),
            V::Bytes(b) => write!(f, "b{b:?}"),
            V::Ts(t) => write!(f, "ts{t}"),
            V::List(l) => f.debug_list().entries(l.iter()).finish(),
            V::Map(m) => f.debug_map().entries(m.iter().map(|(k, v)| (k, v))).finish(),
            V::Vector(v) => {
                write!(f, "vec")?;
                f.debug_list().entries(v.iter().map(|b| f32::from_bits(*b))).finish()
            }
        }
    }
}

impl V {
    pub fn f(x: f64) -> V {
        V::F(x.to_bits())
    }

    /// True if the value (at any depth) contains a NaN or a zero float: the region where bitwise and
    /// IEEE equality differ.
    pub fn has_float_edge(&self) -> bool {
        match self {
            V::F(b) => {
                let x = f64::from_bits(*b);
                x.is_nan() || x == 0.0
            }
            V::Vector(v) => v.iter().any(|b| {
                let x = f32::from_bits(*b);
                x.is_nan() || x == 0.0
            }),
            V::List(l) => l.iter().any(V::has_float_edge),
            V::Map(m) => m.iter().any(|(_, v)| v.has_float_edge()),
            _ => false,
        }
    }
}

/// `Value`'s own equality (derived `PartialEq`: IEEE on floats, element-wise on containers) — the equality
/// the scan path of `find_nodes_by_property` uses.
pub fn veq(a: &V, b: &V) -> bool {
    match (a, b) {
        (V::Null, V::Null) => true,
        (V::Bool(x), V::Bool(y)) => x == y,
        (V::Int(x), V::Int(y)) => x == y,
        (V::F(x), V::F(y)) => f64::from_bits(*x) == f64::from_bits(*y),
        (V::Str(x), V::Str(y)) => x == y,
        (V::Bytes(x), V::Bytes(y)) => x == y,
        (V::Ts(x), V::Ts(y)) => x == y,
        (V::List(x), V::List(y)) => x.len() == y.len() && x.iter().zip(y).all(|(p, q)| veq(p, q)),
        (V::Map(x), V::Map(y)) => {
            // BTreeMap equality: same length, pairwise equal in key order
            let mx: BTreeMap<&String, &V> = x.iter().map(|(k, v)| (k, v)).collect();
            let my: BTreeMap<&String, &V> = y.iter().map(|(k, v)| (k, v)).collect();
            mx.len() == my.len() && mx.iter().zip(my.iter()).all(|((ka, va), (kb, vb))| ka == kb && veq(va, vb))
        }
        (V::Vector(x), V::Vector(y)) => {
            x.len() == y.len() && x.iter().zip(y).all(|(p, q)| f32::from_bits(*p) == f32::from_bits(*q))
        }
        _ => false,
    }
}

/// Ordering used by range scans (`find_nodes_in_range`): Int/Int, Float/Float (partial), Int/Float by value,
/// String/String, Bool/Bool; everything else is incomparable.
pub fn vcmp(a: &V, b: &V) -> Option<std::cmp::Ordering> {
    match (a, b) {
        (V::Int(x), V::Int(y)) => Some(x.cmp(y)),
        (V::F(x), V::F(y)) => f64::from_bits(*x).partial_cmp(&f64::from_bits(*y)),
        (V::Str(x), V::Str(y)) => Some(x.cmp(y)),
        (V::Bool(x), V::Bool(y)) => Some(x.cmp(y)),
        // Int64 and Float64 compare by value through f64, as the generic filter operator does
        // (repo fix 2b15572 "range lookup compares Int64 and Float64 by value like the filter operator")
        (V::Int(x), V::F(y)) => (*x as f64).partial_cmp(&f64::from_bits(*y)),
        (V::F(x), V::Int(y)) => f64::from_bits(*x).partial_cmp(&(*y as f64)),
        _ => None,
    }
}

/// Range membership with the semantics of a same-type comparison scan.
pub fn in_range(v: &V, min: Option<&V>, max: Option<&V>, min_incl: bool, max_incl: bool) -> bool {
    use std::cmp::Ordering::*;
    if let Some(lo) = min {
        match vcmp(v, lo) {
            Some(Greater) => {}
            Some(Equal) if min_incl => {}
            _ => return false,
        }
    }
    if let Some(hi) = max {
        match vcmp(v, hi) {
            Some(Less) => {}
            Some(Equal) if max_incl => {}
            _ => return false,
        }
    }
    true
}

#[derive(Clone, Debug, Default, PartialEq)]
pub struct MNode {
    pub labels: BTreeSet<u8>,
    pub props: BTreeMap<u8, V>,
}

#[derive(Clone, Debug, PartialEq)]
pub struct MEdge {
    pub src: u64,
    pub dst: u64,
    pub ty: u8,
    pub props: BTreeMap<u8, V>,
}

/// What makes a history non-trivial (DESIGN C14 **N**), tracked by the model.
#[derive(Clone, Debug, Default, PartialEq)]
pub struct Flags {
    /// some adjacency list (out or in) reached more than 64 entries (tombstoned ones included)
    pub crossed_chunk: bool,
    /// a label / property / (src,dst) pair was re-added after having been removed / deleted
    pub readded: bool,
    /// a property with an index on its key was overwritten with a different value
    pub overwrote_indexed: bool,
    /// a node that still had live edges was deleted without detaching
    pub deleted_with_edges: bool,
    /// `set_*_property` was applied to a deleted id (see known finding `C14-set-property-on-deleted-id`)
    pub set_on_dead: bool,
}

#[derive(Clone, Debug, Default, PartialEq)]
pub struct Model {
    pub nodes: BTreeMap<u64, MNode>,
    pub edges: BTreeMap<u64, MEdge>,
    pub dead_nodes: BTreeSet<u64>,
    pub dead_edges: BTreeSet<u64>,
    pub next_node: u64,
    pub next_edge: u64,
    /// keys (indices into `KEYS`) that currently have a property index
    pub indexes: BTreeSet<u8>,
    /// store configured with backward adjacency
    pub backward: bool,
    /// generated `set_*_property` ops may aim at deleted ids (off by default: known finding
    /// C14-set-property-on-deleted-id would otherwise end a large share of the histories early)
    pub allow_set_on_dead: bool,
    /// 2 = `compute_statistics` ran and nothing was mutated since (totals, per-label and per-type counts must be
    /// exact); 1 = `ensure_statistics_fresh` ran and nothing was mutated since (totals must be exact); 0 = stale
    pub stats_fresh: u8,
    pub flags: Flags,
    // --- trackers (not part of the abstract state) ---
    /// physical out/in list lengths incl. deleted entries (what the chunking sees)
    pub phys_out: BTreeMap<u64, u32>,
    pub phys_in: BTreeMap<u64, u32>,
    removed_labels: BTreeSet<(u64, u8)>,
    removed_props: BTreeSet<(bool, u64, u8)>,
    deleted_pairs: BTreeSet<(u64, u64)>,
    /// (is_edge, id, key) written by a `set_*_property` on a dead id
    pub ghosts: BTreeSet<(bool, u64, u8)>,
    /// (is_edge, key) columns whose min/max summary has seen a finite Float with |x| >= 2^53 since it was last rebuilt
    /// (the summary only ever widens, so the value need not be stored any more); region of known finding
    /// C14-zone-map-int-float-rounding
    pub big_float_seen: BTreeSet<(bool, u8)>,
}

fn is_big_float(v: &V) -> bool {
    match v {
        V::F(b) => {
            let x = f64::from_bits(*b);
            x.is_finite() && x.abs() >= 9_007_199_254_740_992.0
        }
        _ => false,
    }
}

/// Which kind of id an operation aims at.
#[derive(Clone, Copy, Debug, PartialEq, Eq, Serialize, Deserialize)]
pub struct Tgt {
    /// selector, mapped monotonically with `driver::pick`
    pub i: u16,
    /// 0 = live, 1 = deleted earlier, 2 = never issued
    pub k: u8,
}

/// A concrete command on model ids (the resolved form of a generated `Op`). Plain data.
#[derive(Clone, Debug, PartialEq, Serialize, Deserialize)]
pub enum Cmd {
    CreateNode { labels: Vec<u8>, props: Vec<(u8, V)> },
    DeleteNode { id: u64 },
    /// `delete_node_edges(id)` followed by `delete_node(id)` (what DETACH DELETE does)
    DetachDeleteNode { id: u64 },
    CreateEdge { src: u64, dst: u64, ty: u8, props: Vec<(u8, V)> },
    /// `n` edges hub→other (or other→hub when `incoming`), others cycling through `others`
    Burst { hub: u64, others: Vec<u64>, n: u16, incoming: bool, ty: u8 },
    DeleteEdge { id: u64 },
    SetNodeProp { id: u64, key: u8, val: V },
    RemoveNodeProp { id: u64, key: u8 },
    SetEdgeProp { id: u64, key: u8, val: V },
    RemoveEdgeProp { id: u64, key: u8 },
    AddLabel { id: u64, label: u8 },
    RemoveLabel { id: u64, label: u8 },
    CreateIndex { key: u8 },
    DropIndex { key: u8 },
    ComputeStatistics,
    EnsureStatisticsFresh,
    RebuildZoneMaps,
}

impl Cmd {
    pub fn name(&self) -> &'static str {
        match self {
            Cmd::CreateNode { .. } => "create_node",
            Cmd::DeleteNode { .. } => "delete_node",
            Cmd::DetachDeleteNode { .. } => "detach_delete_node",
            Cmd::CreateEdge { .. } => "create_edge",
            Cmd::Burst { .. } => "burst",
            Cmd::DeleteEdge { .. } => "delete_edge",
            Cmd::SetNodeProp { .. } => "set_node_property",
            Cmd::RemoveNodeProp { .. } => "remove_node_property",
            Cmd::SetEdgeProp { .. } => "set_edge_property",
            Cmd::RemoveEdgeProp { .. } => "remove_edge_property",
            Cmd::AddLabel { .. } => "add_label",
            Cmd::RemoveLabel { .. } => "remove_label",
            Cmd::CreateIndex { .. } => "create_property_index",
            Cmd::DropIndex { .. } => "drop_property_index",
            Cmd::ComputeStatistics => "compute_statistics",
            Cmd::EnsureStatisticsFresh => "ensure_statistics_fresh",
            Cmd::RebuildZoneMaps => "rebuild_zone_maps",
        }
    }
}

/// The observable result of a command (return values are part of the oracle).
#[derive(Clone, Debug, PartialEq)]
pub enum Outcome {
    Unit,
    /// model id of the created node / edge
    Created(u64),
    /// model ids of the edges created by a burst
    CreatedMany(Vec<u64>),
    Bool(bool),
    Removed(Option<V>),
}

impl Model {
    pub fn new(backward: bool) -> Self {
        Model { backward, ..Default::default() }
    }

    pub fn live_node_ids(&self) -> Vec<u64> {
        self.nodes.keys().copied().collect()
    }

    pub fn live_edge_ids(&self) -> Vec<u64> {
        self.edges.keys().copied().collect()
    }

    /// Live edges whose source / destination is not a live node.
    pub fn dangling(&self) -> Vec<(u64, bool, bool)> {
        self.edges
            .iter()
            .filter_map(|(id, e)| {
                let s = !self.nodes.contains_key(&e.src);
                let d = !self.nodes.contains_key(&e.dst);
                if s || d { Some((*id, s, d)) } else { None }
            })
            .collect()
    }

    pub fn out_edges(&self) -> BTreeMap<u64, Vec<(u64, u64)>> {
        let mut m: BTreeMap<u64, Vec<(u64, u64)>> = BTreeMap::new();
        for (id, e) in &self.edges {
            m.entry(e.src).or_default().push((e.dst, *id));
        }
        m
    }

    pub fn in_edges(&self) -> BTreeMap<u64, Vec<(u64, u64)>> {
        let mut m: BTreeMap<u64, Vec<(u64, u64)>> = BTreeMap::new();
        for (id, e) in &self.edges {
            m.entry(e.dst).or_default().push((e.src, *id));
        }
        m
    }

    pub fn nontrivial(&self) -> bool {
        self.flags.crossed_chunk || self.flags.readded || self.flags.overwrote_indexed
    }

    pub fn class(&self) -> &'static str {
        let f = &self.flags;
        match (f.crossed_chunk, f.readded, f.overwrote_indexed) {
            (true, true, true) => "chunk+readd+idx-overwrite",
            (true, true, false) => "chunk+readd",
            (true, false, true) => "chunk+idx-overwrite",
            (true, false, false) => "crosses-chunk",
            (false, true, true) => "readd+idx-overwrite",
            (false, true, false) => "readd",
            (false, false, true) => "idx-overwrite",
            (false, false, false) => "plain",
        }
    }

    fn pick_node(&self, t: Tgt) -> u64 {
        let live: Vec<u64> = self.live_node_ids();
        let dead: Vec<u64> = self.dead_nodes.iter().copied().collect();
        match t.k {
            0 if !live.is_empty() => live[crate::driver::pick(t.i, live.len())],
            1 if !dead.is_empty() => dead[crate::driver::pick(t.i, dead.len())],
            0 | 1 if !live.is_empty() => live[crate::driver::pick(t.i, live.len())],
            0 | 1 if !dead.is_empty() => dead[crate::driver::pick(t.i, dead.len())],
            _ => UNKNOWN_BASE + u64::from(t.i % 4),
        }
    }

    fn pick_edge(&self, t: Tgt) -> u64 {
        let live: Vec<u64> = self.live_edge_ids();
        let dead: Vec<u64> = self.dead_edges.iter().copied().collect();
        match t.k {
            0 if !live.is_empty() => live[crate::driver::pick(t.i, live.len())],
            1 if !dead.is_empty() => dead[crate::driver::pick(t.i, dead.len())],
            0 | 1 if !live.is_empty() => live[crate::driver::pick(t.i, live.len())],
            0 | 1 if !dead.is_empty() => dead[crate::driver::pick(t.i, dead.len())],
            _ => UNKNOWN_BASE + u64::from(t.i % 4),
        }
    }

    /// For `set_*_property`: never an id that was not issued (a caller can only hold ids the API gave it), and a
    /// deleted id only when the history opted in (`allow_set_on_dead`).
    fn pick_node_issued(&self, t: Tgt) -> Option<u64> {
        if !self.allow_set_on_dead || t.k == 0 {
            let live = self.live_node_ids();
            return if live.is_empty() { None } else { Some(live[crate::driver::pick(t.i, live.len())]) };
        }
        let id = self.pick_node(Tgt { i: t.i, k: 1 });
        if id >= UNKNOWN_BASE { None } else { Some(id) }
    }

    fn pick_edge_issued(&self, t: Tgt) -> Option<u64> {
        if !self.allow_set_on_dead || t.k == 0 {
            let live = self.live_edge_ids();
            return if live.is_empty() { None } else { Some(live[crate::driver::pick(t.i, live.len())]) };
        }
        let id = self.pick_edge(Tgt { i: t.i, k: 1 });
        if id >= UNKNOWN_BASE { None } else { Some(id) }
    }

    /// Turns a generated op into a concrete command against the current state.
    pub fn resolve(&self, op: &super::generate::Op) -> Cmd {
        use super::generate::{EdgeMode, Op};
        match op {
            Op::CreateNode { labels, props } => Cmd::CreateNode { labels: labels.clone(), props: props.clone() },
            Op::DeleteNode { t } => Cmd::DeleteNode { id: self.pick_node(*t) },
            Op::DetachDeleteNode { t } => Cmd::DetachDeleteNode { id: self.pick_node(*t) },
            Op::CreateEdge { src, dst, ty, mode, props } => {
                let (s, d) = match mode {
                    EdgeMode::Normal => (self.pick_node(*src), self.pick_node(*dst)),
                    EdgeMode::SelfLoop => {
                        let s = self.pick_node(*src);
                        (s, s)
                    }
                    EdgeMode::Parallel => {
                        // copy the endpoints of an existing live edge (falls back to a normal edge)
                        let live = self.live_edge_ids();
                        if live.is_empty() {
                            (self.pick_node(*src), self.pick_node(*dst))
                        } else {
                            let e = &self.edges[&live[crate::driver::pick(src.i, live.len())]];
                            (e.src, e.dst)
                        }
                    }
                    EdgeMode::Reverse => {
                        let live = self.live_edge_ids();
                        if live.is_empty() {
                            (self.pick_node(*src), self.pick_node(*dst))
                        } else {
                            let e = &self.edges[&live[crate::driver::pick(src.i, live.len())]];
                            (e.dst, e.src)
                        }
                    }
                };
                Cmd::CreateEdge { src: s, dst: d, ty: *ty, props: props.clone() }
            }
            Op::Burst { hub, n, incoming, ty, spread } => {
                let live = self.live_node_ids();
                let hub_id = self.pick_node(Tgt { i: hub.i, k: 0 });
                let others: Vec<u64> = if live.is_empty() {
                    vec![hub_id]
                } else {
                    // a window of the live nodes starting at `spread`
                    let start = crate::driver::pick(*spread, live.len());
                    let w = (usize::from(*spread % 7) + 1).min(live.len());
                    (0..w).map(|j| live[(start + j) % live.len()]).collect()
                };
                Cmd::Burst { hub: hub_id, others, n: *n, incoming: *incoming, ty: *ty }
            }
            Op::DeleteEdge { t } => Cmd::DeleteEdge { id: self.pick_edge(*t) },
            Op::SetNodeProp { t, key, val } => match self.pick_node_issued(*t) {
                Some(id) => Cmd::SetNodeProp { id, key: *key, val: val.clone() },
                None => Cmd::CreateNode { labels: vec![], props: vec![(*key, val.clone())] },
            },
            Op::RemoveNodeProp { t, key } => Cmd::RemoveNodeProp { id: self.pick_node(*t), key: *key },
            Op::SetEdgeProp { t, key, val } => match self.pick_edge_issued(*t) {
                Some(id) => Cmd::SetEdgeProp { id, key: *key, val: val.clone() },
                None => Cmd::ComputeStatistics,
            },
            Op::RemoveEdgeProp { t, key } => Cmd::RemoveEdgeProp { id: self.pick_edge(*t), key: *key },
            Op::AddLabel { t, label } => Cmd::AddLabel { id: self.pick_node(*t), label: *label },
            Op::RemoveLabel { t, label } => Cmd::RemoveLabel { id: self.pick_node(*t), label: *label },
            Op::CreateIndex { key } => Cmd::CreateIndex { key: *key },
            Op::DropIndex { key } => Cmd::DropIndex { key: *key },
            Op::ComputeStatistics => Cmd::ComputeStatistics,
            Op::EnsureStatisticsFresh => Cmd::EnsureStatisticsFresh,
            Op::RebuildZoneMaps => Cmd::RebuildZoneMaps,
        }
    }

    fn note_edge(&mut self, src: u64, dst: u64) {
        let o = self.phys_out.entry(src).or_insert(0);
        *o += 1;
        let oc = *o;
        let i = self.phys_in.entry(dst).or_insert(0);
        *i += 1;
        let ic = *i;
        if oc > 64 || (self.backward && ic > 64) {
            self.flags.crossed_chunk = true;
        }
        if self.deleted_pairs.contains(&(src, dst)) {
            self.flags.readded = true;
        }
    }

    fn new_edge(&mut self, src: u64, dst: u64, ty: u8, props: &[(u8, V)]) -> u64 {
        let id = self.next_edge;
        self.next_edge += 1;
        let mut p = BTreeMap::new();
        for (k, v) in props {
            p.insert(*k, v.clone());
        }
        self.edges.insert(id, MEdge { src, dst, ty, props: p });
        self.note_edge(src, dst);
        id
    }

    fn kill_edge(&mut self, id: u64) -> bool {
        match self.edges.remove(&id) {
            Some(e) => {
                self.dead_edges.insert(id);
                self.deleted_pairs.insert((e.src, e.dst));
                true
            }
            None => false,
        }
    }

    fn kill_node(&mut self, id: u64) -> bool {
        match self.nodes.remove(&id) {
            Some(_) => {
                self.dead_nodes.insert(id);
                if self.edges.values().any(|e| e.src == id || e.dst == id) {
                    self.flags.deleted_with_edges = true;
                }
                true
            }
            None => false,
        }
    }
}

/// Applies a command to the model and returns the outcome the real store must report.
pub fn apply_model(m: &mut Model, cmd: &Cmd) -> Outcome {
    let mutating = !matches!(cmd, Cmd::ComputeStatistics | Cmd::EnsureStatisticsFresh | Cmd::RebuildZoneMaps);
    // totals and per-label / per-type counts (the only statistics the oracle reads) change with node / edge
    // creation and deletion and with label changes; any mutation conservatively marks them stale.
    if mutating && !matches!(cmd, Cmd::CreateIndex { .. } | Cmd::DropIndex { .. }) {
        m.stats_fresh = 0;
    }
    match cmd {
        Cmd::CreateNode { props, .. } => {
            for (k, v) in props {
                if is_big_float(v) {
                    m.big_float_seen.insert((false, *k));
                }
            }
        }
        Cmd::CreateEdge { props, .. } => {
            for (k, v) in props {
                if is_big_float(v) {
                    m.big_float_seen.insert((true, *k));
                }
            }
        }
        Cmd::SetNodeProp { key, val, .. } if is_big_float(val) => {
            m.big_float_seen.insert((false, *key));
        }
        Cmd::SetEdgeProp { key, val, .. } if is_big_float(val) => {
            m.big_float_seen.insert((true, *key));
        }
        Cmd::RebuildZoneMaps => {
            // summaries are recomputed from what the columns hold now (values written to deleted ids included)
            let ghosts = m.ghosts.clone();
            let mut seen = BTreeSet::new();
            for n in m.nodes.values() {
                for (k, v) in &n.props {
                    if is_big_float(v) {
                        seen.insert((false, *k));
                    }
                }
            }
            for e in m.edges.values() {
                for (k, v) in &e.props {
                    if is_big_float(v) {
                        seen.insert((true, *k));
                    }
                }
            }
            for (is_edge, _, k) in ghosts {
                if m.big_float_seen.contains(&(is_edge, k)) {
                    seen.insert((is_edge, k));
                }
            }
            m.big_float_seen = seen;
        }
        _ => {}
    }
    match cmd {
        Cmd::CreateNode { labels, props } => {
            let id = m.next_node;
            m.next_node += 1;
            let mut n = MNode::default();
            for l in labels {
                n.labels.insert(*l);
            }
            for (k, v) in props {
                n.props.insert(*k, v.clone());
            }
            m.nodes.insert(id, n);
            Outcome::Created(id)
        }
        Cmd::DeleteNode { id } => Outcome::Bool(m.kill_node(*id)),
        Cmd::DetachDeleteNode { id } => {
            let incident: Vec<u64> =
                m.edges.iter().filter(|(_, e)| e.src == *id || e.dst == *id).map(|(k, _)| *k).collect();
            for e in incident {
                m.kill_edge(e);
            }
            Outcome::Bool(m.kill_node(*id))
        }
        Cmd::CreateEdge { src, dst, ty, props } => Outcome::Created(m.new_edge(*src, *dst, *ty, props)),
        Cmd::Burst { hub, others, n, incoming, ty } => {
            let mut ids = Vec::with_capacity(usize::from(*n));
            for j in 0..usize::from(*n) {
                let o = if others.is_empty() { *hub } else { others[j % others.len()] };
                let (s, d) = if *incoming { (o, *hub) } else { (*hub, o) };
                ids.push(m.new_edge(s, d, *ty, &[]));
            }
            Outcome::CreatedMany(ids)
        }
        Cmd::DeleteEdge { id } => Outcome::Bool(m.kill_edge(*id)),
        Cmd::SetNodeProp { id, key, val } => {
            let indexed = m.indexes.contains(key);
            let was_removed = m.removed_props.contains(&(false, *id, *key));
            match m.nodes.get_mut(id) {
                Some(n) => {
                    if let Some(old) = n.props.get(key) {
                        if indexed && old != val {
                            m.flags.overwrote_indexed = true;
                        }
                    } else if was_removed {
                        m.flags.readded = true;
                    }
                    n.props.insert(*key, val.clone());
                }
                None => {
                    m.flags.set_on_dead = true;
                    m.ghosts.insert((false, *id, *key));
                }
            }
            Outcome::Unit
        }
        Cmd::RemoveNodeProp { id, key } => {
            let r = m.nodes.get_mut(id).and_then(|n| n.props.remove(key));
            if r.is_some() {
                m.removed_props.insert((false, *id, *key));
            }
            Outcome::Removed(r)
        }
        Cmd::SetEdgeProp { id, key, val } => {
            let was_removed = m.removed_props.contains(&(true, *id, *key));
            match m.edges.get_mut(id) {
                Some(e) => {
                    if !e.props.contains_key(key) && was_removed {
                        m.flags.readded = true;
                    }
                    e.props.insert(*key, val.clone());
                }
                None => {
                    m.flags.set_on_dead = true;
                    m.ghosts.insert((true, *id, *key));
                }
            }
            Outcome::Unit
        }
        Cmd::RemoveEdgeProp { id, key } => {
            let r = m.edges.get_mut(id).and_then(|e| e.props.remove(key));
            if r.is_some() {
                m.removed_props.insert((true, *id, *key));
            }
            Outcome::Removed(r)
        }
        Cmd::AddLabel { id, label } => {
            let was_removed = m.removed_labels.contains(&(*id, *label));
            match m.nodes.get_mut(id) {
                Some(n) => {
                    let added = n.labels.insert(*label);
                    if added && was_removed {
                        m.flags.readded = true;
                    }
                    Outcome::Bool(added)
                }
                None => Outcome::Bool(false),
            }
        }
        Cmd::RemoveLabel { id, label } => match m.nodes.get_mut(id) {
            Some(n) => {
                let removed = n.labels.remove(label);
                if removed {
                    m.removed_labels.insert((*id, *label));
                }
                Outcome::Bool(removed)
            }
            None => Outcome::Bool(false),
        },
        Cmd::CreateIndex { key } => {
            m.indexes.insert(*key);
            Outcome::Unit
        }
        Cmd::DropIndex { key } => Outcome::Bool(m.indexes.remove(key)),
        Cmd::ComputeStatistics => {
            m.stats_fresh = 2;
            Outcome::Unit
        }
        Cmd::EnsureStatisticsFresh => {
            m.stats_fresh = m.stats_fresh.max(1);
            Outcome::Unit
        }
        Cmd::RebuildZoneMaps => Outcome::Unit,
    }
}
