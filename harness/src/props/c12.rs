//! C12 — not built yet.

use crate::driver::Run;

pub fn run(r: &mut Run) {
    r.inconclusive("C12: check not built yet");
}

/// Handles one request line inside the child worker process; returns one reply line.
pub fn worker(_request: &str) -> String {
    "ERR not built".to_string()
}
