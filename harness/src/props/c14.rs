//! C14 — not built yet.

use crate::driver::Run;

pub fn run(r: &mut Run) {
    r.inconclusive("C14: check not built yet");
}
