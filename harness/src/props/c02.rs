//! C02 — commit and rollback are all-or-nothing.
//!
//! One transaction T (1–15 mutations of every kind, through the direct session API and through GQL / Cypher /
//! SPARQL text) over a generated starting graph, ended by commit / rollback / a commit that is refused (forced
//! through hook H5: a second transaction registers a conflicting write with the transaction manager and commits
//! first) / dropping the session. Then the *observable-state battery* — every read kind of C01 for every label,
//! every id ever handed out, every node's neighbour lists and degrees, index lookups with and without a property
//! index, SPARQL — is taken by a fresh session, outside a transaction and inside a new transaction begun
//! afterwards, and compared with the reference model: after rollback / refused commit / drop the state before
//! `begin`; after a successful commit the state after T.
//!
//! The model, the conflict bookkeeping and the tolerance classes are those of C01 (`props::c01::World`): on the
//! pinned tree rollback only removes created versions, so SET/REMOVE/label/DELETE effects of a rolled-back T and
//! its adjacency entries survive (known findings, keyed by the class of the write that explains the difference).
//! Create-only transactions, every committed transaction, and every entity T did not touch are strict.

use grafeo_common::types::{NodeId, Value};
use proptest::prelude::*;
use serde::{Deserialize, Serialize};

use crate::driver::{CaseResult, Failure, Run, fail, guard, hash_dbg, ok_with_known};
use crate::props::c01::{self, Ent, N_READ_KINDS, Op, ReadVerdict, TxStatus, World};

#[derive(Clone, Debug, Serialize, Deserialize)]
pub enum End {
    Commit,
    Rollback,
    /// commit refused with a write conflict forced through the transaction manager (hook H5)
    FailedCommit,
    /// the session is dropped with the transaction open
    DropSession,
}

#[derive(Clone, Debug, Serialize, Deserialize)]
pub struct TxCase {
    pub setup: Vec<Op>,
    pub body: Vec<Op>,
    pub end: End,
    /// create a property index on "x" before the transaction
    pub index_x: bool,
    pub create_only: bool,
}

fn setup_op() -> impl Strategy<Value = Op> {
    prop_oneof![
        4 => (0u8..3, 0u8..4, 0u8..3).prop_map(|(label, x, via)| Op::CreateNode { s: 1, label, x, via }),
        2 => (any::<u16>(), any::<u16>(), 0u8..2).prop_map(|(a, b, ty)| Op::CreateEdge { s: 1, a, b, ty }),
        1 => (any::<u16>(), 0u8..2, 0u8..4).prop_map(|(n, key, val)| Op::SetProp { s: 1, n, key, val }),
        1 => (any::<u16>(), 0u8..3).prop_map(|(n, label)| Op::AddLabel { s: 1, n, label }),
        1 => (0u8..c01::N_TRIPLES).prop_map(|t| Op::RdfInsert { s: 1, t }),
    ]
}

fn body_op(create_only: bool) -> BoxedStrategy<Op> {
    if create_only {
        prop_oneof![
            4 => (0u8..3, 0u8..4, 0u8..3).prop_map(|(label, x, via)| Op::CreateNode { s: 0, label, x, via }),
            3 => (any::<u16>(), any::<u16>(), 0u8..2).prop_map(|(a, b, ty)| Op::CreateEdge { s: 0, a, b, ty }),
            1 => (0u8..3, 0u8..4).prop_map(|(label, x)| Op::Merge { s: 0, label, x }),
            1 => (0u8..c01::N_TRIPLES).prop_map(|t| Op::RdfInsert { s: 0, t }),
            1 => (0u8..c01::N_TRIPLES).prop_map(|t| Op::RdfDelete { s: 0, t }),
            2 => (0u8..N_READ_KINDS, any::<u16>(), 0u8..4).prop_map(|(kind, n, arg)| Op::Read { s: 0, kind, n, arg }),
        ]
        .boxed()
    } else {
        prop_oneof![
            4 => (0u8..3, 0u8..4, 0u8..3).prop_map(|(label, x, via)| Op::CreateNode { s: 0, label, x, via }),
            3 => (any::<u16>(), any::<u16>(), 0u8..2).prop_map(|(a, b, ty)| Op::CreateEdge { s: 0, a, b, ty }),
            3 => (any::<u16>(), 0u8..2, 0u8..4).prop_map(|(n, key, val)| Op::SetProp { s: 0, n, key, val }),
            1 => (any::<u16>(), 0u8..2).prop_map(|(n, key)| Op::RemoveProp { s: 0, n, key }),
            2 => (any::<u16>(), 0u8..3).prop_map(|(n, label)| Op::AddLabel { s: 0, n, label }),
            1 => (any::<u16>(), 0u8..3).prop_map(|(n, label)| Op::RemoveLabel { s: 0, n, label }),
            2 => any::<u16>().prop_map(|n| Op::DeleteNode { s: 0, n }),
            1 => (0u8..3, 0u8..4).prop_map(|(label, x)| Op::Merge { s: 0, label, x }),
            1 => (0u8..c01::N_TRIPLES).prop_map(|t| Op::RdfInsert { s: 0, t }),
            1 => (0u8..c01::N_TRIPLES).prop_map(|t| Op::RdfDelete { s: 0, t }),
            2 => (0u8..N_READ_KINDS, any::<u16>(), 0u8..4).prop_map(|(kind, n, arg)| Op::Read { s: 0, kind, n, arg }),
        ]
        .boxed()
    }
}

pub fn case_strategy(max_body: usize) -> impl Strategy<Value = TxCase> {
    (
        any::<bool>(),
        proptest::collection::vec(setup_op(), 0..10),
        prop_oneof![3 => Just(End::Commit), 4 => Just(End::Rollback), 2 => Just(End::FailedCommit), 2 => Just(End::DropSession)],
        any::<bool>(),
    )
        .prop_flat_map(move |(create_only, setup, end, index_x)| {
            proptest::collection::vec(body_op(create_only), 1..max_body).prop_map(move |body| TxCase {
                setup: setup.clone(),
                body,
                end: end.clone(),
                index_x,
                create_only,
            })
        })
}

/// The whole observable state through session `si`; every mismatch outside a known-defect region is a failure.
fn battery(w: &mut World, si: usize, known: &mut Vec<String>, strict: &mut u32) -> Result<(), Failure> {
    let n_nodes = w.all_nodes.len().max(1);
    let n_edges = w.all_edges.len().max(1);
    let mut todo: Vec<(u8, u16, u8)> = Vec::new();
    for kind in 0..N_READ_KINDS {
        match kind {
            0 | 13 => {
                for l in 0..3u8 {
                    todo.push((kind, 0, l));
                }
            }
            5 => {
                for v in 0..4u8 {
                    todo.push((kind, 0, v));
                }
            }
            6 | 7 => {
                for i in 0..n_nodes {
                    todo.push((kind, idx16(i, n_nodes), 0));
                }
            }
            8 => {
                for i in 0..n_edges {
                    todo.push((kind, idx16(i, n_edges), 0));
                }
            }
            17 => {
                for t in 0..2u8 {
                    todo.push((kind, 0, t));
                }
            }
            9 | 10 | 11 => {
                let live = w.view(si).nodes.len().max(1);
                for i in 0..live {
                    todo.push((kind, idx16(i, live), 0));
                }
            }
            _ => todo.push((kind, 0, 0)),
        }
    }
    for (kind, n, arg) in todo {
        match w.read_verdict(si, kind, n, arg)? {
            None => {}
            Some(ReadVerdict::Strict { .. }) | Some(ReadVerdict::ConflictButEqual) => *strict += 1,
            Some(ReadVerdict::Tolerated(class)) => known.push(format!("c02/known/{class}")),
        }
    }
    // index path: find_nodes_by_property on "x" must equal the model (with or without an index)
    let committed_view = w.view(si).clone();
    let k = w.conflicts(si, true);
    for v in 0..4i64 {
        let got = guard("find_nodes_by_property", || w.db.find_nodes_by_property("x", &Value::Int64(v)))?;
        let mut got: Vec<u64> = got.into_iter().map(|n| n.as_u64()).filter(|id| !k.contains_key(&Ent::Node(*id))).collect();
        got.sort_unstable();
        let exp: Vec<u64> = committed_view
            .nodes
            .iter()
            .filter(|(id, n)| n.props.get("x") == Some(&v) && !k.contains_key(&Ent::Node(**id)))
            .map(|(id, _)| *id)
            .collect();
        if w.cur_tx[si].is_none() && got != exp {
            return fail(
                "c02/index-lookup-mismatch",
                format!("find_nodes_by_property(x, {v}) = {got:?}, model {exp:?} (entities in a known-defect region excluded: {k:?})"),
            );
        }
    }
    Ok(())
}

/// Inverse of `driver::pick`: a u16 that `pick` maps to index `i` of `len`.
fn idx16(i: usize, len: usize) -> u16 {
    (((i as u64) * 65536 + (len as u64) - 1) / (len as u64)).min(65535) as u16
}

pub fn run_case(c: &TxCase) -> CaseResult {
    // session 0 runs T, session 1 does the setup (auto-commit), observers are added afterwards
    let mut w = World::new(2, 0);
    let mut known: Vec<String> = Vec::new();
    let mut strict = 0u32;
    let step = |w: &mut World, op: &Op, known: &mut Vec<String>| -> Result<(), Failure> {
        match w.step(op) {
            Ok(()) => Ok(()),
            Err(f) if f.signature.starts_with("c01/known/") => {
                known.push(f.signature.replacen("c01/", "c02/", 1));
                Ok(())
            }
            Err(f) => Err(Failure { signature: f.signature.replacen("c01/", "c02/", 1), what: format!("{} (at {op:?})", f.what) }),
        }
    };
    for op in &c.setup {
        step(&mut w, op, &mut known)?;
    }
    if c.index_x {
        guard("create_property_index", || w.db.create_property_index("x"))?;
    }
    // battery before (sanity of the serial baseline; must be strict)
    w.sessions.push(w.db.session());
    w.cur_tx.push(None);
    w.last_read.push(None);
    let obs = w.sessions.len() - 1;
    battery(&mut w, obs, &mut known, &mut strict)?;

    // T
    step(&mut w, &Op::Begin { s: 0, ser: false }, &mut known)?;
    let t = w.cur_tx[0].expect("transaction open");
    let tm = w.db.verif_tx_manager().clone();
    let t_txid = tm.last_assigned_tx_id();
    for op in &c.body {
        step(&mut w, op, &mut known)?;
    }
    let n_writes = w.txs[t].writes.len();
    let kinds: std::collections::HashSet<std::mem::Discriminant<c01::WOp>> = w.txs[t].writes.iter().map(std::mem::discriminant).collect();
    let before = w.committed.clone();
    let mut after = before.clone();
    for wr in &w.txs[t].writes {
        after.apply(wr);
    }
    match c.end {
        End::Commit => step(&mut w, &Op::Commit { s: 0 }, &mut known)?,
        End::Rollback => step(&mut w, &Op::Rollback { s: 0 }, &mut known)?,
        End::FailedCommit => {
            // a foreign transaction writes entity 0 and commits first; T registers the same write
            let Some(t_txid) = t_txid else { return fail("c02/no-tx-id", "transaction manager reports no assigned id") };
            let victim = NodeId::new(0);
            let u = tm.begin();
            let r = guard("tm", || tm.record_write(u, victim).and_then(|()| tm.commit(u).map(|_| ())))?;
            if let Err(e) = r {
                return fail("c02/foreign-commit-refused", format!("{e}"));
            }
            w.epoch += 1;
            if let Err(e) = guard("tm", || tm.record_write(t_txid, victim))? {
                return fail("c02/record-write-refused", format!("{e}"));
            }
            w.time += 1;
            let sess = &mut w.sessions[0];
            match guard("commit", || sess.commit())? {
                Ok(()) => return fail("c02/conflicting-commit-accepted", "commit succeeded although a conflicting writer committed first"),
                Err(_) => {}
            }
            w.txs[t].status = TxStatus::RolledBack(w.time);
            w.cur_tx[0] = None;
        }
        End::DropSession => {
            w.time += 1;
            let fresh = w.db.session();
            let old = std::mem::replace(&mut w.sessions[0], fresh);
            guard("drop session", move || drop(old))?;
            w.txs[t].status = TxStatus::RolledBack(w.time);
            w.cur_tx[0] = None;
        }
    }
    let expected_state = if matches!(c.end, End::Commit) { &after } else { &before };
    if &w.committed != expected_state {
        return fail("c02/model-inconsistent", "internal: model state after the transaction is not the expected one");
    }
    // fresh observer, outside a transaction …
    w.sessions.push(w.db.session());
    w.cur_tx.push(None);
    w.last_read.push(None);
    let o1 = w.sessions.len() - 1;
    battery(&mut w, o1, &mut known, &mut strict)?;
    // … and inside a transaction begun afterwards
    w.sessions.push(w.db.session());
    w.cur_tx.push(None);
    w.last_read.push(None);
    let o2 = w.sessions.len() - 1;
    step(&mut w, &Op::Begin { s: o2 as u8, ser: false }, &mut known)?;
    battery(&mut w, o2, &mut known, &mut strict)?;
    step(&mut w, &Op::Rollback { s: o2 as u8 }, &mut known)?;

    let nontrivial = n_writes >= 2 && kinds.len() >= 2 && before != after;
    let class = format!(
        "{}{}{}",
        match c.end {
            End::Commit => "commit",
            End::Rollback => "rollback",
            End::FailedCommit => "failed-commit",
            End::DropSession => "drop-session",
        },
        if c.create_only { "/create-only" } else { "/mixed" },
        if known.is_empty() { "" } else { "+defect-region" }
    );
    ok_with_known(nontrivial, class, hash_dbg(c), known)
}

pub fn run(r: &mut Run) {
    r.level = "exploration";
    r.rule = "one generated transaction (1-15 mutations: create node via API/GQL/Cypher, create edge, SET/REMOVE property, add/remove label, \
              DETACH DELETE, MERGE, SPARQL INSERT/DELETE DATA, own reads) over a generated starting graph (optionally with a property index), \
              ended by commit / rollback / refused commit (conflict forced through the transaction manager) / dropping the session; the full \
              observable-state battery (15 read kinds x every label / id / node, index lookups, SPARQL) by fresh sessions outside and inside a \
              later transaction against the model state before (rollback, refusal, drop) or after (commit) the transaction; non-trivial = the \
              transaction has >= 2 writes of >= 2 kinds and changes the state; distinct by hash of the case."
        .into();
    r.assumptions.push("reuses the C01 reference model and tolerance classes; see C01 assumptions".into());
    r.assumptions.push("the refused commit is produced by registering writes directly with the TransactionManager (hook H5), because sessions never register their writes".into());
    let max_body = if r.is_thorough() { 30 } else { 15 };
    r.subcheck("transaction", r.cases(40_000, 3_000_000), move || case_strategy(max_body), run_case);
}
