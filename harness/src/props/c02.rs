//! C02 — not built yet.

use crate::driver::Run;

pub fn run(r: &mut Run) {
    r.inconclusive("C02: check not built yet");
}
