//! Value generators for C16 (and for any other property that needs "every `Value` variant").
//!
//! `VSpec` is a plain-data mirror of `grafeo_common::types::Value`: floats are carried as their bit
//! patterns (so NaN payloads, signed zeros and every other f64/f32 pattern survive the JSON replay file
//! and so that `VSpec: Eq + Hash + Ord` is a *structural bitwise* comparison), maps are carried as the
//! list of insertions in generation order (later duplicates overwrite, exactly like `BTreeMap::insert`).
//!
//! Public entry points:
//! * [`value_strategy(depth)`] — every variant, containers nested to `depth` (≤ 4 is the design bound);
//! * [`scalar_strategy()`] — depth 0;
//! * [`orderable_strategy()`] — the variants `OrderableValue::try_from` accepts;
//! * [`related(a, sel, other)`] — a deterministic "near-equal" relative of `a` (same value rebuilt, Int vs
//!   equal Float, ±0, NaN payload, 2^53 / 2^63 neighbours, permuted map insertion order, …);
//! * [`VSpec::to_value`], [`VSpec::from_value`] (canonical: map entries sorted, duplicates resolved).

use std::collections::BTreeMap;
use std::fmt;
use std::sync::Arc;

use proptest::prelude::*;
use serde::{Deserialize, Serialize};

use grafeo_common::types::{PropertyKey, Timestamp, Value};

#[derive(Clone, Serialize, Deserialize, PartialEq, Eq, Hash, PartialOrd, Ord)]
pub enum VSpec {
    Null,
    Bool(bool),
    Int(i64),
    /// f64 bit pattern
    F(u64),
    Str(String),
    Bytes(Vec<u8>),
    /// microseconds since the epoch
    Ts(i64),
    /// f32 bit patterns
    Vector(Vec<u32>),
    List(Vec<VSpec>),
    /// insertions in order (a later duplicate key overwrites)
    Map(Vec<(String, VSpec)>),
}

impl fmt::Debug for VSpec {
    fn fmt(&self, f: &mut fmt::Formatter<'_>) -> fmt::Result {
        match self {
            VSpec::Null => write!(f, "Null"),
            VSpec::Bool(b) => write!(f, "Bool({b})"),
            VSpec::Int(i) => write!(f, "Int({i})"),
            VSpec::F(b) => write!(f, "F({:e}|{b:#018x})", f64::from_bits(*b)),
            VSpec::Str(s) => {
                if s.len() > 40 {
                    write!(f, "Str(len {} {:?}…)", s.len(), s.chars().take(12).collect::<String>())
                } else {
                    write!(f, "Str({s:?})")
                }
            }
            VSpec::Bytes(b) => {
                if b.len() > 24 {
                    write!(f, "Bytes(len {} {:?}…)", b.len(), &b[..8])
                } else {
                    write!(f, "Bytes({b:?})")
                }
            }
            VSpec::Ts(t) => write!(f, "Ts({t})"),
            VSpec::Vector(v) => {
                write!(f, "Vector[")?;
                for (i, b) in v.iter().enumerate().take(8) {
                    if i > 0 {
                        write!(f, ",")?;
                    }
                    write!(f, "{:e}|{b:#010x}", f32::from_bits(*b))?;
                }
                if v.len() > 8 {
                    write!(f, ",…({})", v.len())?;
                }
                write!(f, "]")
            }
            VSpec::List(l) => f.debug_list().entries(l.iter()).finish(),
            VSpec::Map(m) => f.debug_map().entries(m.iter().map(|(k, v)| (k, v))).finish(),
        }
    }
}

impl VSpec {
    pub fn f(x: f64) -> VSpec {
        VSpec::F(x.to_bits())
    }

    pub fn to_value(&self) -> Value {
        match self {
            VSpec::Null => Value::Null,
            VSpec::Bool(b) => Value::Bool(*b),
            VSpec::Int(i) => Value::Int64(*i),
            VSpec::F(b) => Value::Float64(f64::from_bits(*b)),
            VSpec::Str(s) => Value::String(s.as_str().into()),
            VSpec::Bytes(b) => Value::Bytes(Arc::from(b.as_slice())),
            VSpec::Ts(t) => Value::Timestamp(Timestamp::from_micros(*t)),
            VSpec::Vector(v) => Value::Vector(v.iter().map(|b| f32::from_bits(*b)).collect::<Vec<f32>>().into()),
            VSpec::List(l) => Value::List(l.iter().map(VSpec::to_value).collect::<Vec<Value>>().into()),
            VSpec::Map(m) => {
                let mut bm = BTreeMap::new();
                for (k, v) in m {
                    bm.insert(PropertyKey::new(k.as_str()), v.to_value());
                }
                Value::Map(Arc::new(bm))
            }
        }
    }

    /// Canonical mirror of a `Value` (map entries in key order).
    pub fn from_value(v: &Value) -> VSpec {
        match v {
            Value::Null => VSpec::Null,
            Value::Bool(b) => VSpec::Bool(*b),
            Value::Int64(i) => VSpec::Int(*i),
            Value::Float64(f) => VSpec::F(f.to_bits()),
            Value::String(s) => VSpec::Str(s.to_string()),
            Value::Bytes(b) => VSpec::Bytes(b.to_vec()),
            Value::Timestamp(t) => VSpec::Ts(t.as_micros()),
            Value::Vector(x) => VSpec::Vector(x.iter().map(|f| f.to_bits()).collect()),
            Value::List(l) => VSpec::List(l.iter().map(VSpec::from_value).collect()),
            Value::Map(m) => {
                let mut e: Vec<(String, VSpec)> =
                    m.iter().map(|(k, v)| (k.as_str().to_string(), VSpec::from_value(v))).collect();
                e.sort_by(|a, b| a.0.cmp(&b.0));
                VSpec::Map(e)
            }
        }
    }

    /// Canonical form: duplicates in maps resolved (last wins), entries sorted by key, recursively.
    /// Two specs denote bit-identical values iff their canonical forms are `==`.
    pub fn canonical(&self) -> VSpec {
        match self {
            VSpec::List(l) => VSpec::List(l.iter().map(VSpec::canonical).collect()),
            VSpec::Map(m) => {
                let mut bm: BTreeMap<String, VSpec> = BTreeMap::new();
                for (k, v) in m {
                    bm.insert(k.clone(), v.canonical());
                }
                VSpec::Map(bm.into_iter().collect())
            }
            other => other.clone(),
        }
    }

    pub fn is_container(&self) -> bool {
        matches!(self, VSpec::List(_) | VSpec::Map(_))
    }

    pub fn is_orderable(&self) -> bool {
        matches!(self, VSpec::Bool(_) | VSpec::Int(_) | VSpec::F(_) | VSpec::Str(_) | VSpec::Ts(_))
    }

    /// Short type tag (numeric variants are distinguished).
    pub fn tag(&self) -> &'static str {
        match self {
            VSpec::Null => "null",
            VSpec::Bool(_) => "bool",
            VSpec::Int(_) => "int",
            VSpec::F(_) => "float",
            VSpec::Str(_) => "string",
            VSpec::Bytes(_) => "bytes",
            VSpec::Ts(_) => "timestamp",
            VSpec::Vector(_) => "vector",
            VSpec::List(_) => "list",
            VSpec::Map(_) => "map",
        }
    }

    /// NaN, ±0, ±∞, subnormal, |x| ≥ 2^53 (f64), or the same patterns in an f32 vector; or an Int with
    /// |i| ≥ 2^53 (not exactly representable neighbourhood). Looks inside containers.
    pub fn has_float_edge(&self) -> bool {
        match self {
            VSpec::F(b) => f64_is_edge(f64::from_bits(*b)),
            VSpec::Int(i) => i.unsigned_abs() >= (1u64 << 53),
            VSpec::Vector(v) => v.iter().any(|b| {
                let x = f32::from_bits(*b);
                x.is_nan() || x == 0.0 || x.is_infinite() || x.is_subnormal()
            }),
            VSpec::List(l) => l.iter().any(VSpec::has_float_edge),
            VSpec::Map(m) => m.iter().any(|(_, v)| v.has_float_edge()),
            _ => false,
        }
    }

    pub fn depth(&self) -> u32 {
        match self {
            VSpec::List(l) => 1 + l.iter().map(VSpec::depth).max().unwrap_or(0),
            VSpec::Map(m) => 1 + m.iter().map(|(_, v)| v.depth()).max().unwrap_or(0),
            _ => 0,
        }
    }
}

pub fn f64_is_edge(x: f64) -> bool {
    x.is_nan() || x == 0.0 || x.is_infinite() || x.is_subnormal() || x.abs() >= 9_007_199_254_740_992.0
}

// ------------------------------------------------------------------------------------------------
// leaf strategies
// ------------------------------------------------------------------------------------------------

const P53: i64 = 1i64 << 53;

pub fn int_strategy() -> impl Strategy<Value = i64> {
    prop_oneof![
        6 => -6i64..=6,
        2 => any::<i64>(),
        2 => -1000i64..1000,
        // 2^53 neighbourhood, both signs
        4 => (-3i64..=3, any::<bool>()).prop_map(|(d, neg)| if neg { -(P53 + d) } else { P53 + d }),
        // 2^63 neighbourhood
        3 => (0i64..=3).prop_map(|d| i64::MAX - d),
        1 => (0i64..=1100).prop_map(|d| i64::MAX - d),
        2 => (0i64..=3).prop_map(|d| i64::MIN + d),
        1 => (0i64..=2100).prop_map(|d| i64::MIN + d),
        1 => Just(1i64 << 62),
        // integers whose two's complement equals the bit pattern of a common float
        // (operators that key floats by `to_bits() as i64` would merge these with the float)
        1 => prop_oneof![Just(0.0f64), Just(1.0), Just(-1.0), Just(2.0), Just(0.5), Just(-0.0), Just(f64::NAN), Just(f64::INFINITY)]
            .prop_map(|f| f.to_bits() as i64),
    ]
}

/// f64 bit patterns.
pub fn f64_bits_strategy() -> impl Strategy<Value = u64> {
    prop_oneof![
        5 => (-6i64..=6).prop_map(|i| (i as f64).to_bits()),
        3 => (-64i64..=64).prop_map(|i| (i as f64 / 8.0).to_bits()),
        2 => prop_oneof![Just(0.0f64.to_bits()), Just((-0.0f64).to_bits())],
        2 => prop_oneof![Just(f64::INFINITY.to_bits()), Just(f64::NEG_INFINITY.to_bits())],
        // NaNs: canonical, negative canonical, arbitrary payload / sign / signalling
        1 => Just(f64::NAN.to_bits()),
        1 => Just(f64::NAN.to_bits() | (1u64 << 63)),
        2 => (1u64..(1u64 << 52), any::<bool>()).prop_map(|(p, s)| 0x7ff0_0000_0000_0000 | p | (u64::from(s) << 63)),
        // subnormals and the smallest normal
        2 => (1u64..(1u64 << 52), any::<bool>()).prop_map(|(p, s)| p | (u64::from(s) << 63)),
        1 => prop_oneof![Just(1u64), Just(f64::MIN_POSITIVE.to_bits()), Just(f64::MAX.to_bits()), Just(f64::MIN.to_bits()), Just(f64::EPSILON.to_bits())],
        // 2^53 neighbourhood (floats are 1 apart below, 2 apart above), both signs
        3 => (-3i64..=3, any::<bool>()).prop_map(|(d, neg)| {
            let b = 9_007_199_254_740_992.0f64.to_bits();
            let x = f64::from_bits((b as i64 + d) as u64);
            (if neg { -x } else { x }).to_bits()
        }),
        // 2^63 neighbourhood, both signs; 2^64
        3 => (-3i64..=3, any::<bool>()).prop_map(|(d, neg)| {
            let b = 9_223_372_036_854_775_808.0f64.to_bits();
            let x = f64::from_bits((b as i64 + d) as u64);
            (if neg { -x } else { x }).to_bits()
        }),
        1 => Just(18_446_744_073_709_551_616.0f64.to_bits()),
        // i64 extremes cast to f64
        1 => int_strategy().prop_map(|i| (i as f64).to_bits()),
        2 => any::<u64>(),
        1 => any::<f64>().prop_map(f64::to_bits),
    ]
}

pub fn f32_bits_strategy() -> impl Strategy<Value = u32> {
    prop_oneof![
        4 => (-8i32..=8).prop_map(|i| (i as f32 / 4.0).to_bits()),
        1 => prop_oneof![Just(0.0f32.to_bits()), Just((-0.0f32).to_bits()), Just(f32::INFINITY.to_bits()), Just(f32::NEG_INFINITY.to_bits())],
        1 => (1u32..(1u32 << 23), any::<bool>()).prop_map(|(p, s)| 0x7f80_0000 | p | (u32::from(s) << 31)),
        1 => (1u32..(1u32 << 23)).prop_map(|p| p),
        1 => any::<u32>(),
    ]
}

pub fn string_strategy() -> impl Strategy<Value = String> {
    prop_oneof![
        2 => Just(String::new()),
        5 => "[a-c]{1,3}",
        3 => "[ -~]{0,12}",
        // non-ASCII: 2-, 3- and 4-byte scalars, combining marks, NUL, quotes and backslashes
        3 => proptest::collection::vec(
                prop_oneof![Just('é'), Just('ß'), Just('Ω'), Just('日'), Just('本'), Just('\u{0301}'), Just('😀'), Just('\u{10FFFF}'),
                            Just('\0'), Just('"'), Just('\\'), Just('\n'), Just('a'), Just('\u{7f}'), Just('\u{80}'), Just('\u{FFFD}')],
                1..6).prop_map(|cs| cs.into_iter().collect::<String>()),
        1 => any::<String>(),
        // strings that look like other values' renderings
        1 => prop_oneof![Just("1".to_string()), Just("1.0".to_string()), Just("NaN".to_string()), Just("null".to_string()),
                         Just("Bytes([1; 2 bytes])".to_string()), Just("Int64(1)".to_string()), Just("true".to_string())],
        // long
        1 => (200usize..3000, prop_oneof![Just('x'), Just('é'), Just('😀')]).prop_map(|(n, c)| std::iter::repeat_n(c, n).collect::<String>()),
    ]
}

pub fn bytes_strategy() -> impl Strategy<Value = Vec<u8>> {
    prop_oneof![
        2 => Just(Vec::new()),
        // same first byte and same length (a key built from "first byte; length" would merge them)
        4 => proptest::collection::vec(0u8..3, 1..4),
        2 => proptest::collection::vec(any::<u8>(), 0..16),
        1 => prop_oneof![Just(vec![0u8]), Just(vec![0xff]), Just(vec![0xc3, 0x28]), Just(b"abc".to_vec())],
        1 => proptest::collection::vec(any::<u8>(), 200..1200),
    ]
}

pub fn ts_strategy() -> impl Strategy<Value = i64> {
    prop_oneof![
        4 => -5i64..=5,
        2 => any::<i64>(),
        1 => prop_oneof![Just(i64::MIN), Just(i64::MAX), Just(0i64)],
        // sub-millisecond / sub-second digits (a serialisation that truncates precision loses these)
        3 => (0i64..4_000_000_000, 0i64..1_000_000).prop_map(|(s, us)| s * 1_000_000 + us),
        1 => (0i64..4_000_000_000, 0i64..1_000_000).prop_map(|(s, us)| -(s * 1_000_000 + us)),
    ]
}

pub fn vector_strategy() -> impl Strategy<Value = Vec<u32>> {
    prop_oneof![
        1 => Just(Vec::new()),
        // same first element and same dimension
        4 => proptest::collection::vec(f32_bits_strategy(), 1..5),
        1 => proptest::collection::vec(f32_bits_strategy(), 5..40),
    ]
}

pub fn key_strategy() -> impl Strategy<Value = String> {
    prop_oneof![
        6 => prop_oneof![Just("a"), Just("b"), Just("c"), Just("aa"), Just("")].prop_map(str::to_string),
        1 => prop_oneof![Just("é"), Just("日本"), Just("a b"), Just("\"")].prop_map(str::to_string),
    ]
}

/// The variants `OrderableValue::try_from` accepts: Bool, Int64, Float64, String, Timestamp.
pub fn orderable_strategy() -> BoxedStrategy<VSpec> {
    prop_oneof![
        1 => any::<bool>().prop_map(VSpec::Bool),
        5 => int_strategy().prop_map(VSpec::Int),
        6 => f64_bits_strategy().prop_map(VSpec::F),
        2 => string_strategy().prop_map(VSpec::Str),
        1 => ts_strategy().prop_map(VSpec::Ts),
    ]
    .boxed()
}

/// Every non-container variant.
pub fn scalar_strategy() -> BoxedStrategy<VSpec> {
    prop_oneof![
        1 => Just(VSpec::Null),
        1 => any::<bool>().prop_map(VSpec::Bool),
        4 => int_strategy().prop_map(VSpec::Int),
        5 => f64_bits_strategy().prop_map(VSpec::F),
        3 => string_strategy().prop_map(VSpec::Str),
        2 => bytes_strategy().prop_map(VSpec::Bytes),
        2 => ts_strategy().prop_map(VSpec::Ts),
        2 => vector_strategy().prop_map(VSpec::Vector),
    ]
    .boxed()
}

/// Every `Value` variant; List/Map nested up to `depth` levels (0 = scalars only).
pub fn value_strategy(depth: u32) -> BoxedStrategy<VSpec> {
    if depth == 0 {
        return scalar_strategy();
    }
    let inner = value_strategy(depth - 1);
    prop_oneof![
        5 => scalar_strategy(),
        1 => proptest::collection::vec(inner.clone(), 0..4).prop_map(VSpec::List),
        1 => proptest::collection::vec((key_strategy(), inner), 0..4).prop_map(VSpec::Map),
    ]
    .boxed()
}

/// Like `value_strategy` but containers are at least as likely as scalars (round-trip checks).
pub fn nested_value_strategy(depth: u32) -> BoxedStrategy<VSpec> {
    if depth == 0 {
        return scalar_strategy();
    }
    let inner = nested_value_strategy(depth - 1);
    prop_oneof![
        2 => scalar_strategy(),
        1 => proptest::collection::vec(inner.clone(), 0..4).prop_map(VSpec::List),
        1 => proptest::collection::vec((key_strategy(), inner), 0..4).prop_map(VSpec::Map),
    ]
    .boxed()
}

// ------------------------------------------------------------------------------------------------
// near-equal relatives
// ------------------------------------------------------------------------------------------------

/// A deterministic relative of `a`, chosen by `sel`; `other` is an independent value used by some
/// choices. About a third of the selector space returns `a` rebuilt (bit-identical), the rest returns
/// something that is equal under *some* notion in the system but not bit-identical, or a close neighbour.
pub fn related(a: &VSpec, sel: u8, other: &VSpec) -> VSpec {
    let s = sel % 12;
    match (a, s) {
        (_, 0..=2) => a.clone(),
        (_, 3) => other.clone(),
        // numerics ---------------------------------------------------------------------------
        (VSpec::Int(i), 4 | 5) => VSpec::f(*i as f64), // equal or lossy-cast float
        (VSpec::Int(i), 6) => VSpec::Int(i.wrapping_add(1)),
        (VSpec::Int(i), 7) => VSpec::Int(i.wrapping_sub(1)),
        (VSpec::Int(i), 8) => {
            // the float just above the cast
            let f = *i as f64;
            VSpec::F((f.to_bits() as i64).wrapping_add(if f >= 0.0 { 1 } else { -1 }) as u64)
        }
        (VSpec::Int(i), 9) => VSpec::Ts(*i),
        (VSpec::Int(i), 10) => VSpec::F(*i as u64), // same 64 bits read as a float
        (VSpec::Int(i), _) => VSpec::Str(i.to_string()),
        (VSpec::F(b), 4 | 5) => {
            let f = f64::from_bits(*b);
            if f.is_nan() {
                // another NaN: flip sign / change payload
                VSpec::F(if s == 4 { b ^ (1u64 << 63) } else { (b & 0xfff0_0000_0000_0000) | ((b.wrapping_mul(31) | 1) & 0x000f_ffff_ffff_ffff) })
            } else if f == 0.0 {
                VSpec::F(b ^ (1u64 << 63))
            } else if f.is_finite() && f.abs() < 1.9e19 {
                // the integer it equals / truncates / saturates to
                VSpec::Int(f as i64)
            } else {
                VSpec::F(b ^ (1u64 << 63))
            }
        }
        (VSpec::F(b), 6) => VSpec::F(b.wrapping_add(1)),
        (VSpec::F(b), 7) => VSpec::F(b.wrapping_sub(1)),
        (VSpec::F(b), 8) => {
            let f = f64::from_bits(*b);
            if f.is_finite() && f.abs() < 9.3e18 { VSpec::Int((f as i64).wrapping_add(1)) } else { VSpec::F(*b ^ 1) }
        }
        (VSpec::F(b), 9) => {
            let f = f64::from_bits(*b);
            if f.is_finite() && f.abs() < 9.3e18 { VSpec::Int((f as i64).wrapping_sub(1)) } else { VSpec::F(*b ^ 2) }
        }
        (VSpec::F(b), 10) => VSpec::Int(*b as i64), // same 64 bits read as an integer
        (VSpec::F(b), _) => VSpec::Str(format!("{}", f64::from_bits(*b))),
        // booleans, null ---------------------------------------------------------------------
        (VSpec::Bool(b), 4 | 5) => VSpec::Int(i64::from(*b)),
        (VSpec::Bool(b), 6 | 7) => VSpec::Bool(!*b),
        (VSpec::Bool(b), _) => VSpec::Str(b.to_string()),
        (VSpec::Null, 4 | 5) => VSpec::Str("null".into()),
        (VSpec::Null, 6) => VSpec::Int(0),
        (VSpec::Null, 7) => VSpec::List(vec![]),
        (VSpec::Null, _) => VSpec::Bool(false),
        // strings / bytes --------------------------------------------------------------------
        (VSpec::Str(x), 4) => VSpec::Str(format!("{x}a")),
        (VSpec::Str(x), 5) => VSpec::Str(x.chars().rev().collect()),
        (VSpec::Str(x), 6) => VSpec::Bytes(x.as_bytes().to_vec()),
        (VSpec::Str(x), 7) => match x.parse::<i64>() {
            Ok(i) => VSpec::Int(i),
            Err(_) => VSpec::Str(x.to_uppercase()),
        },
        (VSpec::Str(x), 8) => {
            let mut c: Vec<char> = x.chars().collect();
            c.pop();
            VSpec::Str(c.into_iter().collect())
        }
        (VSpec::Str(x), _) => VSpec::Str(format!("{x}\0")),
        (VSpec::Bytes(x), 4 | 5) => {
            // same first byte and length, different tail
            let mut y = x.clone();
            if let Some(l) = y.last_mut() {
                *l = l.wrapping_add(1);
            }
            if y.len() == 1 {
                y.push(0);
            }
            VSpec::Bytes(y)
        }
        (VSpec::Bytes(x), 6) => VSpec::Str(String::from_utf8_lossy(x).into_owned()),
        (VSpec::Bytes(x), 7) => VSpec::List(x.iter().map(|b| VSpec::Int(i64::from(*b))).collect()),
        (VSpec::Bytes(x), _) => {
            let mut y = x.clone();
            y.push(0);
            VSpec::Bytes(y)
        }
        // timestamps -------------------------------------------------------------------------
        (VSpec::Ts(t), 4 | 5) => VSpec::Int(*t),
        (VSpec::Ts(t), 6) => VSpec::Ts(t.wrapping_add(1)),
        (VSpec::Ts(t), 7) => VSpec::Ts(t.wrapping_sub(1)),
        (VSpec::Ts(t), 8) => VSpec::Ts(t / 1000 * 1000),
        (VSpec::Ts(t), _) => VSpec::Ts(t / 1_000_000 * 1_000_000),
        // vectors ----------------------------------------------------------------------------
        (VSpec::Vector(v), 4 | 5) => {
            // same first element and dimension, different tail / sign of zero / NaN payload
            let mut y = v.clone();
            if let Some(l) = y.last_mut() {
                *l ^= if s == 4 { 1 << 31 } else { 1 };
            }
            VSpec::Vector(y)
        }
        (VSpec::Vector(v), 6) => VSpec::List(v.iter().map(|b| VSpec::f(f64::from(f32::from_bits(*b)))).collect()),
        (VSpec::Vector(v), _) => {
            let mut y = v.clone();
            y.push(0);
            VSpec::Vector(y)
        }
        // containers -------------------------------------------------------------------------
        (VSpec::List(l), 4 | 5) => {
            // change one element into its relative
            let mut y = l.clone();
            if y.is_empty() {
                return VSpec::Map(vec![]);
            }
            let i = usize::from(sel / 12) % y.len();
            y[i] = related(&y[i], sel / 12 + 4, other);
            VSpec::List(y)
        }
        (VSpec::List(l), 6) => {
            let mut y = l.clone();
            y.reverse();
            VSpec::List(y)
        }
        (VSpec::List(l), 7) => {
            // same length, all elements replaced
            VSpec::List(l.iter().map(|_| other.clone()).collect())
        }
        (VSpec::List(l), 8) => {
            let mut y = l.clone();
            y.push(VSpec::Null);
            VSpec::List(y)
        }
        (VSpec::List(l), _) => VSpec::Map(l.iter().enumerate().map(|(i, v)| (i.to_string(), v.clone())).collect()),
        (VSpec::Map(m), 4 | 5) => {
            // permuted insertion order (same map when keys are unique)
            let mut y = m.clone();
            if s == 4 {
                y.reverse();
            } else if !y.is_empty() {
                y.rotate_left(1);
            }
            VSpec::Map(y)
        }
        (VSpec::Map(m), 6) => {
            let mut y = m.clone();
            if y.is_empty() {
                return VSpec::List(vec![]);
            }
            let i = usize::from(sel / 12) % y.len();
            y[i].1 = related(&y[i].1, sel / 12 + 4, other);
            VSpec::Map(y)
        }
        (VSpec::Map(m), 7) => {
            // same size, one key renamed
            let mut y = m.clone();
            if let Some(e) = y.last_mut() {
                e.0.push('z');
            }
            VSpec::Map(y)
        }
        (VSpec::Map(m), 8) => VSpec::List(m.iter().map(|(_, v)| v.clone()).collect()),
        (VSpec::Map(m), _) => {
            let mut y = m.clone();
            y.push(("zz".into(), other.clone()));
            VSpec::Map(y)
        }
    }
}

/// Keeps a relative inside the orderable variants (falls back to `a`).
pub fn related_orderable(a: &VSpec, sel: u8, other: &VSpec) -> VSpec {
    let r = related(a, sel, other);
    if r.is_orderable() { r } else { a.clone() }
}

/// (a, b, c) with b a relative of a, and c a relative of a or b.
pub fn triple_strategy(base: BoxedStrategy<VSpec>, orderable_only: bool) -> BoxedStrategy<(VSpec, VSpec, VSpec)> {
    let rel: fn(&VSpec, u8, &VSpec) -> VSpec = if orderable_only { related_orderable } else { related };
    let biased = (base.clone(), any::<u8>(), base.clone(), any::<u8>(), base.clone(), any::<bool>()).prop_map(
        move |(a, s1, x, s2, y, from_a)| {
            let b = rel(&a, s1, &x);
            let c = if from_a { rel(&a, s2, &y) } else { rel(&b, s2, &y) };
            (a, b, c)
        },
    );
    let independent = (base.clone(), base.clone(), base);
    prop_oneof![5 => biased, 1 => independent].boxed()
}

/// Numeric chains around a centre where Int/Float conversions lose precision: three values, each an Int
/// `c+d` or the float nearest to it (or its float neighbours).
pub fn numeric_chain_strategy() -> BoxedStrategy<(VSpec, VSpec, VSpec)> {
    let centre = prop_oneof![
        3 => Just(P53 as i128),
        2 => Just(-(P53 as i128)),
        3 => Just(i64::MAX as i128),
        2 => Just(i64::MIN as i128),
        1 => Just(1i128 << 62),
        1 => Just((1i128 << 54) + 2),
        2 => Just(0i128),
        1 => -1000i128..1000,
    ];
    let one = (-3i128..=3, 0u8..4);
    (centre, one.clone(), one.clone(), one)
        .prop_map(|(c, x, y, z)| {
            let mk = |(d, kind): (i128, u8)| -> VSpec {
                let n = c + d;
                let clamped = n.clamp(i64::MIN as i128, i64::MAX as i128) as i64;
                match kind {
                    0 | 1 => VSpec::Int(clamped),
                    2 => VSpec::f(n as f64),
                    _ => {
                        // float neighbour of the cast
                        let f = n as f64;
                        VSpec::F((f.to_bits() as i64 + if d >= 0 { 1 } else { -1 }) as u64)
                    }
                }
            };
            (mk(x), mk(y), mk(z))
        })
        .boxed()
}
