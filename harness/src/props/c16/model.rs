//! Reference relations for C16, written without reference to the code under test.
//!
//! * `ident(a, b)`      — structural bitwise identity (what `HashableValue` documents as its equality);
//! * `maybe_equal(a,b)` — identity **or** equality under any numeric notion the system uses
//!                        (Int vs numerically equal Float, +0 vs −0, NaN vs NaN), element-wise in containers.
//!                        Operators may treat such pairs either way; anything outside it is "definitely different";
//! * `model_cmp(a, b)`  — the documented total order of `OrderableValue`: Bool < numerics < String < Timestamp,
//!                        numerics compared *exactly* (no lossy cast), −0 = +0, NaN = NaN greater than everything numeric.

use std::cmp::Ordering;

use super::values::VSpec;

pub fn ident(a: &VSpec, b: &VSpec) -> bool {
    a.canonical() == b.canonical()
}

/// Exact comparison of an i64 with a non-NaN f64.
pub fn cmp_int_float(i: i64, f: f64) -> Ordering {
    debug_assert!(!f.is_nan());
    if f == f64::INFINITY {
        return Ordering::Less;
    }
    if f == f64::NEG_INFINITY {
        return Ordering::Greater;
    }
    // every finite f64 with |f| < 2^127 has an exact floor representable in i128
    if f >= 1.0e30 {
        return Ordering::Less;
    }
    if f <= -1.0e30 {
        return Ordering::Greater;
    }
    let fl = f.floor();
    let fi = fl as i128; // exact: fl is integral and |fl| < 2^127
    let ii = i128::from(i);
    match ii.cmp(&fi) {
        Ordering::Equal => {
            if f > fl {
                Ordering::Less
            } else {
                Ordering::Equal
            }
        }
        o => o,
    }
}

fn cmp_float_float(a: f64, b: f64) -> Ordering {
    match (a.is_nan(), b.is_nan()) {
        (true, true) => Ordering::Equal,
        (true, false) => Ordering::Greater,
        (false, true) => Ordering::Less,
        (false, false) => a.partial_cmp(&b).unwrap(),
    }
}

fn rank(v: &VSpec) -> u8 {
    match v {
        VSpec::Bool(_) => 0,
        VSpec::Int(_) | VSpec::F(_) => 1,
        VSpec::Str(_) => 3,
        VSpec::Ts(_) => 4,
        _ => 9,
    }
}

/// Documented order of `OrderableValue` (only for orderable variants).
pub fn model_cmp(a: &VSpec, b: &VSpec) -> Ordering {
    match (a, b) {
        (VSpec::Bool(x), VSpec::Bool(y)) => x.cmp(y),
        (VSpec::Int(x), VSpec::Int(y)) => x.cmp(y),
        (VSpec::F(x), VSpec::F(y)) => cmp_float_float(f64::from_bits(*x), f64::from_bits(*y)),
        (VSpec::Int(x), VSpec::F(y)) => {
            let f = f64::from_bits(*y);
            if f.is_nan() { Ordering::Less } else { cmp_int_float(*x, f) }
        }
        (VSpec::F(x), VSpec::Int(y)) => {
            let f = f64::from_bits(*x);
            if f.is_nan() { Ordering::Greater } else { cmp_int_float(*y, f).reverse() }
        }
        (VSpec::Str(x), VSpec::Str(y)) => x.as_bytes().cmp(y.as_bytes()),
        (VSpec::Ts(x), VSpec::Ts(y)) => x.cmp(y),
        _ => rank(a).cmp(&rank(b)),
    }
}

/// Pairs for which every notion of ordering in the system agrees on a strict/equal answer:
/// same orderable type, or Int vs Float. `None` for anything else (cross-type, unorderable).
pub fn definite_cmp(a: &VSpec, b: &VSpec) -> Option<Ordering> {
    match (a, b) {
        (VSpec::Bool(_), VSpec::Bool(_))
        | (VSpec::Int(_), VSpec::Int(_))
        | (VSpec::Str(_), VSpec::Str(_))
        | (VSpec::Ts(_), VSpec::Ts(_))
        | (VSpec::Int(_), VSpec::F(_))
        | (VSpec::F(_), VSpec::Int(_))
        | (VSpec::F(_), VSpec::F(_)) => Some(model_cmp(a, b)),
        _ => None,
    }
}

pub fn maybe_equal(a: &VSpec, b: &VSpec) -> bool {
    match (a, b) {
        (VSpec::Int(_), VSpec::F(_)) | (VSpec::F(_), VSpec::Int(_)) | (VSpec::F(_), VSpec::F(_)) => {
            model_cmp(a, b) == Ordering::Equal
        }
        (VSpec::Vector(x), VSpec::Vector(y)) => {
            x.len() == y.len()
                && x.iter().zip(y).all(|(p, q)| {
                    let (p, q) = (f32::from_bits(*p), f32::from_bits(*q));
                    p == q || (p.is_nan() && q.is_nan())
                })
        }
        (VSpec::List(x), VSpec::List(y)) => x.len() == y.len() && x.iter().zip(y).all(|(p, q)| maybe_equal(p, q)),
        (VSpec::Map(_), VSpec::Map(_)) => {
            let (VSpec::Map(x), VSpec::Map(y)) = (a.canonical(), b.canonical()) else { unreachable!() };
            x.len() == y.len() && x.iter().zip(&y).all(|((k1, v1), (k2, v2))| k1 == k2 && maybe_equal(v1, v2))
        }
        _ => ident(a, b),
    }
}

/// What kind of pair this is (used in failure signatures and class histograms).
pub fn pair_class(a: &VSpec, b: &VSpec) -> &'static str {
    const BIG: f64 = 9_007_199_254_740_992.0;
    match (a, b) {
        (VSpec::Int(i), VSpec::F(f)) | (VSpec::F(f), VSpec::Int(i)) => {
            let f = f64::from_bits(*f);
            if f.is_nan() {
                "int-vs-nan"
            } else if i.unsigned_abs() >= (1u64 << 53) || f.abs() >= BIG {
                "int-vs-float-big"
            } else {
                "int-vs-float"
            }
        }
        (VSpec::F(x), VSpec::F(y)) => {
            let (x, y) = (f64::from_bits(*x), f64::from_bits(*y));
            if x.is_nan() && y.is_nan() {
                "nan-vs-nan"
            } else if x.is_nan() || y.is_nan() {
                "nan-vs-float"
            } else if x == 0.0 && y == 0.0 {
                "zero-vs-zero"
            } else {
                "float"
            }
        }
        (VSpec::Int(_), VSpec::Int(_)) => "int",
        (VSpec::Bool(_), VSpec::Bool(_)) => "bool",
        (VSpec::Str(_), VSpec::Str(_)) => "string",
        (VSpec::Ts(_), VSpec::Ts(_)) => "timestamp",
        (VSpec::Bytes(_), VSpec::Bytes(_)) => "bytes",
        (VSpec::Vector(_), VSpec::Vector(_)) => "vector",
        (VSpec::Null, VSpec::Null) => "null",
        (VSpec::List(_), VSpec::List(_)) => "list",
        (VSpec::Map(_), VSpec::Map(_)) => "map",
        _ => "cross-type",
    }
}

/// Class of a triple: the most "interesting" pair class among its three pairs.
pub fn triple_class(a: &VSpec, b: &VSpec, c: &VSpec) -> &'static str {
    let cs = [pair_class(a, b), pair_class(b, c), pair_class(a, c)];
    for want in [
        "int-vs-float-big",
        "int-vs-nan",
        "int-vs-float",
        "nan-vs-nan",
        "nan-vs-float",
        "zero-vs-zero",
        "map",
        "list",
        "vector",
        "cross-type",
        "float",
    ] {
        if cs.contains(&want) {
            return want;
        }
    }
    cs[0]
}

/// The non-trivial rule of DESIGN §4 C16 for a set of values: some pair is cross-type, or some value
/// contains a float edge pattern, or some value is a nested container.
pub fn nontrivial(vals: &[&VSpec]) -> bool {
    if vals.iter().any(|v| v.has_float_edge() || v.is_container()) {
        return true;
    }
    for i in 0..vals.len() {
        for j in i + 1..vals.len() {
            if vals[i].tag() != vals[j].tag() {
                return true;
            }
        }
    }
    false
}
