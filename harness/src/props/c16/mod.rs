//! C16 — values compare, hash, order and serialise consistently.
//!
//! Sub-checks (DESIGN §4 C16 D/O):
//! * `hashable_laws`   — `HashableValue`: eq reflexive / symmetric / transitive, eq ⇒ equal hash, and eq is exactly the
//!                       documented bitwise structural identity, over triples of every `Value` variant;
//! * `orderable_laws`  — `OrderableValue` over the variants `try_from` accepts: eq equivalence, cmp antisymmetric /
//!                       transitive / total, `cmp == Equal ⇔ eq`, `partial_cmp == Some(cmp)`, eq ⇒ equal hash, and cmp
//!                       equals the documented order evaluated exactly;
//! * `orderable_sort`  — bags of orderable values: `sort`/`sort_unstable` do not panic, are permutations, sorted,
//!                       idempotent; `BTreeSet`/`HashSet`/`BTreeIndex`/`HashIndex` keyed by the wrapper hold exactly one
//!                       entry per equality class and find every member;
//! * `hash_index`      — `HashIndex<HashableValue, NodeId>` and the `LpgStore` property index
//!                       (`create_property_index` / `find_nodes_by_property`): exactly the bit-identical values are found;
//! * `float_index`     — `Float64Index` (`BTreeIndex<OrderedFloat, _>`, index/btree.rs): one entry per float class, every
//!                       key found, range scan sorted; `OrderedFloat` Eq/Ord laws;
//! * `roundtrip`       — bincode (`Value::serialize`, WAL record encode/decode, ids), spill serializer (value and row),
//!                       serde_json of the serde derive (finite floats), wrapper conversions — bit for bit;
//! * `wal_file`        — the same through a real WAL directory (`WalManager::log` → `WalRecovery::recover`);
//! * `snapshot`        — `export_snapshot` / `import_snapshot` of a two-node, one-edge database;
//! * `op_distinct`, `op_group`, `op_sort` — small tables through `DistinctOperator`, `HashAggregateOperator`
//!                       (GROUP BY key + count(*)) and `SortOperator`: nothing invented, bit-identical values never split,
//!                       definitely-different values never merged, sorted output consistent with the exact order.

pub mod values;
pub mod model;

use std::cmp::Ordering;
use std::collections::hash_map::DefaultHasher;
use std::collections::{BTreeMap, BTreeSet, HashSet};
use std::hash::{Hash, Hasher};

use proptest::prelude::*;
use serde::{Deserialize, Serialize};

use grafeo_adapters::storage::wal::{DurabilityMode, WalConfig, WalManager, WalRecord, WalRecovery};
use grafeo_common::types::{EdgeId, HashableValue, LogicalType, NodeId, OrderableValue, TxId, Value};
use grafeo_core::execution::DataChunk;
use grafeo_core::execution::chunk::DataChunkBuilder;
use grafeo_core::execution::operators::{
    AggregateExpr, DistinctOperator, HashAggregateOperator, NullOrder, Operator, OperatorResult, SortDirection, SortKey,
    SortOperator,
};
use grafeo_core::execution::spill::{deserialize_row, deserialize_value, serialize_row, serialize_value};
use grafeo_core::graph::lpg::LpgStore;
use grafeo_core::index::btree::{Float64Index, OrderedFloat};
use grafeo_core::index::{BTreeIndex, HashIndex};
use grafeo_engine::GrafeoDB;

use crate::driver::{CaseResult, Failure, Run, catch, fail, guard, hash_of, ok, pick, scratch_dir};

pub use values::{VSpec, orderable_strategy, scalar_strategy, value_strategy};
use values::{f64_bits_strategy, key_strategy, nested_value_strategy, numeric_chain_strategy, related, triple_strategy};
use model::{definite_cmp, ident, maybe_equal, model_cmp, nontrivial, pair_class, triple_class};

fn std_hash<T: Hash>(t: &T) -> u64 {
    let mut s = DefaultHasher::new();
    t.hash(&mut s);
    s.finish()
}

// ------------------------------------------------------------------------------------------------
// bags: a pool of values, relatives of pool members, and rows drawn from both (duplicates are frequent)
// ------------------------------------------------------------------------------------------------

#[derive(Debug, Clone, Serialize, Deserialize)]
pub struct Bag {
    pub pool: Vec<VSpec>,
    /// (member, selector, other member)
    pub rels: Vec<(u16, u8, u16)>,
    pub rows: Vec<u16>,
}

impl Bag {
    pub fn values(&self, orderable_only: bool) -> Vec<VSpec> {
        if self.pool.is_empty() {
            return Vec::new();
        }
        let mut ext = self.pool.clone();
        for (i, sel, j) in &self.rels {
            let a = &self.pool[pick(*i, self.pool.len())];
            let o = &self.pool[pick(*j, self.pool.len())];
            let r = related(a, *sel, o);
            if !orderable_only || r.is_orderable() {
                ext.push(r);
            }
        }
        self.rows.iter().map(|r| ext[pick(*r, ext.len())].clone()).collect()
    }
}

fn bag_strategy(elem: BoxedStrategy<VSpec>, max_pool: usize, max_rows: usize) -> BoxedStrategy<Bag> {
    (
        proptest::collection::vec(elem, 1..=max_pool),
        proptest::collection::vec((any::<u16>(), any::<u8>(), any::<u16>()), 0..=max_pool),
        prop_oneof![
            4 => proptest::collection::vec(any::<u16>(), 0..=max_rows.min(12)),
            3 => proptest::collection::vec(any::<u16>(), 0..=max_rows),
        ],
    )
        .prop_map(|(pool, rels, rows)| Bag { pool, rels, rows })
        .boxed()
}

/// Class of a bag for histograms / signatures: the most interesting pair class present.
fn bag_class(vals: &[VSpec]) -> &'static str {
    let mut seen: BTreeSet<&'static str> = BTreeSet::new();
    for i in 0..vals.len() {
        for j in i + 1..vals.len() {
            seen.insert(pair_class(&vals[i], &vals[j]));
        }
    }
    for want in [
        "int-vs-float-big",
        "int-vs-nan",
        "nan-vs-float",
        "nan-vs-nan",
        "int-vs-float",
        "zero-vs-zero",
        "cross-type",
        "map",
        "list",
        "vector",
        "float",
    ] {
        if seen.contains(want) {
            return want;
        }
    }
    seen.into_iter().next().unwrap_or("tiny")
}

fn refs(v: &[VSpec]) -> Vec<&VSpec> {
    v.iter().collect()
}

// ------------------------------------------------------------------------------------------------
// hashable laws
// ------------------------------------------------------------------------------------------------

fn check_hashable_triple(t: &(VSpec, VSpec, VSpec)) -> CaseResult {
    let vs = [&t.0, &t.1, &t.2];
    let (eqm, hs, hs2, back) = guard("hashable", || {
        let hv: Vec<HashableValue> = vs.iter().map(|v| HashableValue::new(v.to_value())).collect();
        let mut eqm = [[false; 3]; 3];
        for i in 0..3 {
            for j in 0..3 {
                eqm[i][j] = hv[i] == hv[j];
            }
        }
        let hs: Vec<u64> = hv.iter().map(std_hash).collect();
        let hs2: Vec<u64> = hv.iter().map(|h| hash_of(h)).collect();
        let back: Vec<VSpec> = hv.iter().map(|h| VSpec::from_value(h.inner())).collect();
        (eqm, hs, hs2, back)
    })?;
    for i in 0..3 {
        if back[i] != vs[i].canonical() {
            return fail("c16/hashable/inner-changed", format!("{:?} -> {:?}", vs[i], back[i]));
        }
        if !eqm[i][i] {
            return fail(format!("c16/hashable/reflexive:{}", pair_class(vs[i], vs[i])), format!("{:?} != itself", vs[i]));
        }
    }
    for i in 0..3 {
        for j in 0..3 {
            let pc = pair_class(vs[i], vs[j]);
            if eqm[i][j] != eqm[j][i] {
                return fail(format!("c16/hashable/symmetric:{pc}"), format!("{:?} vs {:?}", vs[i], vs[j]));
            }
            if eqm[i][j] && (hs[i] != hs[j] || hs2[i] != hs2[j]) {
                return fail(format!("c16/hashable/eq-hash:{pc}"), format!("{:?} == {:?} but hashes differ", vs[i], vs[j]));
            }
            let id = ident(vs[i], vs[j]);
            if eqm[i][j] && !id {
                return fail(
                    format!("c16/hashable/merges:{pc}"),
                    format!("{:?} == {:?} but they are not bit-identical (documented: bitwise equality)", vs[i], vs[j]),
                );
            }
            if !eqm[i][j] && id {
                return fail(format!("c16/hashable/splits:{pc}"), format!("{:?} != {:?} although bit-identical", vs[i], vs[j]));
            }
        }
    }
    for (i, j, k) in [(0, 1, 2), (0, 2, 1), (1, 0, 2), (1, 2, 0), (2, 0, 1), (2, 1, 0)] {
        if eqm[i][j] && eqm[j][k] && !eqm[i][k] {
            return fail(
                format!("c16/hashable/transitive:{}", triple_class(vs[i], vs[j], vs[k])),
                format!("{:?} == {:?} == {:?} but first != last", vs[i], vs[j], vs[k]),
            );
        }
    }
    ok(nontrivial(&vs), triple_class(vs[0], vs[1], vs[2]), hash_of(t))
}

// ------------------------------------------------------------------------------------------------
// orderable laws
// ------------------------------------------------------------------------------------------------

fn to_orderable(v: &VSpec) -> Result<OrderableValue, Failure> {
    match guard("try_from", || OrderableValue::try_from(&v.to_value()))? {
        Some(o) => Ok(o),
        None => fail(format!("c16/orderable/try_from-rejects:{}", v.tag()), format!("{v:?} is documented as orderable")),
    }
}

fn check_orderable_triple(t: &(VSpec, VSpec, VSpec)) -> CaseResult {
    let vs = [&t.0, &t.1, &t.2];
    let ov = [to_orderable(vs[0])?, to_orderable(vs[1])?, to_orderable(vs[2])?];
    let (eqm, cm, pcm, hs, hs2, back) = guard("orderable", || {
        let mut eqm = [[false; 3]; 3];
        let mut cm = [[Ordering::Equal; 3]; 3];
        let mut pcm = [[None; 3]; 3];
        for i in 0..3 {
            for j in 0..3 {
                eqm[i][j] = ov[i] == ov[j];
                cm[i][j] = ov[i].cmp(&ov[j]);
                pcm[i][j] = ov[i].partial_cmp(&ov[j]);
            }
        }
        let hs: Vec<u64> = ov.iter().map(std_hash).collect();
        let hs2: Vec<u64> = ov.iter().map(|h| hash_of(h)).collect();
        let back: Vec<VSpec> = ov.iter().map(|o| VSpec::from_value(&o.clone().into_value())).collect();
        (eqm, cm, pcm, hs, hs2, back)
    })?;
    for i in 0..3 {
        if back[i] != *vs[i] {
            return fail(format!("c16/orderable/into_value:{}", vs[i].tag()), format!("{:?} -> {:?}", vs[i], back[i]));
        }
        let pc = pair_class(vs[i], vs[i]);
        if !eqm[i][i] {
            return fail(format!("c16/orderable/reflexive-eq:{pc}"), format!("{:?} != itself", vs[i]));
        }
        if cm[i][i] != Ordering::Equal {
            return fail(format!("c16/orderable/reflexive-cmp:{pc}"), format!("cmp({:?}, itself) = {:?}", vs[i], cm[i][i]));
        }
    }
    for i in 0..3 {
        for j in 0..3 {
            let pc = pair_class(vs[i], vs[j]);
            let pair = || format!("{:?} vs {:?}", vs[i], vs[j]);
            if eqm[i][j] != eqm[j][i] {
                return fail(format!("c16/orderable/symmetric-eq:{pc}"), pair());
            }
            if cm[i][j] != cm[j][i].reverse() {
                return fail(
                    format!("c16/orderable/antisymmetric:{pc}"),
                    format!("{}: cmp = {:?}, reversed cmp = {:?}", pair(), cm[i][j], cm[j][i]),
                );
            }
            if pcm[i][j] != Some(cm[i][j]) {
                return fail(format!("c16/orderable/partial_cmp:{pc}"), format!("{}: {:?} vs {:?}", pair(), pcm[i][j], cm[i][j]));
            }
            if (cm[i][j] == Ordering::Equal) != eqm[i][j] {
                return fail(
                    format!("c16/orderable/cmp-vs-eq:{pc}"),
                    format!("{}: cmp = {:?} but eq = {}", pair(), cm[i][j], eqm[i][j]),
                );
            }
        }
    }
    for (i, j, k) in [(0, 1, 2), (0, 2, 1), (1, 0, 2), (1, 2, 0), (2, 0, 1), (2, 1, 0)] {
        let tc = triple_class(vs[i], vs[j], vs[k]);
        let tri = || format!("{:?}, {:?}, {:?}", vs[i], vs[j], vs[k]);
        if eqm[i][j] && eqm[j][k] && !eqm[i][k] {
            return fail(format!("c16/orderable/transitive-eq:{tc}"), format!("{}: a == b == c but a != c", tri()));
        }
        let le = |x: Ordering| x != Ordering::Greater;
        let lt = |x: Ordering| x == Ordering::Less;
        if le(cm[i][j]) && le(cm[j][k]) {
            let strict = lt(cm[i][j]) || lt(cm[j][k]);
            if !le(cm[i][k]) || (strict && !lt(cm[i][k])) {
                return fail(
                    format!("c16/orderable/transitive-cmp:{tc}"),
                    format!("{}: cmp(a,b) = {:?}, cmp(b,c) = {:?}, cmp(a,c) = {:?}", tri(), cm[i][j], cm[j][k], cm[i][k]),
                );
            }
        }
    }
    for i in 0..3 {
        for j in 0..3 {
            if eqm[i][j] && (hs[i] != hs[j] || hs2[i] != hs2[j]) {
                return fail(
                    format!("c16/orderable/eq-hash:{}", pair_class(vs[i], vs[j])),
                    format!("{:?} == {:?} but hashes differ", vs[i], vs[j]),
                );
            }
        }
    }
    for i in 0..3 {
        for j in 0..3 {
            let m = model_cmp(vs[i], vs[j]);
            if cm[i][j] != m {
                return fail(
                    format!("c16/orderable/order-vs-documented:{}", pair_class(vs[i], vs[j])),
                    format!("cmp({:?}, {:?}) = {:?}, documented order (exact) = {m:?}", vs[i], vs[j], cm[i][j]),
                );
            }
        }
    }
    ok(nontrivial(&vs), triple_class(vs[0], vs[1], vs[2]), hash_of(t))
}

// ------------------------------------------------------------------------------------------------
// sorting and keyed containers over the orderable wrapper
// ------------------------------------------------------------------------------------------------

/// Number of classes of `vals` under the model order (a total preorder).
fn model_classes(vals: &[VSpec]) -> usize {
    let mut s: Vec<&VSpec> = vals.iter().collect();
    s.sort_by(|a, b| model_cmp(a, b));
    let mut n = 0;
    for i in 0..s.len() {
        if i == 0 || model_cmp(s[i - 1], s[i]) != Ordering::Equal {
            n += 1;
        }
    }
    n
}

fn sorted_multiset(v: &[VSpec]) -> Vec<VSpec> {
    let mut m: Vec<VSpec> = v.iter().map(VSpec::canonical).collect();
    m.sort();
    m
}

fn check_orderable_sort(bag: &Bag) -> CaseResult {
    let vals = bag.values(true);
    let cls = bag_class(&vals);
    let mut ovs = Vec::with_capacity(vals.len());
    for v in &vals {
        ovs.push(to_orderable(v)?);
    }
    let back = |o: &[OrderableValue]| -> Vec<VSpec> { o.iter().map(|x| VSpec::from_value(&x.clone().into_value())).collect() };

    // stable sort
    let sorted = match catch(|| {
        let mut s = ovs.clone();
        s.sort();
        s
    }) {
        Ok(s) => s,
        Err(p) => {
            return fail(format!("c16/orderable/sort-panics:{cls}"), format!("sort() panicked ({}) on {vals:?}", p.msg));
        }
    };
    let sv = back(&sorted);
    if sorted_multiset(&sv) != sorted_multiset(&vals) {
        return fail(format!("c16/orderable/sort-not-permutation:{cls}"), format!("{vals:?} -> {sv:?}"));
    }
    for w in 0..sv.len().saturating_sub(1) {
        let c = guard("cmp", || sorted[w].cmp(&sorted[w + 1]))?;
        if c == Ordering::Greater {
            return fail(format!("c16/orderable/sort-not-sorted:{cls}"), format!("{:?} before {:?} in {sv:?}", sv[w], sv[w + 1]));
        }
        if model_cmp(&sv[w], &sv[w + 1]) == Ordering::Greater {
            return fail(
                format!("c16/orderable/sort-vs-documented:{}", pair_class(&sv[w], &sv[w + 1])),
                format!("{:?} sorted before {:?}", sv[w], sv[w + 1]),
            );
        }
    }
    let again = match catch(|| {
        let mut s = sorted.clone();
        s.sort();
        s
    }) {
        Ok(s) => s,
        Err(p) => return fail(format!("c16/orderable/sort-panics:{cls}"), format!("second sort() panicked ({})", p.msg)),
    };
    if back(&again) != sv {
        return fail(format!("c16/orderable/sort-not-idempotent:{cls}"), format!("{sv:?} -> {:?}", back(&again)));
    }
    // unstable sort
    match catch(|| {
        let mut s = ovs.clone();
        s.sort_unstable();
        s
    }) {
        Ok(s) => {
            let uv = back(&s);
            if sorted_multiset(&uv) != sorted_multiset(&vals) {
                return fail(format!("c16/orderable/sort-not-permutation:{cls}"), format!("unstable: {vals:?} -> {uv:?}"));
            }
            for w in 0..uv.len().saturating_sub(1) {
                if model_cmp(&uv[w], &uv[w + 1]) == Ordering::Greater {
                    return fail(
                        format!("c16/orderable/sort-vs-documented:{}", pair_class(&uv[w], &uv[w + 1])),
                        format!("unstable: {:?} sorted before {:?}", uv[w], uv[w + 1]),
                    );
                }
            }
        }
        Err(p) => return fail(format!("c16/orderable/sort-panics:{cls}"), format!("sort_unstable() panicked ({})", p.msg)),
    }

    // keyed containers
    let classes = model_classes(&vals);
    let last_equal = |v: &VSpec| -> Option<u64> {
        vals.iter().enumerate().filter(|(_, w)| model_cmp(v, w) == Ordering::Equal).map(|(i, _)| i as u64).next_back()
    };
    let (bt_len, bt_missing, hs_len, hs_missing) = guard("sets", || {
        let bt: BTreeSet<OrderableValue> = ovs.iter().cloned().collect();
        let hs: HashSet<OrderableValue> = ovs.iter().cloned().collect();
        let bm = ovs.iter().position(|o| !bt.contains(o));
        let hm = ovs.iter().position(|o| !hs.contains(o));
        (bt.len(), bm, hs.len(), hm)
    })?;
    if let Some(i) = bt_missing {
        return fail(format!("c16/orderable/btreeset-loses:{cls}"), format!("{:?} inserted but not contained; {vals:?}", vals[i]));
    }
    if let Some(i) = hs_missing {
        return fail(format!("c16/orderable/hashset-loses:{cls}"), format!("{:?} inserted but not contained; {vals:?}", vals[i]));
    }
    if bt_len != classes {
        return fail(
            format!("c16/orderable/btreeset-classes:{cls}"),
            format!("BTreeSet holds {bt_len} entries, {classes} equality classes in {vals:?}"),
        );
    }
    if hs_len != classes {
        return fail(
            format!("c16/orderable/hashset-classes:{cls}"),
            format!("HashSet holds {hs_len} entries, {classes} equality classes in {vals:?}"),
        );
    }
    // the real index types
    let (bi_len, bi_get, bi_range, bi_min, bi_max, hi_len, hi_get) = guard("indexes", || {
        let bi: BTreeIndex<OrderableValue, NodeId> = BTreeIndex::new();
        let hi: HashIndex<OrderableValue, NodeId> = HashIndex::new();
        for (i, o) in ovs.iter().enumerate() {
            bi.insert(o.clone(), NodeId::new(i as u64));
            hi.insert(o.clone(), NodeId::new(i as u64));
        }
        let bg: Vec<Option<u64>> = ovs.iter().map(|o| bi.get(o).map(|n| n.as_u64())).collect();
        let hg: Vec<Option<u64>> = ovs.iter().map(|o| hi.get(o).map(|n| n.as_u64())).collect();
        let rg: Vec<(VSpec, u64)> =
            bi.range::<std::ops::RangeFull>(..).into_iter().map(|(k, n)| (VSpec::from_value(&k.into_value()), n.as_u64())).collect();
        let mn = bi.min().map(|(k, _)| VSpec::from_value(&k.into_value()));
        let mx = bi.max().map(|(k, _)| VSpec::from_value(&k.into_value()));
        (bi.len(), bg, rg, mn, mx, hi.len(), hg)
    })?;
    for (i, v) in vals.iter().enumerate() {
        let want = last_equal(v);
        if bi_get[i] != want {
            return fail(
                format!("c16/btree-index/get:{cls}"),
                format!("BTreeIndex.get({v:?}) = {:?}, expected node {want:?} (last insert of an equal key); {vals:?}", bi_get[i]),
            );
        }
        if hi_get[i] != want {
            return fail(
                format!("c16/hash-index/get-orderable:{cls}"),
                format!("HashIndex.get({v:?}) = {:?}, expected node {want:?}; {vals:?}", hi_get[i]),
            );
        }
    }
    if bi_len != classes || hi_len != classes || bi_range.len() != classes {
        return fail(
            format!("c16/index/classes:{cls}"),
            format!("btree len {bi_len}, range {}, hash len {hi_len}, classes {classes}; {vals:?}", bi_range.len()),
        );
    }
    for w in 0..bi_range.len().saturating_sub(1) {
        if model_cmp(&bi_range[w].0, &bi_range[w + 1].0) != Ordering::Less {
            return fail(format!("c16/btree-index/range-order:{cls}"), format!("{:?} then {:?}", bi_range[w], bi_range[w + 1]));
        }
    }
    if let (Some(mn), Some(mx)) = (&bi_min, &bi_max) {
        if vals.iter().any(|v| model_cmp(v, mn) == Ordering::Less) || vals.iter().any(|v| model_cmp(v, mx) == Ordering::Greater) {
            return fail(format!("c16/btree-index/min-max:{cls}"), format!("min {mn:?} max {mx:?} of {vals:?}"));
        }
    } else if !vals.is_empty() {
        return fail(format!("c16/btree-index/min-max:{cls}"), "min/max None on a non-empty index");
    }
    let key = hash_of(&vals);
    ok(nontrivial(&refs(&vals)) && vals.len() >= 2, format!("{}:{cls}", if vals.len() > 20 { "long" } else { "short" }), key)
}

// ------------------------------------------------------------------------------------------------
// hash index / property index over the hashable wrapper
// ------------------------------------------------------------------------------------------------

#[derive(Debug, Clone, Serialize, Deserialize)]
pub struct IndexCase {
    pub bag: Bag,
    /// create the property index before (true) or after (false) the values are stored
    pub index_first: bool,
    /// (row, replacement drawn from the bag's values) — property overwrites after the index exists
    pub updates: Vec<(u16, u16)>,
}

fn check_hash_index(c: &IndexCase) -> CaseResult {
    let vals = c.bag.values(false);
    let cls = bag_class(&vals);
    // 1. HashIndex<HashableValue, NodeId>
    let (len, gets) = guard("HashIndex", || {
        let hi: HashIndex<HashableValue, NodeId> = HashIndex::new();
        for (i, v) in vals.iter().enumerate() {
            hi.insert(HashableValue::new(v.to_value()), NodeId::new(i as u64));
        }
        let g: Vec<Option<u64>> = vals.iter().map(|v| hi.get(&HashableValue::new(v.to_value())).map(|n| n.as_u64())).collect();
        (hi.len(), g)
    })?;
    let canon: Vec<VSpec> = vals.iter().map(VSpec::canonical).collect();
    let classes = canon.iter().collect::<BTreeSet<_>>().len();
    for (i, v) in canon.iter().enumerate() {
        let want = canon.iter().rposition(|w| w == v).map(|x| x as u64);
        if gets[i] != want {
            let got_cls = gets[i].map_or("missing", |g| pair_class(&vals[i], &vals[g as usize]));
            return fail(
                format!("c16/hash-index/get:{got_cls}"),
                format!("HashIndex.get({:?}) = {:?}, expected {want:?}; values {vals:?}", vals[i], gets[i]),
            );
        }
    }
    if len != classes {
        return fail(format!("c16/hash-index/classes:{cls}"), format!("len {len}, {classes} bit-distinct values in {vals:?}"));
    }
    // 2. LpgStore property index
    let mut cur: Vec<VSpec> = canon.clone();
    let found = guard("LpgStore property index", || {
        let store = LpgStore::new();
        if c.index_first {
            store.create_property_index("k");
        }
        let ids: Vec<NodeId> = vals
            .iter()
            .map(|v| {
                let id = store.create_node(&["N"]);
                store.set_node_property(id, "k", v.to_value());
                id
            })
            .collect();
        if !c.index_first {
            store.create_property_index("k");
        }
        if !vals.is_empty() {
            for (r, w) in &c.updates {
                let (r, w) = (pick(*r, vals.len()), pick(*w, vals.len()));
                store.set_node_property(ids[r], "k", vals[w].to_value());
                cur[r] = canon[w].clone();
            }
        }
        let pos: BTreeMap<u64, usize> = ids.iter().enumerate().map(|(i, id)| (id.as_u64(), i)).collect();
        let mut out = Vec::new();
        for v in &vals {
            let mut f: Vec<usize> =
                store.find_nodes_by_property("k", &v.to_value()).into_iter().map(|n| pos.get(&n.as_u64()).copied().unwrap_or(usize::MAX)).collect();
            f.sort_unstable();
            out.push(f);
        }
        out
    })?;
    for (i, v) in canon.iter().enumerate() {
        // The store's property index answers like the scan path, i.e. by `Value`'s own equality (IEEE on floats:
        // 0.0 == -0.0, NaN != NaN) — repo fix 6dd9579 made the index agree with the scan (C14). "Equal" for this
        // consequence is therefore Value equality, not the bitwise identity of HashableValue.
        let vq = v.to_value();
        let want: Vec<usize> = cur.iter().enumerate().filter(|(_, w)| w.to_value() == vq).map(|(j, _)| j).collect();
        if found[i] != want {
            let extra = found[i].iter().find(|j| !want.contains(j));
            let sig = match extra {
                Some(j) if *j < cur.len() => format!("c16/prop-index/merges:{}", pair_class(v, &cur[*j])),
                Some(_) => "c16/prop-index/unknown-node".to_string(),
                None => format!("c16/prop-index/loses:{}", v.tag()),
            };
            return fail(
                sig,
                format!("find_nodes_by_property(k, {v:?}) = rows {:?}, expected rows {want:?}; stored {cur:?}", found[i]),
            );
        }
    }
    ok(
        nontrivial(&refs(&vals)) && vals.len() >= 2,
        format!("{}:{cls}", if c.updates.is_empty() { "insert" } else { "update" }),
        hash_of(&(&vals, c.index_first, &c.updates)),
    )
}

// ------------------------------------------------------------------------------------------------
// Float64Index (index/btree.rs OrderedFloat)
// ------------------------------------------------------------------------------------------------

fn float_class(v: &[u64]) -> &'static str {
    let f: Vec<f64> = v.iter().map(|b| f64::from_bits(*b)).collect();
    let nan = f.iter().filter(|x| x.is_nan()).count();
    if nan > 0 && nan < f.len() {
        "nan-and-numbers"
    } else if nan > 0 {
        "only-nan"
    } else if f.iter().any(|x| *x == 0.0 && x.is_sign_negative()) && f.iter().any(|x| *x == 0.0 && x.is_sign_positive()) {
        "both-zeros"
    } else {
        "plain"
    }
}

fn check_float_index(keys: &Vec<u64>) -> CaseResult {
    let vals: Vec<VSpec> = keys.iter().map(|b| VSpec::F(*b)).collect();
    let cls = float_class(keys);
    let fs: Vec<f64> = keys.iter().map(|b| f64::from_bits(*b)).collect();
    // laws of the key wrapper
    let mut nan_side: Option<bool> = None;
    for (i, a) in fs.iter().enumerate() {
        for (j, b) in fs.iter().enumerate() {
            let (eq, c, c2) = guard("OrderedFloat", || {
                let (x, y) = (OrderedFloat(*a), OrderedFloat(*b));
                (x == y, x.cmp(&y), y.cmp(&x))
            })?;
            let pc = pair_class(&vals[i], &vals[j]);
            if c != c2.reverse() {
                return fail(format!("c16/float-index/antisymmetric:{pc}"), format!("{a:e} vs {b:e}: {c:?} / {c2:?}"));
            }
            if (c == Ordering::Equal) != eq {
                return fail(format!("c16/float-index/cmp-vs-eq:{pc}"), format!("{a:e} vs {b:e}: cmp {c:?}, eq {eq}"));
            }
            if a.is_nan() != b.is_nan() {
                // documented: NaNs equal each other; which side of the numbers they sort on is not documented,
                // but it must be the same side every time
                let nan_greater = (c == Ordering::Greater) == a.is_nan();
                if c == Ordering::Equal || *nan_side.get_or_insert(nan_greater) != nan_greater {
                    return fail(format!("c16/float-index/order:{pc}"), format!("cmp({a:e}, {b:e}) = {c:?}: NaN must sort on one fixed side of all numbers"));
                }
            } else if c != model_cmp(&vals[i], &vals[j]) {
                return fail(
                    format!("c16/float-index/order:{pc}"),
                    format!("cmp({a:e}, {b:e}) = {c:?}, expected {:?} (numeric order, NaNs equal to each other)", model_cmp(&vals[i], &vals[j])),
                );
            }
        }
    }
    let classes = model_classes(&vals);
    let (len, gets, range) = guard("Float64Index", || {
        let ix: Float64Index = BTreeIndex::new();
        for (i, f) in fs.iter().enumerate() {
            ix.insert(OrderedFloat(*f), NodeId::new(i as u64));
        }
        let g: Vec<Option<u64>> = fs.iter().map(|f| ix.get(&OrderedFloat(*f)).map(|n| n.as_u64())).collect();
        let r: Vec<u64> = ix.range::<std::ops::RangeFull>(..).into_iter().map(|(k, _)| k.0.to_bits()).collect();
        (ix.len(), g, r)
    })?;
    for (i, v) in vals.iter().enumerate() {
        let want = vals.iter().rposition(|w| model_cmp(v, w) == Ordering::Equal).map(|x| x as u64);
        if gets[i] != want {
            let got_cls = gets[i].map_or("missing", |g| pair_class(v, &vals[g as usize]));
            return fail(
                format!("c16/float-index/get:{got_cls}"),
                format!("Float64Index.get({v:?}) = {:?}, expected {want:?}; keys {vals:?}", gets[i]),
            );
        }
    }
    if len != classes || range.len() != classes {
        return fail(format!("c16/float-index/classes:{cls}"), format!("len {len}, range {}, classes {classes}; {vals:?}", range.len()));
    }
    let nn: Vec<u64> = range.iter().copied().filter(|b| !f64::from_bits(*b).is_nan()).collect();
    let nan_inside = range.iter().enumerate().any(|(i, b)| f64::from_bits(*b).is_nan() && i != 0 && i + 1 != range.len());
    if nan_inside || nn.windows(2).any(|w| model_cmp(&VSpec::F(w[0]), &VSpec::F(w[1])) != Ordering::Less) {
        return fail(format!("c16/float-index/range-order:{cls}"), format!("range(..) = {:?}", range.iter().map(|b| VSpec::F(*b)).collect::<Vec<_>>()));
    }
    ok(cls != "plain" && keys.len() >= 2, cls, hash_of(keys))
}

// ------------------------------------------------------------------------------------------------
// round trips
// ------------------------------------------------------------------------------------------------

#[derive(Debug, Clone, Serialize, Deserialize)]
pub struct RoundTripCase {
    pub value: VSpec,
    pub key: String,
    pub node: u64,
    pub edge: u64,
}

fn has_non_finite(v: &VSpec) -> bool {
    match v {
        VSpec::F(b) => !f64::from_bits(*b).is_finite(),
        VSpec::Vector(x) => x.iter().any(|b| !f32::from_bits(*b).is_finite()),
        VSpec::List(l) => l.iter().any(has_non_finite),
        VSpec::Map(m) => m.iter().any(|(_, v)| has_non_finite(v)),
        _ => false,
    }
}

fn rt_class(v: &VSpec) -> String {
    if v.is_container() { format!("{}-depth{}", v.tag(), v.depth()) } else { v.tag().to_string() }
}

fn u64_edge() -> impl Strategy<Value = u64> {
    prop_oneof![3 => 0u64..300, 1 => any::<u64>(), 1 => prop_oneof![Just(u64::MAX), Just(u64::MAX - 1), Just(1u64 << 63), Just(250u64), Just(251), Just(65535), Just(65536), Just(u64::from(u32::MAX)), Just(u64::from(u32::MAX) + 1)]]
}

#[derive(Debug)]
enum Num {
    I(i64),
    F64(u64),
    F32(u32),
}

/// Numeric leaves of a canonical value in the order the serde derive writes them.
fn expected_numbers(v: &VSpec, out: &mut Vec<Num>) {
    match v {
        VSpec::Int(i) | VSpec::Ts(i) => out.push(Num::I(*i)),
        VSpec::F(b) => out.push(Num::F64(*b)),
        VSpec::Bytes(b) => out.extend(b.iter().map(|x| Num::I(i64::from(*x)))),
        VSpec::Vector(x) => out.extend(x.iter().map(|b| Num::F32(*b))),
        VSpec::List(l) => l.iter().for_each(|e| expected_numbers(e, out)),
        VSpec::Map(m) => m.iter().for_each(|(_, e)| expected_numbers(e, out)),
        VSpec::Null | VSpec::Bool(_) | VSpec::Str(_) => {}
    }
}

/// Number tokens of a JSON text (outside strings), in order.
fn json_number_tokens(s: &str) -> Vec<String> {
    let mut out = Vec::new();
    let mut in_str = false;
    let mut esc = false;
    let mut cur = String::new();
    for ch in s.chars() {
        if in_str {
            if esc {
                esc = false;
            } else if ch == '\\' {
                esc = true;
            } else if ch == '"' {
                in_str = false;
            }
            continue;
        }
        if ch.is_ascii_digit() || (matches!(ch, '-' | '+' | '.' | 'e' | 'E') && (!cur.is_empty() || ch == '-')) {
            cur.push(ch);
            continue;
        }
        if !cur.is_empty() {
            out.push(std::mem::take(&mut cur));
        }
        if ch == '"' {
            in_str = true;
        }
    }
    if !cur.is_empty() {
        out.push(cur);
    }
    out
}

fn mask_floats(v: &VSpec) -> VSpec {
    match v {
        VSpec::F(_) => VSpec::F(0),
        VSpec::Vector(x) => VSpec::Vector(vec![0; x.len()]),
        VSpec::List(l) => VSpec::List(l.iter().map(mask_floats).collect()),
        VSpec::Map(m) => VSpec::Map(m.iter().map(|(k, e)| (k.clone(), mask_floats(e))).collect()),
        other => other.clone(),
    }
}

fn check_roundtrip(c: &RoundTripCase) -> CaseResult {
    let want = c.value.canonical();
    let tag = c.value.tag();
    let cfg = bincode::config::standard();

    // Value::serialize / deserialize (bincode standard)
    let bytes = guard("Value::serialize", || c.value.to_value().serialize())?;
    match guard("Value::deserialize", || Value::deserialize(&bytes))? {
        Ok(v) => {
            let got = VSpec::from_value(&v);
            if got != want {
                return fail(format!("c16/roundtrip/bincode-value:{tag}"), format!("{want:?} -> {got:?}"));
            }
        }
        Err(e) => return fail(format!("c16/roundtrip/bincode-value-err:{tag}"), format!("{want:?}: {e}")),
    }

    // WAL records as the log encodes them
    let recs = [
        WalRecord::SetNodeProperty { id: NodeId::new(c.node), key: c.key.clone(), value: c.value.to_value() },
        WalRecord::SetEdgeProperty { id: EdgeId::new(c.edge), key: c.key.clone(), value: c.value.to_value() },
    ];
    for rec in &recs {
        let data = match guard("wal encode", || bincode::serde::encode_to_vec(rec, cfg))? {
            Ok(d) => d,
            Err(e) => return fail(format!("c16/roundtrip/wal-encode-err:{tag}"), format!("{want:?}: {e}")),
        };
        let dec: Result<(WalRecord, usize), _> = guard("wal decode", || bincode::serde::decode_from_slice(&data, cfg))?;
        match dec {
            Ok((r, used)) => {
                let (id, key, value) = match r {
                    WalRecord::SetNodeProperty { id, key, value } => (id.as_u64(), key, value),
                    WalRecord::SetEdgeProperty { id, key, value } => (id.as_u64() ^ (1 << 63), key, value),
                    other => return fail("c16/roundtrip/wal-variant", format!("{rec:?} -> {other:?}")),
                };
                let want_id = match rec {
                    WalRecord::SetNodeProperty { .. } => c.node,
                    _ => c.edge ^ (1 << 63),
                };
                if id != want_id || key != c.key {
                    return fail("c16/roundtrip/wal-id-key", format!("{rec:?} -> id {id} key {key:?}"));
                }
                let got = VSpec::from_value(&value);
                if got != want {
                    return fail(format!("c16/roundtrip/wal-value:{tag}"), format!("{want:?} -> {got:?}"));
                }
                if used != data.len() {
                    return fail("c16/roundtrip/wal-length", format!("{used} of {} bytes consumed", data.len()));
                }
            }
            Err(e) => return fail(format!("c16/roundtrip/wal-decode-err:{tag}"), format!("{want:?}: {e}")),
        }
    }

    // spill serializer: one value, and a row
    let mut buf = Vec::new();
    match guard("spill serialize_value", || serialize_value(&c.value.to_value(), &mut buf))? {
        Ok(n) => {
            if n != buf.len() {
                return fail(format!("c16/roundtrip/spill-count:{tag}"), format!("{want:?}: reported {n} bytes, wrote {}", buf.len()));
            }
        }
        Err(e) => return fail(format!("c16/roundtrip/spill-err:{tag}"), format!("{want:?}: {e}")),
    }
    let mut cur = std::io::Cursor::new(&buf[..]);
    match guard("spill deserialize_value", || deserialize_value(&mut cur))? {
        Ok(v) => {
            let got = VSpec::from_value(&v);
            if got != want {
                return fail(format!("c16/roundtrip/spill-value:{tag}"), format!("{want:?} -> {got:?}"));
            }
            if cur.position() as usize != buf.len() {
                return fail(format!("c16/roundtrip/spill-length:{tag}"), format!("{} of {} bytes consumed", cur.position(), buf.len()));
            }
        }
        Err(e) => return fail(format!("c16/roundtrip/spill-err:{tag}"), format!("{want:?}: {e}")),
    }
    let row = vec![c.value.to_value(), Value::Null, Value::Int64(c.node as i64), c.value.to_value()];
    let mut rbuf = Vec::new();
    match guard("spill serialize_row", || serialize_row(&row, &mut rbuf))? {
        Ok(n) if n == rbuf.len() => {}
        Ok(n) => return fail(format!("c16/roundtrip/spill-count:{tag}"), format!("row: reported {n}, wrote {}", rbuf.len())),
        Err(e) => return fail(format!("c16/roundtrip/spill-err:{tag}"), format!("row {want:?}: {e}")),
    }
    let mut rcur = std::io::Cursor::new(&rbuf[..]);
    match guard("spill deserialize_row", || deserialize_row(&mut rcur, 4))? {
        Ok(r) => {
            let got: Vec<VSpec> = r.iter().map(VSpec::from_value).collect();
            let w = vec![want.clone(), VSpec::Null, VSpec::Int(c.node as i64), want.clone()];
            if got != w {
                return fail(format!("c16/roundtrip/spill-row:{tag}"), format!("{w:?} -> {got:?}"));
            }
        }
        Err(e) => return fail(format!("c16/roundtrip/spill-err:{tag}"), format!("row {want:?}: {e}")),
    }

    // JSON through the serde derive (the only JSON conversion of `Value` inside the Rust crates).
    // Structure, strings and integers are compared after decoding with serde_json; numbers are additionally
    // compared token by token with Rust's correctly rounded parser, because serde_json's own float parser is
    // "best effort" (off by one ulp on some inputs) unless its `float_roundtrip` feature is on, and nothing in
    // the linked crates parses a `Value` from JSON text.
    let json_checked = !has_non_finite(&c.value);
    if json_checked {
        match guard("serde_json::to_string", || serde_json::to_string(&c.value.to_value()))? {
            Ok(s) => {
                match guard("serde_json::from_str", || serde_json::from_str::<Value>(&s))? {
                    Ok(v) => {
                        let got = mask_floats(&VSpec::from_value(&v));
                        if got != mask_floats(&want) {
                            return fail(format!("c16/roundtrip/json-value:{tag}"), format!("{want:?} -> {s} -> {got:?} (floats masked)"));
                        }
                    }
                    Err(e) => return fail(format!("c16/roundtrip/json-decode-err:{tag}"), format!("{want:?} -> {s}: {e}")),
                }
                let toks = json_number_tokens(&s);
                let mut exp = Vec::new();
                expected_numbers(&want, &mut exp);
                if toks.len() != exp.len() {
                    return fail(format!("c16/roundtrip/json-numbers:{tag}"), format!("{want:?} -> {s}: {} number tokens, expected {}", toks.len(), exp.len()));
                }
                for (t, e) in toks.iter().zip(&exp) {
                    let same = match e {
                        Num::I(i) => t.parse::<i64>().ok() == Some(*i),
                        Num::F64(b) => t.parse::<f64>().ok().map(f64::to_bits) == Some(*b),
                        Num::F32(b) => t.parse::<f32>().ok().map(f32::to_bits) == Some(*b),
                    };
                    if !same {
                        return fail(format!("c16/roundtrip/json-number:{tag}"), format!("{want:?} -> {s}: token {t} does not denote {e:?} exactly"));
                    }
                }
            }
            Err(e) => return fail(format!("c16/roundtrip/json-encode-err:{tag}"), format!("{want:?}: {e}")),
        }
    }

    // wrappers
    let ov = guard("try_from", || OrderableValue::try_from(&c.value.to_value()))?;
    match (&ov, c.value.is_orderable()) {
        (Some(o), true) => {
            let got = VSpec::from_value(&o.clone().into_value());
            if got != want {
                return fail(format!("c16/orderable/into_value:{tag}"), format!("{want:?} -> {got:?}"));
            }
        }
        (None, false) => {}
        (Some(_), false) => return fail(format!("c16/orderable/try_from-accepts:{tag}"), format!("{want:?} is documented as not orderable")),
        (None, true) => return fail(format!("c16/orderable/try_from-rejects:{tag}"), format!("{want:?} is documented as orderable")),
    }
    let hv: Value = guard("hashable into", || HashableValue::from(c.value.to_value()).into())?;
    if VSpec::from_value(&hv) != want {
        return fail(format!("c16/hashable/inner-changed:{tag}"), format!("{want:?} -> {:?}", VSpec::from_value(&hv)));
    }

    ok(
        c.value.has_float_edge() || c.value.is_container(),
        format!("{}{}", rt_class(&c.value), if json_checked { "" } else { ":no-json" }),
        hash_of(&(&want, &c.key, c.node, c.edge)),
    )
}

#[derive(Debug, Clone, Serialize, Deserialize)]
pub struct WalFileCase {
    pub recs: Vec<RoundTripCase>,
}

fn check_wal_file(c: &WalFileCase) -> CaseResult {
    let dir = scratch_dir();
    let recs: Vec<WalRecord> = c
        .recs
        .iter()
        .enumerate()
        .map(|(i, r)| {
            if i % 2 == 0 {
                WalRecord::SetNodeProperty { id: NodeId::new(r.node), key: r.key.clone(), value: r.value.to_value() }
            } else {
                WalRecord::SetEdgeProperty { id: EdgeId::new(r.edge), key: r.key.clone(), value: r.value.to_value() }
            }
        })
        .collect();
    let res = guard("wal write+recover", || -> Result<Vec<WalRecord>, String> {
        let cfg = WalConfig { durability: DurabilityMode::NoSync, ..WalConfig::default() };
        let wal = WalManager::with_config(dir.path(), cfg).map_err(|e| format!("open: {e}"))?;
        for r in &recs {
            wal.log(r).map_err(|e| format!("log: {e}"))?;
        }
        wal.log(&WalRecord::TxCommit { tx_id: TxId::new(7) }).map_err(|e| format!("log commit: {e}"))?;
        wal.flush().map_err(|e| format!("flush: {e}"))?;
        drop(wal);
        WalRecovery::new(dir.path()).recover().map_err(|e| format!("recover: {e}"))
    })?;
    let got = match res {
        Ok(g) => g,
        Err(e) => return fail("c16/wal-file/error", e),
    };
    if got.len() != recs.len() + 1 {
        return fail("c16/wal-file/record-count", format!("wrote {} records + commit, recovered {}", recs.len(), got.len()));
    }
    for (i, r) in c.recs.iter().enumerate() {
        let want = r.value.canonical();
        let (id, key, value) = match &got[i] {
            WalRecord::SetNodeProperty { id, key, value } if i % 2 == 0 => (id.as_u64(), key, value),
            WalRecord::SetEdgeProperty { id, key, value } if i % 2 == 1 => (id.as_u64(), key, value),
            other => return fail("c16/wal-file/variant", format!("record {i}: {other:?}")),
        };
        let want_id = if i % 2 == 0 { r.node } else { r.edge };
        if id != want_id || *key != r.key {
            return fail("c16/wal-file/id-key", format!("record {i}: id {id} key {key:?}, expected {want_id} {:?}", r.key));
        }
        let g = VSpec::from_value(value);
        if g != want {
            return fail(format!("c16/wal-file/value:{}", r.value.tag()), format!("{want:?} -> {g:?}"));
        }
    }
    let vs: Vec<&VSpec> = c.recs.iter().map(|r| &r.value).collect();
    ok(vs.iter().any(|v| v.has_float_edge() || v.is_container()), format!("{}-records", c.recs.len().min(4)), hash_of(&format!("{c:?}")))
}

#[derive(Debug, Clone, Serialize, Deserialize)]
pub struct SnapshotCase {
    pub node_props: Vec<(String, VSpec)>,
    pub edge_props: Vec<(String, VSpec)>,
}

fn props_of(m: &BTreeMap<grafeo_common::types::PropertyKey, Value>) -> BTreeMap<String, VSpec> {
    m.iter().map(|(k, v)| (k.as_str().to_string(), VSpec::from_value(v))).collect()
}

fn check_snapshot(c: &SnapshotCase) -> CaseResult {
    let mut want_n: BTreeMap<String, VSpec> = BTreeMap::new();
    for (k, v) in &c.node_props {
        want_n.insert(k.clone(), v.canonical());
    }
    let mut want_e: BTreeMap<String, VSpec> = BTreeMap::new();
    for (k, v) in &c.edge_props {
        want_e.insert(k.clone(), v.canonical());
    }
    type Dump = (Option<BTreeMap<String, VSpec>>, Option<BTreeMap<String, VSpec>>, Option<BTreeMap<String, VSpec>>, usize, usize);
    let dump = |db: &GrafeoDB, n1: NodeId, n2: NodeId, e: EdgeId| -> Dump {
        (
            db.get_node(n1).map(|n| props_of(&n.properties)),
            db.get_node(n2).map(|n| props_of(&n.properties)),
            db.get_edge(e).map(|x| props_of(&x.properties)),
            db.iter_nodes().count(),
            db.iter_edges().count(),
        )
    };
    let res = guard("snapshot", || -> Result<(Dump, Dump), String> {
        let db = GrafeoDB::new_in_memory();
        let n1 = db.create_node(&["A"]);
        let n2 = db.create_node(&["B", "C"]);
        for (k, v) in &c.node_props {
            db.set_node_property(n1, k, v.to_value());
        }
        let e = db.create_edge(n1, n2, "R");
        for (k, v) in &c.edge_props {
            db.set_edge_property(e, k, v.to_value());
        }
        let before = dump(&db, n1, n2, e);
        let bytes = db.export_snapshot().map_err(|e| format!("export: {e}"))?;
        let db2 = GrafeoDB::import_snapshot(&bytes).map_err(|e| format!("import: {e}"))?;
        let after = dump(&db2, n1, n2, e);
        Ok((before, after))
    })?;
    let (before, after) = match res {
        Ok(x) => x,
        Err(e) => return fail("c16/snapshot/error", e),
    };
    // what was stored is what was set (the store is not a serialisation, but a loss here would hide one)
    if before.0.as_ref() != Some(&want_n) || before.2.as_ref() != Some(&want_e) {
        return fail("c16/snapshot/store-differs-from-input", format!("set {want_n:?} / {want_e:?}, read back {:?} / {:?}", before.0, before.2));
    }
    if after != before {
        let tag = c.node_props.iter().chain(&c.edge_props).map(|(_, v)| v.tag()).next().unwrap_or("none");
        return fail(format!("c16/snapshot/value:{tag}"), format!("before {before:?}\nafter  {after:?}"));
    }
    let vs: Vec<&VSpec> = c.node_props.iter().chain(&c.edge_props).map(|(_, v)| v).collect();
    ok(
        vs.iter().any(|v| v.has_float_edge() || v.is_container()),
        format!("{}-props", (c.node_props.len() + c.edge_props.len()).min(4)),
        hash_of(&(&c.node_props, &c.edge_props)),
    )
}

// ------------------------------------------------------------------------------------------------
// operators
// ------------------------------------------------------------------------------------------------

struct ChunkSrc {
    chunks: Vec<DataChunk>,
    pos: usize,
}

impl Operator for ChunkSrc {
    fn next(&mut self) -> OperatorResult {
        if self.pos < self.chunks.len() {
            self.pos += 1;
            Ok(Some(self.chunks[self.pos - 1].clone()))
        } else {
            Ok(None)
        }
    }
    fn reset(&mut self) {
        self.pos = 0;
    }
    fn name(&self) -> &'static str {
        "ChunkSrc"
    }
}

#[derive(Debug, Clone, Serialize, Deserialize)]
pub struct TableCase {
    pub bag: Bag,
    /// rows per input chunk (1..)
    pub chunk: u8,
    pub descending: bool,
    pub nulls_first: bool,
}

/// Two columns: the generated key (LogicalType::Any) and the row ordinal (Int64).
fn build_chunks(vals: &[VSpec], chunk: usize) -> Vec<DataChunk> {
    let schema = [LogicalType::Any, LogicalType::Int64];
    let mut out = Vec::new();
    for (ci, part) in vals.chunks(chunk.max(1)).enumerate() {
        let mut b = DataChunkBuilder::with_capacity(&schema, part.len().max(1));
        for (ri, v) in part.iter().enumerate() {
            b.column_mut(0).unwrap().push_value(v.to_value());
            b.column_mut(1).unwrap().push_value(Value::Int64((ci * chunk.max(1) + ri) as i64));
            b.advance_row();
        }
        out.push(b.finish());
    }
    out
}

fn drain(op: &mut dyn Operator, cols: usize) -> Result<Vec<Vec<VSpec>>, String> {
    let mut rows = Vec::new();
    let mut guard_n = 0;
    loop {
        guard_n += 1;
        if guard_n > 10_000 {
            return Err("operator did not terminate after 10000 chunks".into());
        }
        match op.next() {
            Ok(Some(ch)) => {
                for r in ch.selected_indices() {
                    let mut row = Vec::with_capacity(cols);
                    for c in 0..cols {
                        match ch.column(c).and_then(|col| col.get_value(r)) {
                            Some(v) => row.push(VSpec::from_value(&v)),
                            None => return Err(format!("column {c} row {r} missing in output chunk")),
                        }
                    }
                    rows.push(row);
                }
            }
            Ok(None) => return Ok(rows),
            Err(e) => return Err(format!("operator error: {e}")),
        }
    }
}

fn table_vals(c: &TableCase) -> (Vec<VSpec>, Vec<VSpec>) {
    let vals = c.bag.values(false);
    let canon = vals.iter().map(VSpec::canonical).collect();
    (vals, canon)
}

/// Shared verdict for DISTINCT / GROUP BY keys: `out_keys` must (a) each be bit-identical to some input,
/// (b) be pairwise not bit-identical, (c) cover every input by a maybe-equal key.
fn judge_keys(op: &str, canon: &[VSpec], out_keys: &[VSpec]) -> Result<(), Failure> {
    for k in out_keys {
        if !canon.iter().any(|v| v == k) {
            // which input could it have come from?
            let src = canon.iter().find(|v| maybe_equal(v, k)).map_or("unrelated", |v| pair_class(v, k));
            return fail(
                format!("c16/{op}/invented:{}-from-{src}", k.tag()),
                format!("output key {k:?} is not bit-identical to any input value; input {canon:?}"),
            );
        }
    }
    for i in 0..out_keys.len() {
        for j in i + 1..out_keys.len() {
            if out_keys[i] == out_keys[j] {
                return fail(format!("c16/{op}/splits:{}", out_keys[i].tag()), format!("{:?} appears twice in the output; input {canon:?}", out_keys[i]));
            }
        }
    }
    for v in canon {
        if !out_keys.iter().any(|k| maybe_equal(k, v)) {
            // merged into what? report the class of the closest suspect: same tag first
            let suspect = out_keys.iter().find(|k| k.tag() == v.tag()).or_else(|| out_keys.first());
            let pc = suspect.map_or("nothing", |k| pair_class(k, v));
            return fail(
                format!("c16/{op}/merges:{pc}"),
                format!("input value {v:?} has no equal key in the output {out_keys:?}; input {canon:?}"),
            );
        }
    }
    Ok(())
}

fn check_op_distinct(c: &TableCase) -> CaseResult {
    let (vals, canon) = table_vals(c);
    let cls = bag_class(&vals);
    // column 0 only, and all columns (ordinal makes every row unique)
    let chunks = build_chunks(&vals, usize::from(c.chunk));
    let out = guard("DistinctOperator", || {
        let schema = vec![LogicalType::Any, LogicalType::Int64];
        let mut op = DistinctOperator::on_columns(Box::new(ChunkSrc { chunks: chunks.clone(), pos: 0 }), vec![0], schema.clone());
        let a = drain(&mut op, 2);
        let mut op2 = DistinctOperator::new(Box::new(ChunkSrc { chunks: chunks.clone(), pos: 0 }), schema);
        let b = drain(&mut op2, 2);
        (a, b)
    })?;
    let (on_key, all_cols) = match out {
        (Ok(a), Ok(b)) => (a, b),
        (Err(e), _) | (_, Err(e)) => return fail("c16/distinct/error", e),
    };
    // rows must be input rows (key + ordinal intact)
    for r in &on_key {
        let VSpec::Int(o) = r[1] else { return fail("c16/distinct/row-damaged", format!("{r:?}")) };
        if o < 0 || o as usize >= canon.len() || canon[o as usize] != r[0] {
            return fail(format!("c16/distinct/row-damaged:{}", r[0].tag()), format!("output row {r:?} is not an input row; input {canon:?}"));
        }
    }
    let keys: Vec<VSpec> = on_key.iter().map(|r| r[0].clone()).collect();
    judge_keys("distinct", &canon, &keys)?;
    // first occurrence is the one kept (documented by construction: `seen.insert`), not required; skip.
    // all columns: every row is unique, so the output must be the whole input
    let mut got: Vec<Vec<VSpec>> = all_cols.clone();
    got.sort();
    let mut want: Vec<Vec<VSpec>> = canon.iter().enumerate().map(|(i, v)| vec![v.clone(), VSpec::Int(i as i64)]).collect();
    want.sort();
    if got != want {
        return fail(format!("c16/distinct/all-columns:{cls}"), format!("rows are pairwise different, output {got:?} != input {want:?}"));
    }
    ok(nontrivial(&refs(&vals)) && vals.len() >= 2, cls, hash_of(&(&vals, c.chunk)))
}

fn check_op_group(c: &TableCase) -> CaseResult {
    let (vals, canon) = table_vals(c);
    let cls = bag_class(&vals);
    let chunks = build_chunks(&vals, usize::from(c.chunk));
    let out = guard("HashAggregateOperator", || {
        let schema = vec![LogicalType::Any, LogicalType::Int64];
        let mut op = HashAggregateOperator::new(
            Box::new(ChunkSrc { chunks: chunks.clone(), pos: 0 }),
            vec![0],
            vec![AggregateExpr::count_star()],
            schema,
        );
        drain(&mut op, 2)
    })?;
    let rows = match out {
        Ok(r) => r,
        Err(e) => return fail("c16/group/error", e),
    };
    let keys: Vec<VSpec> = rows.iter().map(|r| r[0].clone()).collect();
    judge_keys("group", &canon, &keys)?;
    let mut total = 0i64;
    for r in &rows {
        let VSpec::Int(n) = r[1] else { return fail("c16/group/count-type", format!("{r:?}")) };
        let identical = canon.iter().filter(|v| **v == r[0]).count() as i64;
        let possible = canon.iter().filter(|v| maybe_equal(v, &r[0])).count() as i64;
        if n < identical {
            return fail(format!("c16/group/splits:{}", r[0].tag()), format!("group {:?} counts {n} rows, {identical} bit-identical inputs; input {canon:?}", r[0]));
        }
        if n > possible {
            return fail(
                format!("c16/group/merges:{}", r[0].tag()),
                format!("group {:?} counts {n} rows, only {possible} inputs can equal it; input {canon:?}", r[0]),
            );
        }
        total += n;
    }
    if total != canon.len() as i64 {
        return fail("c16/group/total", format!("counts sum to {total}, {} input rows", canon.len()));
    }
    ok(nontrivial(&refs(&vals)) && vals.len() >= 2, cls, hash_of(&(&vals, c.chunk)))
}

/// Which of the recorded comparator limitations of `SortOperator` a key column runs into.
fn sort_column_class(canon: &[VSpec]) -> &'static str {
    let nn: Vec<&VSpec> = canon.iter().filter(|v| !matches!(v, VSpec::Null)).collect();
    let class_of = |v: &VSpec| match v {
        VSpec::Int(_) | VSpec::F(_) => "num",
        other => other.tag(),
    };
    let kinds: BTreeSet<&str> = nn.iter().map(|v| class_of(v)).collect();
    if kinds.len() >= 2 {
        return "cross-type";
    }
    if nn.iter().any(|v| matches!(v, VSpec::F(b) if f64::from_bits(*b).is_nan())) {
        return "nan";
    }
    if nn.iter().any(|v| matches!(v, VSpec::Ts(_) | VSpec::Bytes(_) | VSpec::Vector(_) | VSpec::List(_) | VSpec::Map(_))) {
        return "unordered-type";
    }
    // Int and Float mixed where the `as f64` cast changes the answer for some pair
    for a in &nn {
        for b in &nn {
            if let (VSpec::Int(i), VSpec::F(f)) = (a, b) {
                let f = f64::from_bits(*f);
                let lossy = (*i as f64).partial_cmp(&f).unwrap_or(Ordering::Equal);
                if lossy != model::cmp_int_float(*i, f) {
                    return "int-float-lossy";
                }
            }
        }
    }
    "clean"
}

fn check_op_sort(c: &TableCase) -> CaseResult {
    let (vals, canon) = table_vals(c);
    let col_cls = sort_column_class(&canon);
    let chunks = build_chunks(&vals, usize::from(c.chunk));
    let key = SortKey {
        column: 0,
        direction: if c.descending { SortDirection::Descending } else { SortDirection::Ascending },
        null_order: if c.nulls_first { NullOrder::NullsFirst } else { NullOrder::NullsLast },
    };
    let out = catch(|| {
        let schema = vec![LogicalType::Any, LogicalType::Int64];
        let mut op = SortOperator::new(Box::new(ChunkSrc { chunks: chunks.clone(), pos: 0 }), vec![key.clone()], schema);
        drain(&mut op, 2)
    });
    let rows = match out {
        Ok(Ok(r)) => r,
        Ok(Err(e)) => return fail("c16/sort/error", e),
        Err(p) => {
            // std's sort detected a comparator that is not a total order: the law is what broke
            let sig = if p.msg.contains("total order") { format!("c16/sort/not-total-order:{col_cls}") } else { p.signature() };
            return fail(sig, format!("SortOperator panicked at {}: {}; key column {canon:?}", p.file, p.msg));
        }
    };
    // permutation of the input rows
    let mut got = rows.clone();
    got.sort();
    let mut want: Vec<Vec<VSpec>> = canon.iter().enumerate().map(|(i, v)| vec![v.clone(), VSpec::Int(i as i64)]).collect();
    want.sort();
    if got != want {
        return fail(format!("c16/sort/not-permutation:{col_cls}"), format!("input rows {want:?}, output rows {got:?}"));
    }
    // NULL placement: which end is a matter of the NullOrder / direction contract (C17/C08), not of C16;
    // here NULLs only have to form one block at either end.
    let keys: Vec<&VSpec> = rows.iter().map(|r| &r[0]).collect();
    let null_pos: Vec<usize> = keys.iter().enumerate().filter(|(_, k)| matches!(k, VSpec::Null)).map(|(i, _)| i).collect();
    let n_null = null_pos.len();
    if !(null_pos.iter().copied().eq(0..n_null) || null_pos.iter().copied().eq(keys.len() - n_null..keys.len())) {
        return fail(format!("c16/sort/null-placement:{col_cls}"), format!("nulls_first={} descending={}: {keys:?}", c.nulls_first, c.descending));
    }
    // order among values every notion agrees on
    for i in 0..keys.len() {
        for j in i + 1..keys.len() {
            if let Some(o) = definite_cmp(keys[i], keys[j]) {
                let bad = if c.descending { o == Ordering::Less } else { o == Ordering::Greater };
                if bad {
                    let pc = pair_class(keys[i], keys[j]);
                    return fail(
                        format!("c16/sort/order:{col_cls}:{pc}"),
                        format!("{:?} is output before {:?} (descending={}); output keys {keys:?}", keys[i], keys[j], c.descending),
                    );
                }
            }
        }
    }
    ok(
        nontrivial(&refs(&vals)) && vals.len() >= 2,
        format!("{col_cls}{}", if vals.len() > 20 { ":long" } else { "" }),
        hash_of(&(&vals, c.chunk, c.descending, c.nulls_first)),
    )
}

// ------------------------------------------------------------------------------------------------
// strategies for the cases above
// ------------------------------------------------------------------------------------------------

fn rt_case_strategy(depth: u32) -> BoxedStrategy<RoundTripCase> {
    (nested_value_strategy(depth), key_strategy(), u64_edge(), u64_edge())
        .prop_map(|(value, key, node, edge)| RoundTripCase { value, key, node, edge })
        .boxed()
}

/// Key columns for the operator checks: homogeneous columns of each kind (so that the strict region of the sort
/// check is well populated) and fully mixed ones.
fn table_strategy(max_rows: usize) -> BoxedStrategy<TableCase> {
    use values::{bytes_strategy, int_strategy, string_strategy, ts_strategy, vector_strategy};
    let null_or = |s: BoxedStrategy<VSpec>| prop_oneof![1 => Just(VSpec::Null), 8 => s].boxed();
    let small_num = prop_oneof![(-6i64..=6).prop_map(VSpec::Int), (-12i64..=12).prop_map(|i| VSpec::f(i as f64 / 2.0))].boxed();
    let finite_float = f64_bits_strategy().prop_filter("not NaN", |b| !f64::from_bits(*b).is_nan()).prop_map(VSpec::F).boxed();
    let elem = prop_oneof![
        2 => null_or(int_strategy().prop_map(VSpec::Int).boxed()),
        2 => null_or(finite_float),
        1 => null_or(f64_bits_strategy().prop_map(VSpec::F).boxed()),
        2 => null_or(string_strategy().prop_map(VSpec::Str).boxed()),
        1 => null_or(any::<bool>().prop_map(VSpec::Bool).boxed()),
        2 => null_or(small_num),
        1 => null_or(prop_oneof![int_strategy().prop_map(VSpec::Int), f64_bits_strategy().prop_map(VSpec::F)].boxed()),
        1 => null_or(ts_strategy().prop_map(VSpec::Ts).boxed()),
        1 => null_or(prop_oneof![bytes_strategy().prop_map(VSpec::Bytes), vector_strategy().prop_map(VSpec::Vector)].boxed()),
        3 => value_strategy(2),
    ];
    // one kind per table: choose the kind first, then the pool from it
    let kinds: Vec<BoxedStrategy<VSpec>> = vec![
        null_or(int_strategy().prop_map(VSpec::Int).boxed()),
        null_or(f64_bits_strategy().prop_filter("not NaN", |b| !f64::from_bits(*b).is_nan()).prop_map(VSpec::F).boxed()),
        null_or(string_strategy().prop_map(VSpec::Str).boxed()),
        null_or(prop_oneof![(-6i64..=6).prop_map(VSpec::Int), (-12i64..=12).prop_map(|i| VSpec::f(i as f64 / 2.0))].boxed()),
        null_or(any::<bool>().prop_map(VSpec::Bool).boxed()),
    ];
    let homogeneous = proptest::strategy::Union::new(kinds.into_iter().map(|k| bag_no_rel(k, 6, max_rows)));
    let mixed = bag_strategy(elem.boxed(), 6, max_rows);
    (prop_oneof![2 => homogeneous.boxed(), 3 => mixed], 1u8..=24, any::<bool>(), any::<bool>())
        .prop_map(|(bag, chunk, descending, nulls_first)| TableCase { bag, chunk, descending, nulls_first })
        .boxed()
}

/// A bag without relatives (relatives may leave the column's type).
fn bag_no_rel(elem: BoxedStrategy<VSpec>, max_pool: usize, max_rows: usize) -> BoxedStrategy<Bag> {
    (
        proptest::collection::vec(elem, 1..=max_pool),
        prop_oneof![
            4 => proptest::collection::vec(any::<u16>(), 0..=max_rows.min(12)),
            3 => proptest::collection::vec(any::<u16>(), 0..=max_rows),
        ],
    )
        .prop_map(|(pool, rows)| Bag { pool, rels: Vec::new(), rows })
        .boxed()
}

// ------------------------------------------------------------------------------------------------

pub fn run(r: &mut Run) {
    r.level = "exploration";
    r.rule = "values of every variant (Null, Bool, Int64 incl. ±2^53±k / i64 extremes / float bit patterns read as ints, Float64 incl. ±0, ±inf, \
              NaN payloads and signs, subnormals, 2^53 and 2^63 neighbours, String incl. empty / non-ASCII / long, Bytes, Timestamp, Vector, \
              List/Map nested to depth 4); pairs and triples are built from a value and deterministic near-equal relatives (same value rebuilt, \
              Int vs equal or lossy-cast Float, ±0, NaN payload/sign, bit neighbours, permuted map insertion order, same-first-element bytes/vectors) \
              5:1 against independent draws, plus numeric chains around ±2^53, ±2^63 and 0; bags/tables draw rows (with repetition) from a pool of \
              ≤ 6 values and their relatives; operator tables are 40 % single-kind columns, 60 % mixed. Non-trivial = some pair is cross-type, or a \
              value contains a float edge pattern (NaN, ±0, ±inf, subnormal, |x| ≥ 2^53), or a value is a List/Map (round-trips: the value has an \
              edge pattern or is a container). Distinct by hash of the case."
        .into();
    r.assumptions.push("OrderableValue laws are asserted over the values `OrderableValue::try_from` accepts (Bool, Int64, Float64, String, Timestamp); the documented order is: Bool < numerics < String < Timestamp, Int64/Float64 compared numerically, -0 = +0, all NaNs equal and greater than every number".into());
    r.assumptions.push("HashableValue equality is the documented bitwise structural identity (NaN equal to a NaN with the same bits, +0 != -0)".into());
    r.assumptions.push("JSON: the cdylib / Python / Node / wasm bindings (their value_to_json / json_to_value) are not linked into the harness; the only JSON conversion of Value reachable from the Rust crates is the serde derive, checked through serde_json for values without NaN/±inf (JSON has no representation for them)".into());
    r.assumptions.push("operator checks use LogicalType::Any key columns; DISTINCT / GROUP BY may treat Int vs numerically equal Float, +0 vs -0 and NaN vs NaN either way (the wrappers disagree), anything else that is not bit-identical is 'different'; sort order is asserted only between values whose order every comparator in the system agrees on (same orderable type, or Int vs Float)".into());
    r.assumptions.push("snapshot check runs on a fresh in-memory database (epoch 0), so the store-epoch defect R1 does not interfere".into());

    let thorough = r.is_thorough();
    let depth = 3;

    r.subcheck(
        "hashable_laws",
        r.cases(150_000, 6_000_000),
        move || prop_oneof![6 => triple_strategy(value_strategy(depth), false), 1 => numeric_chain_strategy()],
        check_hashable_triple,
    );
    r.subcheck(
        "orderable_laws",
        r.cases(250_000, 10_000_000),
        || prop_oneof![3 => triple_strategy(orderable_strategy(), true), 2 => numeric_chain_strategy()],
        check_orderable_triple,
    );
    let rows = if thorough { 300 } else { 70 };
    r.subcheck("orderable_sort", r.cases(20_000, 400_000), move || bag_strategy(orderable_strategy(), 6, rows), check_orderable_sort);
    r.subcheck(
        "hash_index",
        r.cases(8_000, 150_000),
        move || {
            (bag_strategy(value_strategy(2), 6, 30), any::<bool>(), proptest::collection::vec((any::<u16>(), any::<u16>()), 0..4))
                .prop_map(|(bag, index_first, updates)| IndexCase { bag, index_first, updates })
        },
        check_hash_index,
    );
    r.subcheck(
        "float_index",
        r.cases(15_000, 300_000),
        || {
            (proptest::collection::vec(f64_bits_strategy(), 1..6), proptest::collection::vec(any::<u16>(), 0..24))
                .prop_map(|(pool, rows)| rows.iter().map(|r| pool[pick(*r, pool.len())]).collect::<Vec<u64>>())
        },
        check_float_index,
    );
    r.subcheck("roundtrip", r.cases(100_000, 3_000_000), || rt_case_strategy(4), check_roundtrip);
    r.subcheck(
        "wal_file",
        r.cases(1_000, 30_000),
        || proptest::collection::vec(rt_case_strategy(3), 1..6).prop_map(|recs| WalFileCase { recs }),
        check_wal_file,
    );
    r.subcheck(
        "snapshot",
        r.cases(2_500, 60_000),
        || {
            (
                proptest::collection::vec((key_strategy(), nested_value_strategy(3)), 0..4),
                proptest::collection::vec((key_strategy(), nested_value_strategy(3)), 0..3),
            )
                .prop_map(|(node_props, edge_props)| SnapshotCase { node_props, edge_props })
        },
        check_snapshot,
    );
    let trows = if thorough { 120 } else { 40 };
    r.subcheck("op_distinct", r.cases(15_000, 300_000), move || table_strategy(trows), check_op_distinct);
    r.subcheck("op_group", r.cases(15_000, 300_000), move || table_strategy(trows), check_op_group);
    r.subcheck("op_sort", r.cases(20_000, 400_000), move || table_strategy(trows), check_op_sort);
}
