//! C17 execution drivers: build the same logical plan as a pull chain, a push `Pipeline`
//! (in-memory or spillable operators) and a `ParallelPipeline` (+ the documented merge functions).

use std::collections::{BTreeMap, HashMap};
use std::sync::Arc;

use grafeo_common::memory::buffer::PressureLevel;
use grafeo_common::types::{LogicalType, Value};
use grafeo_core::execution::operators::push::{
    self as push, AggregatePushOperator, ColumnExpr, DistinctMaterializingOperator, DistinctPushOperator, FilterPushOperator,
    LimitPushOperator, ProjectExpression, ProjectPushOperator, SkipLimitPushOperator, SkipPushOperator, SortPushOperator,
    SpillableAggregatePushOperator, SpillableSortPushOperator,
};
use grafeo_core::execution::operators::{
    self as pull, BinaryFilterOp, DistinctOperator, ExpressionPredicate, FilterExpression, FilterOperator, HashAggregateOperator,
    LimitOperator, LimitSkipOperator, ProjectExpr, ProjectOperator, SimpleAggregateOperator, SkipOperator, SortOperator,
};
use grafeo_core::execution::parallel::{
    self, CloneableOperatorFactory, ParallelChunkSource, ParallelPipeline, ParallelPipelineConfig, ParallelSource, ParallelVectorSource,
};
use grafeo_core::execution::spill::SpillManager;
use grafeo_core::execution::{ChunkSource, DataChunk, Pipeline, PushOperator, Sink, Source, ValueVector, VectorSource};
use grafeo_core::graph::lpg::LpgStore;
use serde::{Deserialize, Serialize};

use super::model::*;
use crate::driver::{Failure, fail, guard, scratch_dir};

type OpErr = pull::OperatorError;

// ------------------------------------------------------------------------------------------------
// Configurations
// ------------------------------------------------------------------------------------------------

#[derive(Clone, Debug, PartialEq, Serialize, Deserialize)]
pub enum Split {
    /// every chunk has this many rows (>= 1)
    Fixed(u32),
    /// chunk sizes cycle through this list (0 = an empty chunk)
    Cycle(Vec<u16>),
}

#[derive(Clone, Debug, PartialEq, Serialize, Deserialize)]
pub struct Cfg {
    pub split: Split,
    /// input chunks / pull output schemas use typed vectors (Int64, Float64, …) instead of `Any`
    pub typed: bool,
    /// push: `VectorSource` instead of `ChunkSource`; parallel: `ParallelVectorSource` instead of `ParallelChunkSource`
    pub vec_source: bool,
    /// bit 0: materializing distinct (push) · bit 1: HashAggregate for global aggregates (pull) ·
    /// bit 2: separate Skip + Limit operators instead of the combined one
    pub variant: u8,
    /// spill threshold (rows for sort, groups for aggregate)
    pub spill_threshold: u32,
    /// call `SpillManager::cleanup()` explicitly (else rely on the documented cleanup on drop)
    pub explicit_cleanup: bool,
    pub workers: u8,
    /// 0 Normal (64K morsels) · 1 Moderate (32K) · 2 High (16K) · 3 Critical (1K)
    pub pressure: u8,
    pub par_chunk: u16,
}

/// At most ~MAX_CHUNKS chunks per table: every tiny chunk costs three 2048-slot vector allocations
/// inside grafeo, so very fine splits of large tables are coarsened (sizes scaled up by an integer factor).
pub const MAX_CHUNKS: usize = 96;

pub fn split_sizes(n: usize, split: &Split) -> Vec<usize> {
    let mut out = Vec::new();
    let mut left = n;
    match split {
        Split::Fixed(k) => {
            let k = (*k as usize).max(1).max(n.div_ceil(MAX_CHUNKS));
            while left > 0 {
                let t = k.min(left);
                out.push(t);
                left -= t;
            }
        }
        Split::Cycle(v) => {
            if v.iter().all(|x| *x == 0) {
                return split_sizes(n, &Split::Fixed(1));
            }
            let per_cycle: usize = v.iter().map(|x| *x as usize).sum();
            let cycles = n.div_ceil(per_cycle.max(1));
            let factor = (cycles * v.len()).div_ceil(MAX_CHUNKS).max(1);
            let mut i = 0;
            while left > 0 {
                let t = (v[i % v.len()] as usize * factor).min(left);
                out.push(t);
                left -= t;
                i += 1;
            }
        }
    }
    out
}

pub fn make_chunks(rows: &[Row], kinds: &[u8], cfg: &Cfg) -> Vec<DataChunk> {
    let mut chunks = Vec::new();
    let mut pos = 0;
    for sz in split_sizes(rows.len(), &cfg.split) {
        let slice = &rows[pos..pos + sz];
        pos += sz;
        let cols: Vec<ValueVector> = (0..kinds.len())
            .map(|c| {
                if cfg.typed {
                    let mut v = ValueVector::with_type(kind_type(kinds[c]));
                    for r in slice {
                        v.push_value(r[c].to_value());
                    }
                    v
                } else {
                    let vals: Vec<Value> = slice.iter().map(|r| r[c].to_value()).collect();
                    ValueVector::from_values(&vals)
                }
            })
            .collect();
        chunks.push(DataChunk::new(cols));
    }
    chunks
}

pub fn chunk_rows(chunk: &DataChunk, out: &mut Vec<Row>) {
    let nc = chunk.column_count();
    for i in chunk.selected_indices() {
        let mut row = Vec::with_capacity(nc);
        for c in 0..nc {
            match chunk.column(c).and_then(|col| if i < col.len() { col.get_value(i) } else { None }) {
                Some(v) => row.push(V::from_value(&v)),
                None => row.push(V::S("<missing cell>".into())),
            }
        }
        out.push(row);
    }
}

pub fn chunks_rows(chunks: &[DataChunk]) -> Vec<Row> {
    let mut out = Vec::new();
    for c in chunks {
        chunk_rows(c, &mut out);
    }
    out
}

fn types_of(kinds: &[u8], typed: bool) -> Vec<LogicalType> {
    kinds.iter().map(|k| if typed { kind_type(*k) } else { LogicalType::Any }).collect()
}

// ------------------------------------------------------------------------------------------------
// Pull
// ------------------------------------------------------------------------------------------------

pub struct ChunksOp {
    pub chunks: Vec<DataChunk>,
    pub pos: usize,
}

impl pull::Operator for ChunksOp {
    fn next(&mut self) -> pull::OperatorResult {
        if self.pos < self.chunks.len() {
            let c = std::mem::replace(&mut self.chunks[self.pos], DataChunk::empty());
            self.pos += 1;
            Ok(Some(c))
        } else {
            Ok(None)
        }
    }
    fn reset(&mut self) {
        self.pos = 0;
    }
    fn name(&self) -> &'static str {
        "HarnessChunks"
    }
}

fn pull_cmp(c: Cmp) -> BinaryFilterOp {
    match c {
        Cmp::Eq => BinaryFilterOp::Eq,
        Cmp::Ne => BinaryFilterOp::Ne,
        Cmp::Lt => BinaryFilterOp::Lt,
        Cmp::Le => BinaryFilterOp::Le,
        Cmp::Gt => BinaryFilterOp::Gt,
        Cmp::Ge => BinaryFilterOp::Ge,
    }
}

fn pull_agg(f: AggFn, c: Option<usize>) -> pull::AggregateExpr {
    match (f, c) {
        (AggFn::CountStar, _) | (_, None) => pull::AggregateExpr::count_star(),
        (AggFn::Count, Some(c)) => pull::AggregateExpr::count(c),
        (AggFn::Sum, Some(c)) => pull::AggregateExpr::sum(c),
        (AggFn::Min, Some(c)) => pull::AggregateExpr::min(c),
        (AggFn::Max, Some(c)) => pull::AggregateExpr::max(c),
        (AggFn::Avg, Some(c)) => pull::AggregateExpr::avg(c),
    }
}

/// Builds the pull operator chain of a plan over the chunked table. `wrap(i, op)` is applied to the source
/// (i = 0) and to the operator built for `plan.ops[i - 1]` (i >= 1); the identity gives the plain chain.
pub fn build_pull(rows: &[Row], plan: &Plan, cfg: &Cfg, wrap: &dyn Fn(usize, Box<dyn pull::Operator>) -> Box<dyn pull::Operator>) -> Box<dyn pull::Operator> {
    let store = Arc::new(LpgStore::new());
    let mut op: Box<dyn pull::Operator> = wrap(0, Box::new(ChunksOp { chunks: make_chunks(rows, &plan.kinds[0], cfg), pos: 0 }));
    for (i, o) in plan.ops.iter().enumerate() {
        let in_types = types_of(&plan.kinds[i], cfg.typed);
        let out_types = types_of(&plan.kinds[i + 1], cfg.typed);
        let built: Box<dyn pull::Operator> = match o {
            Op::Filter { col, cmp, lit } => {
                let expr = FilterExpression::Binary {
                    left: Box::new(FilterExpression::Variable("x".into())),
                    op: pull_cmp(*cmp),
                    right: Box::new(FilterExpression::Literal(lit.to_value())),
                };
                let mut vars = HashMap::new();
                vars.insert("x".to_string(), *col);
                Box::new(FilterOperator::new(op, Box::new(ExpressionPredicate::new(expr, vars, Arc::clone(&store)))))
            }
            Op::Project { cols } => Box::new(ProjectOperator::new(op, cols.iter().map(|c| ProjectExpr::Column(*c)).collect(), out_types)),
            Op::DistinctAll => Box::new(DistinctOperator::new(op, in_types)),
            Op::DistinctOn { cols } => Box::new(DistinctOperator::on_columns(op, cols.clone(), in_types)),
            Op::Sort { keys } => {
                let ks = keys
                    .iter()
                    .map(|k| {
                        let base = if k.desc { pull::SortKey::descending(k.col) } else { pull::SortKey::ascending(k.col) };
                        base.with_null_order(if k.nulls_first { pull::NullOrder::NullsFirst } else { pull::NullOrder::NullsLast })
                    })
                    .collect();
                Box::new(SortOperator::new(op, ks, in_types))
            }
            Op::Agg { group, aggs } => {
                let ae: Vec<pull::AggregateExpr> = aggs.iter().map(|(f, c)| pull_agg(*f, *c)).collect();
                // aggregate outputs: counts Int64, sums Int64 or Float64, avg Float64 → use Any unless min/max/count
                let ot: Vec<LogicalType> = plan.kinds[i + 1]
                    .iter()
                    .map(|k| if cfg.typed { kind_type(*k) } else { LogicalType::Any })
                    .collect();
                if group.is_empty() && cfg.variant & 2 == 0 {
                    Box::new(SimpleAggregateOperator::new(op, ae, ot))
                } else {
                    Box::new(HashAggregateOperator::new(op, group.clone(), ae, ot))
                }
            }
            Op::Limit { skip, limit } => {
                if cfg.variant & 4 != 0 {
                    let s: Box<dyn pull::Operator> = if *skip > 0 { Box::new(SkipOperator::new(op, *skip, in_types.clone())) } else { op };
                    Box::new(LimitOperator::new(s, *limit, in_types))
                } else {
                    Box::new(LimitSkipOperator::new(op, *skip, *limit, in_types))
                }
            }
        };
        op = wrap(i + 1, built);
    }
    op
}

pub fn run_pull(rows: &[Row], plan: &Plan, cfg: &Cfg) -> Result<Vec<Row>, Failure> {
    guard("pull chain", || -> Result<Vec<Row>, OpErr> {
        let mut op = build_pull(rows, plan, cfg, &|_, op| op);
        let mut out = Vec::new();
        let mut polls = 0usize;
        while let Some(chunk) = op.next()? {
            chunk_rows(&chunk, &mut out);
            polls += 1;
            if polls > rows.len() + 64 {
                return Err(OpErr::Execution("harness: pull chain produced more chunks than input rows + 64".into()));
            }
        }
        Ok(out)
    })?
    .or_else(|e| fail("c17/pull/error", format!("pull chain returned an error: {e}")))
}

// ------------------------------------------------------------------------------------------------
// Push
// ------------------------------------------------------------------------------------------------

#[derive(Clone)]
pub struct SharedSink(pub Arc<parking_lot::Mutex<Vec<DataChunk>>>);

impl Sink for SharedSink {
    fn consume(&mut self, chunk: DataChunk) -> Result<bool, OpErr> {
        self.0.lock().push(chunk);
        Ok(true)
    }
    fn finalize(&mut self) -> Result<(), OpErr> {
        Ok(())
    }
    fn name(&self) -> &'static str {
        "HarnessSink"
    }
}

/// Turns a non-terminating source loop into an error instead of a hung check.
pub struct Bounded {
    pub inner: Box<dyn Source>,
    pub calls: usize,
    pub max: usize,
}

impl Source for Bounded {
    fn next_chunk(&mut self, chunk_size: usize) -> Result<Option<DataChunk>, OpErr> {
        self.calls += 1;
        if self.calls > self.max {
            return Err(OpErr::Execution(format!("harness: source polled more than {} times (chunk_size {chunk_size}): pipeline does not terminate", self.max)));
        }
        self.inner.next_chunk(chunk_size)
    }
    fn reset(&mut self) {
        self.inner.reset();
    }
    fn name(&self) -> &'static str {
        "HarnessBounded"
    }
}

fn push_cmp(c: Cmp) -> push::CompareOp {
    match c {
        Cmp::Eq => push::CompareOp::Eq,
        Cmp::Ne => push::CompareOp::Ne,
        Cmp::Lt => push::CompareOp::Lt,
        Cmp::Le => push::CompareOp::Le,
        Cmp::Gt => push::CompareOp::Gt,
        Cmp::Ge => push::CompareOp::Ge,
    }
}

fn push_agg(f: AggFn, c: Option<usize>) -> push::AggregateExpr {
    match (f, c) {
        (AggFn::CountStar, _) | (_, None) => push::AggregateExpr::count_star(),
        (AggFn::Count, Some(c)) => push::AggregateExpr::count(c),
        (AggFn::Sum, Some(c)) => push::AggregateExpr::sum(c),
        (AggFn::Min, Some(c)) => push::AggregateExpr::min(c),
        (AggFn::Max, Some(c)) => push::AggregateExpr::max(c),
        (AggFn::Avg, Some(c)) => push::AggregateExpr::avg(c),
    }
}

fn push_sort_keys(keys: &[SortKeySpec]) -> Vec<push::SortKey> {
    keys.iter()
        .map(|k| push::SortKey {
            column: k.col,
            direction: if k.desc { push::SortDirection::Descending } else { push::SortDirection::Ascending },
            null_order: if k.nulls_first { push::NullOrder::First } else { push::NullOrder::Last },
        })
        .collect()
}

/// One push operator for one logical op. `spill`: manager + threshold for the spillable variants.
pub fn push_op(o: &Op, cfg: &Cfg, spill: Option<&Arc<SpillManager>>) -> Vec<Box<dyn PushOperator>> {
    match o {
        Op::Filter { col, cmp, lit } => vec![Box::new(FilterPushOperator::column_compare(*col, push_cmp(*cmp), lit.to_value()))],
        Op::Project { cols } => {
            if cfg.variant & 1 != 0 {
                vec![Box::new(ProjectPushOperator::select_columns(cols))]
            } else {
                let ex: Vec<Box<dyn ProjectExpression>> = cols.iter().map(|c| Box::new(ColumnExpr::new(*c)) as Box<dyn ProjectExpression>).collect();
                vec![Box::new(ProjectPushOperator::new(ex))]
            }
        }
        Op::DistinctAll => {
            if cfg.variant & 1 != 0 { vec![Box::new(DistinctMaterializingOperator::new())] } else { vec![Box::new(DistinctPushOperator::new())] }
        }
        Op::DistinctOn { cols } => {
            if cfg.variant & 1 != 0 {
                vec![Box::new(DistinctMaterializingOperator::on_columns(cols.clone()))]
            } else {
                vec![Box::new(DistinctPushOperator::on_columns(cols.clone()))]
            }
        }
        Op::Sort { keys } => match spill {
            Some(m) => vec![Box::new(SpillableSortPushOperator::with_spilling(push_sort_keys(keys), Arc::clone(m), cfg.spill_threshold as usize))],
            None => vec![Box::new(SortPushOperator::new(push_sort_keys(keys)))],
        },
        Op::Agg { group, aggs } => {
            let ae: Vec<push::AggregateExpr> = aggs.iter().map(|(f, c)| push_agg(*f, *c)).collect();
            match spill {
                Some(m) => vec![Box::new(SpillableAggregatePushOperator::with_spilling(group.clone(), ae, Arc::clone(m), cfg.spill_threshold as usize))],
                None => vec![Box::new(AggregatePushOperator::new(group.clone(), ae))],
            }
        }
        Op::Limit { skip, limit } => {
            if cfg.variant & 4 != 0 {
                let mut v: Vec<Box<dyn PushOperator>> = Vec::new();
                if *skip > 0 {
                    v.push(Box::new(SkipPushOperator::new(*skip)));
                }
                v.push(Box::new(LimitPushOperator::new(*limit)));
                v
            } else if *skip == 0 {
                vec![Box::new(LimitPushOperator::new(*limit))]
            } else {
                vec![Box::new(SkipLimitPushOperator::new(*skip, *limit))]
            }
        }
    }
}

fn columns_of(rows: &[Row], width: usize) -> Vec<Vec<Value>> {
    (0..width).map(|c| rows.iter().map(|r| r[c].to_value()).collect()).collect()
}

fn dir_entries(p: &std::path::Path) -> Vec<String> {
    let mut v: Vec<String> = match std::fs::read_dir(p) {
        Ok(rd) => rd.filter_map(|e| e.ok().map(|e| e.file_name().to_string_lossy().to_string())).collect(),
        Err(_) => Vec::new(),
    };
    v.sort();
    v
}

/// Push `Pipeline`. With `spill = true` the sort / aggregate operators are the spillable variants
/// writing under a scratch directory; afterwards the documented cleanup contract is asserted:
/// `SpillManager` removes every spill file on `cleanup()` and on drop.
/// Returns (rows, number of spill files that existed right after execution).
pub fn run_push(rows: &[Row], plan: &Plan, cfg: &Cfg, spill: bool) -> Result<(Vec<Row>, usize), Failure> {
    // The spillable sort keeps every run file open until the merge is done and starts a run whenever more
    // than `threshold` rows are buffered: a threshold of 0 on a 20 000-row table means 20 000 open files in one
    // case (16 cases run at once). The budget is therefore bounded below so that a case has at most ~200 runs
    // per operator: "every push spills" on small tables, a few hundred runs on the large ones.
    let clamped;
    let cfg = if spill && (cfg.spill_threshold as usize) < rows.len() / 200 {
        clamped = Cfg { spill_threshold: (rows.len() / 200) as u32, ..cfg.clone() };
        &clamped
    } else {
        cfg
    };
    let scratch = if spill { Some(scratch_dir()) } else { None };
    let spill_dir = scratch.as_ref().map(|s| s.path().join("spill"));
    let res = guard("push pipeline", || -> Result<(Vec<Row>, usize, Vec<String>), OpErr> {
        let manager = match &spill_dir {
            Some(d) => Some(Arc::new(SpillManager::new(d.clone()).map_err(|e| OpErr::Execution(format!("SpillManager::new: {e}")))?)),
            None => None,
        };
        let width = plan.kinds[0].len();
        let source: Box<dyn Source> = if cfg.vec_source {
            Box::new(VectorSource::new(columns_of(rows, width)))
        } else {
            Box::new(ChunkSource::new(make_chunks(rows, &plan.kinds[0], cfg)))
        };
        let max_polls = split_sizes(rows.len(), &cfg.split).len() + rows.len() + 64;
        let source = Box::new(Bounded { inner: source, calls: 0, max: max_polls });
        let mut ops: Vec<Box<dyn PushOperator>> = Vec::new();
        for o in &plan.ops {
            ops.extend(push_op(o, cfg, manager.as_ref()));
        }
        let out = Arc::new(parking_lot::Mutex::new(Vec::new()));
        let mut p = Pipeline::new(source, ops, Box::new(SharedSink(Arc::clone(&out))));
        p.execute()?;
        let files_during = spill_dir.as_ref().map_or(0, |d| dir_entries(d).len());
        drop(p);
        let mut left = Vec::new();
        if let Some(m) = manager {
            if cfg.explicit_cleanup {
                m.cleanup().map_err(|e| OpErr::Execution(format!("SpillManager::cleanup: {e}")))?;
                left = dir_entries(spill_dir.as_ref().unwrap());
                drop(m);
            } else {
                match Arc::try_unwrap(m) {
                    Ok(m) => drop(m),
                    Err(_) => return Err(OpErr::Execution("harness: SpillManager still shared after the pipeline was dropped".into())),
                }
                left = dir_entries(spill_dir.as_ref().unwrap());
            }
        }
        let chunks = std::mem::take(&mut *out.lock());
        Ok((chunks_rows(&chunks), files_during, left))
    })?;
    match res {
        // EMFILE / ENFILE: the process ran into the machine's descriptor limit
        Err(e) if spill && (e.to_string().contains("os error 24") || e.to_string().contains("os error 23")) => fail("infra/fd-limit", format!("push pipeline with spilling: {e}")),
        Err(e) => fail(if spill { "c17/spill/error" } else { "c17/push/error" }, format!("push pipeline returned an error: {e}")),
        Ok((rows, files, left)) => {
            if !left.is_empty() {
                return fail(
                    "c17/spill/files-left",
                    format!("{} spill file(s) still in the spill directory after {}: {:?}", left.len(), if cfg.explicit_cleanup { "SpillManager::cleanup()" } else { "dropping the SpillManager" }, &left[..left.len().min(5)]),
                );
            }
            Ok((rows, files))
        }
    }
}

// ------------------------------------------------------------------------------------------------
// Parallel
// ------------------------------------------------------------------------------------------------

pub fn par_chunk_size(cfg: &Cfg, n: usize) -> usize {
    (cfg.par_chunk as usize).max(1).max(n.div_ceil(MAX_CHUNKS / 2))
}

pub fn pressure(p: u8) -> PressureLevel {
    match p % 4 {
        0 => PressureLevel::Normal,
        1 => PressureLevel::Moderate,
        2 => PressureLevel::High,
        _ => PressureLevel::Critical,
    }
}

pub fn morsel_size(p: u8) -> usize {
    parallel::compute_morsel_size(pressure(p))
}

/// How a plan maps onto ParallelPipeline + the library's merge step; None = not expressible.
#[derive(Clone, Debug, PartialEq)]
pub enum ParShape {
    /// stateless chain (filter / project): concatenation of worker outputs
    Stateless,
    /// chain ending in DISTINCT (all columns): `merge_distinct_results`
    Distinct,
    /// chain ending in SORT: each worker emits one sorted run → `merge_sorted_chunks`
    Sort(Vec<SortKeySpec>),
    /// chain ending in an aggregate without AVG: per-worker partial rows re-aggregated (count→Σ, sum→Σ, min, max)
    Agg { ngroup: usize, aggs: Vec<AggFn> },
    /// chain ending in LIMIT (skip 0) without a sort: per-worker limit, then truncation
    Limit(usize),
}

pub fn par_shape(plan: &Plan) -> Option<ParShape> {
    let n = plan.ops.len();
    let stateless = |ops: &[Op]| ops.iter().all(|o| matches!(o, Op::Filter { .. } | Op::Project { .. }));
    if stateless(&plan.ops) {
        return Some(ParShape::Stateless);
    }
    if n == 0 || !stateless(&plan.ops[..n - 1]) {
        return None;
    }
    match &plan.ops[n - 1] {
        Op::DistinctAll => Some(ParShape::Distinct),
        Op::Sort { keys } => Some(ParShape::Sort(keys.clone())),
        Op::Agg { group, aggs } if aggs.iter().all(|(f, _)| *f != AggFn::Avg) => Some(ParShape::Agg { ngroup: group.len(), aggs: aggs.iter().map(|a| a.0).collect() }),
        Op::Limit { skip: 0, limit } => Some(ParShape::Limit(*limit)),
        _ => None,
    }
}

fn par_execute(rows: &[Row], plan: &Plan, cfg: &Cfg) -> Result<Result<parallel::ParallelPipelineResult, OpErr>, Failure> {
    let width = plan.kinds[0].len();
    let source: Arc<dyn ParallelSource> = if cfg.vec_source {
        Arc::new(ParallelVectorSource::new(columns_of(rows, width)))
    } else {
        Arc::new(ParallelChunkSource::new(make_chunks(rows, &plan.kinds[0], cfg)))
    };
    let mut factory = CloneableOperatorFactory::new();
    for o in &plan.ops {
        // one closure per physical operator
        let count = push_op(o, cfg, None).len();
        for idx in 0..count {
            let o = o.clone();
            let cfg = cfg.clone();
            factory = factory.with_operator(move || push_op(&o, &cfg, None).remove(idx));
        }
    }
    if plan.ops.iter().any(|o| matches!(o, Op::Sort { .. } | Op::Agg { .. } | Op::DistinctAll)) {
        factory = factory.with_pipeline_breakers();
    }
    let mut config = ParallelPipelineConfig::default().with_workers(cfg.workers.max(1) as usize).with_pressure(pressure(cfg.pressure));
    config.chunk_size = par_chunk_size(cfg, rows.len());
    let p = ParallelPipeline::new(source, Arc::new(factory), config);
    guard("parallel pipeline", || p.execute())
}

/// Runs the plan on a ParallelPipeline and applies the merge step for its shape.
/// Returns (rows, morsels processed).
pub fn run_parallel(rows: &[Row], plan: &Plan, cfg: &Cfg, shape: &ParShape) -> Result<(Vec<Row>, usize), Failure> {
    let res = match par_execute(rows, plan, cfg)? {
        Ok(r) => r,
        Err(e) => return fail("c17/parallel/error", format!("ParallelPipeline::execute returned an error: {e}")),
    };
    let morsels = res.morsels_processed;
    let expected_morsels = if rows.is_empty() { 0 } else { rows.len().div_ceil(morsel_size(cfg.pressure)) };
    if morsels != expected_morsels {
        return fail("c17/parallel/morsel-count", format!("{} morsels processed, expected {expected_morsels} for {} rows", morsels, rows.len()));
    }
    if res.rows_processed != rows.len() {
        return fail("c17/parallel/rows-processed", format!("rows_processed = {}, input has {} rows", res.rows_processed, rows.len()));
    }
    let out = match shape {
        ParShape::Stateless => chunks_rows(&res.chunks),
        ParShape::Limit(l) => {
            let mut r = chunks_rows(&res.chunks);
            // every worker applied the limit to its own share: a valid global LIMIT needs >= min(n, l) rows here
            r.truncate(*l);
            r
        }
        ParShape::Distinct => {
            let merged = guard("merge_distinct_results", || parallel::merge_distinct_results(vec![res.chunks]))?;
            match merged {
                Ok(c) => chunks_rows(&c),
                Err(e) => return fail("c17/parallel/error", format!("merge_distinct_results: {e}")),
            }
        }
        ParShape::Sort(keys) => {
            // SortPushOperator::finalize emits exactly one chunk per worker: each chunk is one sorted run
            let runs: Vec<Vec<DataChunk>> = res.chunks.into_iter().map(|c| vec![c]).collect();
            let mk: Vec<parallel::SortKey> = keys.iter().map(|k| parallel::SortKey { column: k.col, ascending: !k.desc, nulls_first: k.nulls_first }).collect();
            let merged = guard("merge_sorted_chunks", || parallel::merge_sorted_chunks(runs, &mk, par_chunk_size(cfg, rows.len())))?;
            match merged {
                Ok(c) => chunks_rows(&c),
                Err(e) => return fail("c17/parallel/error", format!("merge_sorted_chunks: {e}")),
            }
        }
        ParShape::Agg { ngroup, aggs } => merge_partial_aggs(&chunks_rows(&res.chunks), *ngroup, aggs),
    };
    Ok((out, morsels))
}

/// Re-aggregation of per-worker partial aggregate rows (the only merge a caller can do with the
/// chunks a ParallelPipeline returns): counts and sums add up, min/max by same-type comparison.
pub fn merge_partial_aggs(partials: &[Row], ngroup: usize, aggs: &[AggFn]) -> Vec<Row> {
    let mut m: BTreeMap<Vec<K>, Row> = BTreeMap::new();
    for r in partials {
        if r.len() != ngroup + aggs.len() {
            return vec![vec![V::S(format!("<partial row of width {}>", r.len()))]];
        }
        let k = row_key(&r[..ngroup]);
        match m.get_mut(&k) {
            None => {
                m.insert(k, r.clone());
            }
            Some(acc) => {
                for (i, f) in aggs.iter().enumerate() {
                    let c = ngroup + i;
                    let (a, b) = (acc[c].clone(), r[c].clone());
                    acc[c] = match f {
                        AggFn::CountStar | AggFn::Count | AggFn::Sum => match (a.as_f64(), b.as_f64()) {
                            (Some(x), Some(y)) => {
                                if let (V::I(x), V::I(y)) = (&a, &b) { V::I(x + y) } else { V::F(x + y) }
                            }
                            (Some(_), None) => a,
                            (None, Some(_)) => b,
                            (None, None) => a,
                        },
                        AggFn::Min => match cmp_same(&b, &a) {
                            Some(std::cmp::Ordering::Less) => b,
                            _ => if a.is_null() { b } else { a },
                        },
                        AggFn::Max => match cmp_same(&b, &a) {
                            Some(std::cmp::Ordering::Greater) => b,
                            _ => if a.is_null() { b } else { a },
                        },
                        AggFn::Avg => V::S("<avg cannot be merged>".into()),
                    };
                }
            }
        }
    }
    m.into_values().collect()
}
