//! C17 `adaptive`: an operator chain executed through `execution/adaptive.rs` (cardinality tracking,
//! deviation checks, the "re-optimisation" trigger) returns the rows of the plain execution.
//!
//! The adaptive layer never changes a plan in this tree: it counts rows at checkpoints and raises a flag
//! when a count deviates from its estimate. The property it has to meet is therefore transparency — the
//! same multiset (same key sequence after a sort) as the naive reference of `model.rs`, for every
//! threshold / interval / minimum-row / estimate configuration, whether or not the flag is raised
//! mid-stream — plus what the module documents about its own bookkeeping: the wrappers "count the rows
//! flowing through" them, and `should_reoptimize` is true only on a significant deviation on enough rows.
//!
//! Modes (one per generated configuration):
//! * 0 `execute_adaptive(op, ctx, cfg)` · 1 `AdaptivePipelineExecutor::{new, with_config}.execute_collecting()`
//! * 2 `AdaptivePipelineExecutor::execute()` (`CardinalityTrackingSink` over a `CollectorSink`)
//! * 3 pull chain with a `CardinalityTrackingWrapper` around every operator, run by `execute_adaptive`
//! * 4 push `Pipeline` of `CardinalityTrackingOperator`-wrapped operators into a `CardinalityTrackingSink`
//! * 5 `grafeo_engine::query::Executor::execute_adaptive` (the engine's use of the wrapper)

use std::sync::Arc;

use proptest::prelude::*;
use serde::{Deserialize, Serialize};

use grafeo_core::execution::operators as pull;
use grafeo_core::execution::{
    AdaptiveContext, AdaptivePipelineConfig, AdaptivePipelineExecutor, AdaptiveSummary, CardinalityTrackingOperator, CardinalityTrackingSink,
    CardinalityTrackingWrapper, ChunkSource, DataChunk, Pipeline, PushOperator, SharedAdaptiveContext, Source, VectorSource, execute_adaptive,
};

use super::exec::*;
use super::model::*;
use super::{Case, Mode, Prepared, case_strategy, classify, from_values, prepare};
use crate::driver::{CaseResult, Failure, fail, guard, hash_dbg, ok};

#[derive(Clone, Debug, Serialize, Deserialize)]
pub struct ACfg {
    pub mode: u8,
    pub check_interval: u32,
    /// deviation threshold × 100
    pub threshold_x100: u32,
    pub min_rows: u32,
    pub max_reopt: u8,
    /// no context and no configuration (`None`, `None` / `::new`) where the entry point allows it
    pub defaults: bool,
    /// (checkpoint selector, estimate in per-mille of the true count at that checkpoint)
    pub estimates: Vec<(u8, u32)>,
}

#[derive(Clone, Debug, Serialize, Deserialize)]
pub struct AdaptiveCase {
    pub base: Case,
    pub acfgs: Vec<ACfg>,
}

fn acfg_strategy() -> impl Strategy<Value = ACfg> {
    (
        0u8..6,
        prop_oneof![1 => Just(0u32), 3 => Just(1u32), 2 => 2u32..50, 2 => prop_oneof![Just(1024u32), Just(2048), Just(10_000)], 2 => 1u32..5000],
        prop_oneof![1 => Just(100u32), 3 => 101u32..300, 2 => Just(300u32), 2 => 300u32..1000, 1 => 10u32..100, 1 => Just(1_000_000u32)],
        prop_oneof![3 => Just(0u32), 2 => Just(1u32), 3 => 2u32..100, 1 => Just(1000u32), 2 => 100u32..5000, 1 => Just(u32::MAX)],
        0u8..4,
        prop::bool::weighted(0.1),
        proptest::collection::vec(
            (
                any::<u8>(),
                prop_oneof![
                    2 => Just(0u32),
                    2 => prop_oneof![Just(1u32), Just(100), Just(300), Just(333), Just(334), Just(500)],
                    2 => Just(1000u32),
                    2 => prop_oneof![Just(2000u32), Just(2999), Just(3000), Just(3001), Just(10_000), Just(1_000_000)],
                    2 => 0u32..5000,
                ],
            ),
            0..4,
        ),
    )
        .prop_map(|(mode, check_interval, threshold_x100, min_rows, max_reopt, defaults, estimates)| ACfg { mode, check_interval, threshold_x100, min_rows, max_reopt, defaults, estimates })
}

pub fn adaptive_case_strategy(thorough: bool) -> impl Strategy<Value = AdaptiveCase> {
    (case_strategy(thorough, true, 0, 1), proptest::collection::vec(acfg_strategy(), 3..=3)).prop_map(|(base, acfgs)| AdaptiveCase { base, acfgs })
}

/// Rows entering `ops[i]` (index i) and leaving the last operator (index `ops.len()`), by the naive reference.
fn ref_counts(rows: &[Row], plan: &Plan) -> Vec<usize> {
    let mut cur: Vec<Row> = rows.to_vec();
    let mut counts = vec![cur.len()];
    for op in &plan.ops {
        match op {
            Op::Filter { col, cmp, lit } => cur.retain(|r| filter_pass(&r[*col], *cmp, lit)),
            Op::Project { cols } => cur = cur.iter().map(|r| cols.iter().map(|c| r[*c].clone()).collect()).collect(),
            Op::DistinctAll => cur = ref_distinct_all(&cur),
            Op::Sort { .. } => {}
            Op::DistinctOn { cols } => {
                let mut seen = std::collections::BTreeSet::new();
                cur.retain(|r| seen.insert(cols.iter().map(|c| r[*c].key()).collect::<Vec<K>>()));
            }
            Op::Agg { group, aggs } => cur = ref_group_agg(&cur, group, aggs, false),
            Op::Limit { skip, limit } => cur = cur.into_iter().skip(*skip).take(*limit).collect(),
        }
        counts.push(cur.len());
    }
    counts
}

/// The module's documented deviation rule, written out independently: ratio = actual / estimate
/// (estimate <= 0: 1 if actual = 0, infinite otherwise); significant iff ratio > t or ratio < 1/t.
fn significant(actual: u64, estimate: f64, threshold: f64) -> bool {
    let ratio = if estimate <= 0.0 {
        if actual == 0 { 1.0 } else { f64::INFINITY }
    } else {
        actual as f64 / estimate
    };
    ratio > threshold || ratio < 1.0 / threshold
}

struct Outcome {
    rows: Vec<Row>,
    /// sizes of the returned chunks, in order (modes 0-3)
    chunk_sizes: Vec<usize>,
    summary: Option<AdaptiveSummary>,
    ctx: Option<AdaptiveContext>,
    /// mode 4: `should_reoptimize()` asked once after the run, when every count is final
    asked_after: Option<bool>,
}

fn checkpoint_id(sel: u8, nops: usize) -> String {
    match sel as usize % (nops + 3) {
        0 => "root".into(),
        1 => "output".into(),
        2 => "nowhere".into(),
        k => format!("op{}", k - 3),
    }
}

/// True count the estimate of a checkpoint is scaled from.
fn true_count(id: &str, counts: &[usize], push: bool) -> usize {
    let out = *counts.last().unwrap();
    if let Some(i) = id.strip_prefix("op").and_then(|s| s.parse::<usize>().ok()) {
        // pull wrapper: rows leaving ops[i]; push tracking operator: rows entering ops[i]
        return counts[if push { i } else { i + 1 }];
    }
    out
}

fn build_context(ac: &ACfg, counts: &[usize], nops: usize) -> (AdaptiveContext, Vec<(String, f64)>) {
    let threshold = f64::from(ac.threshold_x100) / 100.0;
    let mut ctx = AdaptiveContext::with_thresholds(threshold, u64::from(ac.min_rows));
    let mut est: Vec<(String, f64)> = Vec::new();
    for (sel, permille) in &ac.estimates {
        let id = checkpoint_id(*sel, nops);
        let e = true_count(&id, counts, ac.mode == 4) as f64 * f64::from(*permille) / 1000.0;
        ctx.set_estimate(&id, e);
        est.retain(|(i, _)| *i != id); // a later estimate for the same id replaces the earlier one
        est.push((id, e));
    }
    (ctx, est)
}

fn run_adaptive(p: &Prepared, cfg: &Cfg, ac: &ACfg, counts: &[usize]) -> Result<Outcome, Failure> {
    let nops = p.plan.ops.len();
    let threshold = f64::from(ac.threshold_x100) / 100.0;
    let (ctx, _) = build_context(ac, counts, nops);
    let pcfg = AdaptivePipelineConfig::new(u64::from(ac.check_interval), threshold, u64::from(ac.min_rows)).with_max_reoptimizations(usize::from(ac.max_reopt));
    let collect = |chunks: &[DataChunk]| -> (Vec<Row>, Vec<usize>) { (chunks_rows(chunks), chunks.iter().map(DataChunk::row_count).collect()) };
    let err = |e: pull::OperatorError| -> Failure { Failure { signature: "c17/adaptive/error".into(), what: format!("mode {}: adaptive execution returned an error: {e}", ac.mode) } };
    match ac.mode {
        0 => {
            let op = build_pull(&p.rows, &p.plan, cfg, &|_, op| op);
            let (chunks, summary) = guard("execute_adaptive", || if ac.defaults { execute_adaptive(op, None, None) } else { execute_adaptive(op, Some(ctx), Some(pcfg)) })?.map_err(err)?;
            let (rows, chunk_sizes) = collect(&chunks);
            Ok(Outcome { rows, chunk_sizes, summary, ctx: None, asked_after: None })
        }
        1 | 2 => {
            let op = build_pull(&p.rows, &p.plan, cfg, &|_, op| op);
            let ex = if ac.defaults { AdaptivePipelineExecutor::new(op, ctx) } else { AdaptivePipelineExecutor::with_config(op, ctx, pcfg) };
            let shared = ex.context().clone();
            let (chunks, summary) = guard("AdaptivePipelineExecutor", || if ac.mode == 1 { ex.execute_collecting() } else { ex.execute() })?.map_err(err)?;
            let (rows, chunk_sizes) = collect(&chunks);
            Ok(Outcome { rows, chunk_sizes, summary: Some(summary), ctx: shared.snapshot(), asked_after: None })
        }
        3 => {
            // every operator of the chain reports to one shared context; the root is run by the adaptive
            // executor, which reports "root" to its own context
            let shared = SharedAdaptiveContext::from_context(ctx);
            let sh = shared.clone();
            let op = build_pull(&p.rows, &p.plan, cfg, &move |i, op| {
                if i == 0 { op } else { Box::new(CardinalityTrackingWrapper::new(op, &format!("op{}", i - 1), sh.clone())) }
            });
            let (root_ctx, _) = build_context(ac, counts, nops);
            let (chunks, summary) = guard("execute_adaptive over tracked chain", || execute_adaptive(op, Some(root_ctx), Some(pcfg)))?.map_err(err)?;
            let (rows, chunk_sizes) = collect(&chunks);
            // the chain (and with it every wrapper) has been dropped by now: all counts are reported
            Ok(Outcome { rows, chunk_sizes, summary, ctx: shared.snapshot(), asked_after: None })
        }
        4 => {
            let shared = SharedAdaptiveContext::from_context(ctx);
            let out = Arc::new(parking_lot::Mutex::new(Vec::new()));
            let res = guard("tracked push pipeline", || -> Result<(), pull::OperatorError> {
                let width = p.plan.kinds[0].len();
                let source: Box<dyn Source> = if cfg.vec_source {
                    let cols = (0..width).map(|c| p.rows.iter().map(|r| r[c].to_value()).collect()).collect();
                    Box::new(VectorSource::new(cols))
                } else {
                    Box::new(ChunkSource::new(make_chunks(&p.rows, &p.plan.kinds[0], cfg)))
                };
                let max = split_sizes(p.rows.len(), &cfg.split).len() + p.rows.len() + 64;
                let source = Box::new(Bounded { inner: source, calls: 0, max });
                let mut ops: Vec<Box<dyn PushOperator>> = Vec::new();
                for (i, o) in p.plan.ops.iter().enumerate() {
                    for (j, phys) in push_op(o, cfg, None).into_iter().enumerate() {
                        let id = if j == 0 { format!("op{i}") } else { format!("op{i}b") };
                        ops.push(Box::new(CardinalityTrackingOperator::new(phys, &id, shared.clone())));
                    }
                }
                let sink = CardinalityTrackingSink::new(Box::new(SharedSink(Arc::clone(&out))), "output", shared.clone());
                let mut pl = Pipeline::new(source, ops, Box::new(sink));
                pl.execute()
            })?;
            res.map_err(err)?;
            let chunks = std::mem::take(&mut *out.lock());
            let (rows, chunk_sizes) = collect(&chunks);
            let asked = shared.should_reoptimize();
            let snap = shared.snapshot();
            Ok(Outcome { rows, chunk_sizes, summary: snap.as_ref().map(AdaptiveContext::summary), ctx: snap, asked_after: Some(asked) })
        }
        _ => {
            use grafeo_engine::config::AdaptiveConfig;
            use grafeo_engine::query::Executor;
            let op = build_pull(&p.rows, &p.plan, cfg, &|_, op| op);
            let width = p.plan.kinds[nops].len();
            let acfg = AdaptiveConfig { enabled: !ac.defaults, threshold, min_rows: u64::from(ac.min_rows), max_reoptimizations: usize::from(ac.max_reopt) };
            let ex = Executor::with_columns((0..width).map(|i| format!("c{i}")).collect());
            let r = guard("Executor::execute_adaptive", || ex.execute_adaptive(op, Some(ctx), &acfg))?;
            match r {
                Ok((qr, summary)) => Ok(Outcome { rows: from_values(&qr.rows), chunk_sizes: Vec::new(), summary, ctx: None, asked_after: None }),
                Err(e) => fail("c17/adaptive/error", format!("mode 5: Executor::execute_adaptive returned an error: {e}")),
            }
        }
    }
}

pub fn adaptive_check(case: &AdaptiveCase) -> CaseResult {
    let p = prepare(&case.base);
    let cfg = &case.base.cfgs[0];
    let counts = ref_counts(&p.rows, &p.plan);
    let nops = p.plan.ops.len();
    let out_count = *counts.last().unwrap();
    let limit_at = p.plan.ops.iter().position(|o| matches!(o, Op::Limit { .. }));
    let mut triggered_any = false;
    let mut steady_any = false;
    for (ai, ac) in case.acfgs.iter().enumerate() {
        let o = run_adaptive(&p, cfg, ac, &counts)?;
        let ctxt = |what: String| format!("acfg#{ai} {ac:?}\nchunking {cfg:?}\nplan {:?}\n{what}", p.plan.ops);
        // 1. rows: the adaptive run equals the reference (and thereby the plain pull / push run)
        if let Err((sub, what)) = compare(&o.rows, &p.expect) {
            let recorded_output = o.ctx.as_ref().and_then(|c| c.get_checkpoint("output")).filter(|c| c.recorded).map(|c| c.actual);
            let sig = if ac.mode == 2 && o.rows.is_empty() && out_count > 0 && recorded_output == Some(out_count as u64) {
                // every row reached the tracking sink (its count is right) but none is handed back
                "c17/adaptive/execute-returns-no-chunks".to_string()
            } else if ac.mode == 4 {
                classify(Mode::Push, &p, Some(&o.rows), &sub)
            } else {
                format!("c17/adaptive/{sub}")
            };
            return fail(sig, ctxt(what));
        }
        // 2. bookkeeping: counts reported at the checkpoints
        let threshold = if ac.defaults && ac.mode == 0 { 3.0 } else { f64::from(ac.threshold_x100) / 100.0 };
        let min_rows = if ac.defaults && ac.mode == 0 { 1000 } else { u64::from(ac.min_rows) };
        let (_, estimates) = if ac.defaults && ac.mode == 0 { (AdaptiveContext::new(), Vec::new()) } else { build_context(ac, &counts, nops) };
        let est_of = |id: &str| estimates.iter().find(|(i, _)| i == id).map_or(0.0, |(_, e)| *e);
        if let Some(ctx) = &o.ctx {
            let recorded = |id: &str| ctx.get_checkpoint(id).filter(|c| c.recorded).map(|c| c.actual);
            if ac.mode == 2 || ac.mode == 4 {
                if recorded("output") != Some(out_count as u64) {
                    return fail("c17/adaptive/count-output", ctxt(format!("CardinalityTrackingSink reported {:?} rows, {} reached the sink", recorded("output"), out_count)));
                }
            }
            if ac.mode == 3 || ac.mode == 4 {
                for i in 0..nops {
                    let id = format!("op{i}");
                    let truth = true_count(&id, &counts, ac.mode == 4) as u64;
                    // exact unless a LIMIT downstream may stop the stream early
                    let exact = match limit_at {
                        None => true,
                        Some(j) => if ac.mode == 4 { i > j } else { i >= j },
                    };
                    match recorded(&id) {
                        Some(c) if c == truth => {}
                        Some(c) if !exact && c <= truth => {}
                        None if !exact && ac.mode == 3 => {}
                        got => {
                            return fail(
                                format!("c17/adaptive/count-op/{}", if ac.mode == 4 { "push" } else { "pull" }),
                                ctxt(format!("checkpoint {id}: reported {got:?}, reference counts {truth} rows {} operator #{i} (counts per stage {counts:?})", if ac.mode == 4 { "entering" } else { "leaving" })),
                            );
                        }
                    }
                }
            }
        }
        // 3. the trigger: only on a significant deviation on at least min_rows rows
        if let Some(s) = &o.summary {
            if ac.mode != 5 {
                // "root": the running total after each returned chunk (modes 0-3); others: the final count
                let mut candidates: Vec<(String, u64)> = Vec::new();
                if ac.mode <= 3 {
                    let mut t = 0u64;
                    for sz in &o.chunk_sizes {
                        t += *sz as u64;
                        candidates.push(("root".into(), t));
                    }
                }
                if let Some(ctx) = &o.ctx {
                    for (id, cp) in ctx.all_checkpoints() {
                        if cp.recorded && id != "root" {
                            candidates.push((id.clone(), cp.actual));
                        }
                    }
                }
                // mode 3 keeps two contexts (the executor's own for "root", the shared one for the operators);
                // the summary returned is the executor's: only "root" can trigger there
                let justified: Vec<&(String, u64)> = candidates
                    .iter()
                    .filter(|(id, _)| ac.mode != 3 || id == "root")
                    .filter(|(id, v)| *v >= min_rows && significant(*v, est_of(id), threshold))
                    .collect();
                if s.reoptimization_triggered {
                    let by = s.trigger_operator.clone().unwrap_or_default();
                    if !justified.iter().any(|(id, _)| *id == by) {
                        return fail(
                            "c17/adaptive/trigger-unjustified",
                            ctxt(format!("re-optimisation triggered by {by:?} but no count of that checkpoint deviates by more than {threshold} on >= {min_rows} rows; candidates {candidates:?}, estimates {estimates:?}")),
                        );
                    }
                }
                if let Some(asked) = o.asked_after {
                    // every count is final: the answer is fully determined
                    if asked != !justified.is_empty() {
                        return fail("c17/adaptive/trigger-missed", ctxt(format!("should_reoptimize() after the run = {asked}, justified by {justified:?}; candidates {candidates:?}, estimates {estimates:?}")));
                    }
                    triggered_any |= asked;
                    steady_any |= !asked;
                } else {
                    triggered_any |= s.reoptimization_triggered;
                    steady_any |= !s.reoptimization_triggered;
                }
            }
        }
    }
    let chunks = split_sizes(p.rows.len(), &cfg.split).len();
    let class = format!("{}{}", p.label, match (triggered_any, steady_any) { (true, true) => "/reopt+steady", (true, false) => "/reopt", _ => "/steady" });
    ok(chunks >= 2 && p.dup_or_null && out_count > 0, class, hash_dbg(case))
}
