//! C17 — parallel, push-based and spilling execution equal simple sequential execution.
//!
//! Sub-checks
//! * `pull`, `push`, `spill`, `parallel`: one generated (table, operator chain, configurations) case is
//!   evaluated by a naive reference on `Vec<Vec<V>>` and by the pull operator chain / the push
//!   `Pipeline` / the push `Pipeline` with the spillable sort and aggregate operators / a
//!   `ParallelPipeline` followed by the library's merge step; every configuration must equal the reference.
//! * `merge_runs`, `merge_accumulators`, `merge_distinct`: the pure merge functions with an explicitly
//!   generated assignment of rows to workers.
//! * `morsels`: morsel generation covers a source exactly once; partitions of the parallel sources
//!   re-assemble the table; the scheduler hands every morsel to exactly one worker.
//! * `external_sort`: `ExternalSort` with explicit runs / in-memory rest, spill files gone afterwards.
//! * `spill_cleanup`: raw spill files and abandoned (never finalized) spillable operators: the
//!   `SpillManager` removes every file on `cleanup()` and on drop.

pub mod adaptive;
pub mod exec;
pub mod joins;
pub mod model;

use std::collections::BTreeSet;
use std::sync::Arc;

use proptest::prelude::*;
use serde::{Deserialize, Serialize};

use grafeo_common::types::Value;
use grafeo_core::execution::parallel::{
    self, MergeableAccumulator, MorselScheduler, ParallelChunkSource, ParallelSource, ParallelVectorSource, WorkerHandle,
};
use grafeo_core::execution::spill::{self, ExternalSort, SpillManager};

use crate::driver::{CaseResult, Failure, Run, catch, fail, guard, hash_dbg, ok, scratch_dir};
use exec::*;
use model::*;

// ------------------------------------------------------------------------------------------------
// Case
// ------------------------------------------------------------------------------------------------

#[derive(Clone, Debug, Serialize, Deserialize)]
pub struct Case {
    pub n: u32,
    pub cols: Vec<ColSpec>,
    pub chain: RawChain,
    pub cfgs: Vec<Cfg>,
}

/// `big_share`: the parallel sub-check needs > 1024 rows for a second morsel.
fn size_strategy(thorough: bool, big_share: bool) -> BoxedStrategy<u32> {
    let big: BoxedStrategy<u32> = if thorough {
        prop_oneof![2050u32..6000, 6000u32..20_000, prop_oneof![Just(16_383u32), Just(16_384), Just(16_385), Just(20_000)]].boxed()
    } else {
        (2050u32..4200).boxed()
    };
    prop_oneof![
        2 => prop_oneof![Just(0u32), Just(1), Just(2), Just(3)],
        8 => 0u32..48,
        3 => 48u32..700,
        (if big_share { 9 } else { 3 }) => prop_oneof![Just(1023u32), Just(1024), Just(1025), Just(2047), Just(2048), Just(2049), Just(3072), Just(4096), Just(4097)],
        (if big_share { 4 } else { 2 }) => big,
    ]
    .boxed()
}

fn col_strategy(kind: BoxedStrategy<u8>) -> impl Strategy<Value = ColSpec> {
    (
        kind,
        // the last class gives (nearly) unique keys: more than 2048 groups / distinct values on the large tables,
        // so grouped and de-duplicated outputs themselves span several 2048-row chunks
        prop_oneof![3 => 1u16..6, 3 => 6u16..40, 1 => 40u16..2000, 1 => Just(60_000u16)],
        prop_oneof![3 => Just(0u8), 3 => 1u8..40, 1 => Just(100u8), 1 => 40u8..100],
        any::<u32>(),
    )
        .prop_map(|(kind, domain, null_pct, seed)| ColSpec { kind, domain, null_pct, seed })
}

fn cols_strategy(mixed: bool) -> BoxedStrategy<Vec<ColSpec>> {
    let homog = || prop_oneof![4 => Just(KIND_INT), 2 => Just(KIND_FLOAT), 2 => Just(KIND_STR), 1 => Just(KIND_BOOL)].boxed();
    if mixed {
        // first column mixed (it is the column sort/group selectors hit most often), others any
        (col_strategy(Just(KIND_MIXED).boxed()), proptest::collection::vec(col_strategy(prop_oneof![3 => homog(), 1 => Just(KIND_MIXED)].boxed()), 0..3))
            .prop_map(|(c, mut v)| {
                v.insert(0, c);
                v
            })
            .boxed()
    } else {
        proptest::collection::vec(col_strategy(homog()), 1..4).boxed()
    }
}

fn cmp_strategy() -> impl Strategy<Value = Cmp> {
    prop_oneof![Just(Cmp::Eq), Just(Cmp::Ne), Just(Cmp::Lt), Just(Cmp::Le), Just(Cmp::Gt), Just(Cmp::Ge)]
}

fn aggfn_strategy() -> impl Strategy<Value = AggFn> {
    prop_oneof![Just(AggFn::CountStar), Just(AggFn::Count), Just(AggFn::Sum), Just(AggFn::Min), Just(AggFn::Max), Just(AggFn::Avg)]
}

fn chain_strategy() -> impl Strategy<Value = RawChain> {
    let pre = prop_oneof![
        4 => (any::<u8>(), cmp_strategy(), any::<u16>()).prop_map(|(col, cmp, lit)| RawPre::Filter { col, cmp, lit }),
        2 => proptest::collection::vec(0u8..4, 1..4).prop_map(|cols| RawPre::Project { cols }),
        2 => Just(RawPre::DistinctAll),
    ];
    let breaker = prop_oneof![
        3 => Just(None),
        4 => proptest::collection::vec((0u8..3, any::<bool>(), any::<bool>()), 1..4).prop_map(|keys| Some(RawBreaker::Sort { keys })),
        1 => proptest::collection::vec(0u8..3, 1..3).prop_map(|cols| Some(RawBreaker::DistinctOn { cols })),
        4 => (proptest::collection::vec(0u8..3, 0..3), proptest::collection::vec((aggfn_strategy(), 0u8..4), 1..5))
            .prop_map(|(group, aggs)| Some(RawBreaker::Agg { group, aggs })),
    ];
    let lim = prop_oneof![
        4 => Just(None),
        3 => (prop_oneof![3 => Just(0u32), 2 => 0u32..40, 1 => 0u32..3000], prop_oneof![1 => Just(0u32), 3 => 0u32..40, 2 => 0u32..3000, 1 => Just(1_000_000u32)]).prop_map(Some),
    ];
    let post = prop_oneof![2 => Just(None), 1 => proptest::collection::vec(0u8..4, 1..3).prop_map(Some)];
    (proptest::collection::vec(pre, 0..3), breaker, lim, post).prop_map(|(pre, breaker, limit, post_project)| RawChain { pre, breaker, limit, post_project })
}

pub fn split_strategy() -> impl Strategy<Value = Split> {
    prop_oneof![
        2 => prop_oneof![Just(2048u32), Just(1024), Just(2047), Just(2049), Just(100_000)].prop_map(Split::Fixed),
        2 => (1u32..70).prop_map(Split::Fixed),
        1 => (70u32..3000).prop_map(Split::Fixed),
        2 => proptest::collection::vec(prop_oneof![4 => 1u16..20, 2 => 20u16..2100, 1 => Just(0u16)], 1..5).prop_map(Split::Cycle),
    ]
}

fn cfg_strategy() -> impl Strategy<Value = Cfg> {
    (
        split_strategy(),
        any::<bool>(),
        prop::bool::weighted(0.3),
        0u8..8,
        prop_oneof![2 => Just(0u32), 2 => 1u32..4, 3 => 4u32..200, 1 => 200u32..5000, 1 => Just(1_000_000u32)],
        any::<bool>(),
        prop_oneof![1 => Just(1u8), 3 => 2u8..6, 1 => 6u8..17],
        prop_oneof![1 => Just(0u8), 1 => Just(2u8), 4 => Just(3u8)],
        prop_oneof![1 => Just(2048u16), 2 => 1u16..40, 2 => 40u16..3000],
    )
        .prop_map(|(split, typed, vec_source, variant, spill_threshold, explicit_cleanup, workers, pressure, par_chunk)| Cfg {
            split,
            typed,
            vec_source,
            variant,
            spill_threshold,
            explicit_cleanup,
            workers,
            pressure,
            par_chunk,
        })
}

/// `mixed_share`: share (in percent) of cases whose first column is of mixed type.
fn case_strategy(thorough: bool, big: bool, mixed_share: u32, ncfg: usize) -> impl Strategy<Value = Case> {
    let cols = prop_oneof![
        (100 - mixed_share) => cols_strategy(false),
        mixed_share => cols_strategy(true),
    ];
    (size_strategy(thorough, big), cols, chain_strategy(), proptest::collection::vec(cfg_strategy(), ncfg..=ncfg)).prop_map(|(n, cols, chain, cfgs)| Case { n, cols, chain, cfgs })
}

// ------------------------------------------------------------------------------------------------
// Evaluation
// ------------------------------------------------------------------------------------------------

#[derive(Clone, Copy, PartialEq, Eq, Debug)]
enum Mode {
    Pull,
    Push,
    Spill,
    Parallel,
}

impl Mode {
    fn name(self) -> &'static str {
        match self {
            Mode::Pull => "pull",
            Mode::Push => "push",
            Mode::Spill => "spill",
            Mode::Parallel => "parallel",
        }
    }
}

struct Prepared {
    rows: Vec<Row>,
    plan: Plan,
    expect: Expect,
    /// index of the sort op and whether a sort key column holds >= 2 non-NULL types among the rows reaching it
    sort_mixed: bool,
    /// key columns (sort / group / distinct keys; all columns if none) contain a duplicate or a NULL
    dup_or_null: bool,
    label: String,
}

fn prepare(case: &Case) -> Prepared {
    let rows = table_rows(case.n as usize, &case.cols);
    let plan = resolve(&case.cols, &case.chain);
    let mut sort_mixed = false;
    let mut keycols: Option<(usize, Vec<usize>)> = None;
    for (i, op) in plan.ops.iter().enumerate() {
        match op {
            Op::Sort { keys } => {
                let before = rows_before(rows.clone(), &plan, i);
                sort_mixed = keys.iter().any(|k| column_types(&before, k.col) >= 2);
                keycols = Some((i, keys.iter().map(|k| k.col).collect()));
            }
            Op::DistinctOn { cols } => keycols = Some((i, cols.clone())),
            Op::Agg { group, .. } if !group.is_empty() => keycols = Some((i, group.clone())),
            _ => {}
        }
    }
    let dup_or_null = {
        let (at, cols) = keycols.unwrap_or((0, (0..case.cols.len()).collect()));
        let before = rows_before(rows.clone(), &plan, at);
        let mut seen = BTreeSet::new();
        before.iter().any(|r| {
            let k: Vec<K> = cols.iter().map(|c| r[*c].key()).collect();
            k.iter().any(|x| *x == K::N) || !seen.insert(k)
        })
    };
    let expect = reference(rows.clone(), &plan);
    let tail = plan
        .ops
        .iter()
        .rev()
        .find_map(|o| match o {
            Op::Sort { .. } => Some("sort"),
            Op::Agg { group, .. } => Some(if group.is_empty() { "agg-global" } else { "agg-grouped" }),
            Op::DistinctOn { .. } => Some("distinct-on"),
            _ => None,
        })
        .unwrap_or_else(|| if plan.ops.iter().any(|o| matches!(o, Op::DistinctAll)) { "distinct" } else if plan.ops.is_empty() { "scan" } else { "stream" });
    let lim = if plan.ops.iter().any(|o| matches!(o, Op::Limit { .. })) { "+limit" } else { "" };
    let mixed = if case.cols.iter().any(|c| c.kind == KIND_MIXED) { "/mixed" } else { "" };
    Prepared { rows, plan, expect, sort_mixed, dup_or_null, label: format!("{tail}{lim}{mixed}") }
}

/// Narrow classification of a mismatch (DESIGN §5: signatures name the kind of failure).
fn classify(mode: Mode, p: &Prepared, got: Option<&[Row]>, sub: &str) -> String {
    let m = mode.name();
    // sort over a key column holding >= 2 non-NULL value types: the comparators return Equal for
    // cross-type pairs (not a total order) — only order / panic failures belong to this class
    if p.sort_mixed && (sub == "order" || sub == "sort-panic") {
        return format!("c17/{m}/sort-mixed-type-key");
    }
    if let (Some(got), Expect::Agg { rows, ngroup, input, group, aggs }) = (got, &p.expect) {
        // SUM over a group without non-NULL values: NULL instead of the pull convention 0
        if sub.starts_with("agg-value/") {
            let idx: usize = sub["agg-value/".len()..].parse().unwrap_or(usize::MAX);
            if idx < aggs.len() && aggs[idx].0 == AggFn::Sum {
                let alt = ref_group_agg(input, group, aggs, true);
                if compare_agg(got, &alt, *ngroup).is_ok() {
                    return format!("c17/{m}/sum-of-no-values-null");
                }
            }
        }
        let _ = rows;
    }
    format!("c17/{m}/{sub}")
}

fn run_mode(mode: Mode, p: &Prepared, cfg: &Cfg) -> Result<Option<(Vec<Row>, bool)>, Failure> {
    // returns rows + "exercised the mode-specific machinery" (spill files written / >= 2 morsels)
    let relabel = |f: Failure| -> Failure {
        if f.signature.starts_with("panic@") && f.what.contains("total order") {
            Failure { signature: classify(mode, p, None, "sort-panic"), what: f.what }
        } else {
            f
        }
    };
    match mode {
        Mode::Pull => run_pull(&p.rows, &p.plan, cfg).map(|r| Some((r, true))).map_err(relabel),
        Mode::Push => run_push(&p.rows, &p.plan, cfg, false).map(|(r, _)| Some((r, true))).map_err(relabel),
        Mode::Spill => {
            if !p.plan.ops.iter().any(|o| matches!(o, Op::Sort { .. } | Op::Agg { .. })) {
                return Ok(None);
            }
            run_push(&p.rows, &p.plan, cfg, true).map(|(r, files)| Some((r, files > 0))).map_err(relabel)
        }
        Mode::Parallel => {
            let Some(shape) = par_shape(&p.plan) else { return Ok(None) };
            if p.sort_mixed {
                // known to panic inside the worker threads (C17-sort-mixed-type-key); the merge of
                // mixed-key runs is covered by merge_runs, the per-worker sort by push
                return Ok(None);
            }
            if p.rows.is_empty() && matches!(shape, ParShape::Agg { ngroup: 0, .. }) {
                return Ok(None); // no morsels, no worker output: the initial row is the caller's business
            }
            let (first, morsels) = run_parallel(&p.rows, &p.plan, cfg, &shape).map_err(relabel)?;
            Ok(Some((first, morsels >= 2)))
        }
    }
}

fn eval(case: &Case, mode: Mode) -> CaseResult {
    let p = prepare(case);
    let mut exercised = false;
    let mut ran = false;
    // OS-level interleavings are sampled by repetition: every parallel configuration runs 3 times and
    // each run must equal the reference (hence the same multiset every time)
    let reps = if mode == Mode::Parallel { 3 } else { 1 };
    for (ci, cfg) in case.cfgs.iter().enumerate().flat_map(|x| std::iter::repeat_n(x, reps)) {
        let Some((got, ex)) = run_mode(mode, &p, cfg)? else { continue };
        ran = true;
        // parallel LIMIT: per-worker limits, harness truncation — only validity can be demanded
        let exp_owned;
        let exp: &Expect = if mode == Mode::Parallel {
            match &p.expect {
                Expect::Rows { full, limit: Some((0, l)), .. } => {
                    exp_owned = Expect::Rows { full: full.clone(), sort: None, limit: Some((0, *l)) };
                    &exp_owned
                }
                e => e,
            }
        } else {
            &p.expect
        };
        if let Err((sub, what)) = compare(&got, exp) {
            let sig = classify(mode, &p, Some(&got), &sub);
            return fail(sig, format!("{} cfg#{ci} {:?}\nplan {:?}\n{what}", mode.name(), cfg, p.plan.ops));
        }
        let chunks = split_sizes(p.rows.len(), &cfg.split).len();
        exercised |= match mode {
            Mode::Pull => chunks >= 2,
            Mode::Push => if cfg.vec_source { p.rows.len() > 2048 } else { chunks >= 2 },
            Mode::Spill | Mode::Parallel => ex,
        };
    }
    if !ran {
        return ok(false, format!("n/a:{}", p.label), hash_dbg(case));
    }
    ok(exercised && p.dup_or_null, p.label, hash_dbg(case))
}

// ------------------------------------------------------------------------------------------------
// Pure merge functions with explicit worker assignment
// ------------------------------------------------------------------------------------------------

#[derive(Clone, Debug, Serialize, Deserialize)]
pub struct MergeCase {
    pub n: u32,
    pub cols: Vec<ColSpec>,
    /// worker of row i = assign[i % len] % workers
    pub assign: Vec<u8>,
    pub workers: u8,
    pub keys: Vec<(u8, bool, bool)>,
    pub chunk: u16,
    /// external_sort only: how many of the runs stay in memory (0 or 1), explicit cleanup
    pub mem_run: bool,
    pub explicit_cleanup: bool,
}

fn merge_case_strategy(mixed_share: u32, max_n: u32) -> impl Strategy<Value = MergeCase> {
    let cols = prop_oneof![(100 - mixed_share) => cols_strategy(false), mixed_share => cols_strategy(true)];
    (
        prop_oneof![2 => 0u32..4, 6 => 0u32..60, 2 => 60u32..max_n],
        cols,
        proptest::collection::vec(any::<u8>(), 1..24),
        1u8..9,
        proptest::collection::vec((0u8..3, any::<bool>(), any::<bool>()), 1..3),
        prop_oneof![1u16..8, 8u16..3000],
        any::<bool>(),
        any::<bool>(),
    )
        .prop_map(|(n, cols, assign, workers, keys, chunk, mem_run, explicit_cleanup)| MergeCase { n, cols, assign, workers, keys, chunk, mem_run, explicit_cleanup })
}

fn partition(mc: &MergeCase) -> (Vec<Row>, Vec<Vec<Row>>) {
    let rows = table_rows(mc.n as usize, &mc.cols);
    let w = mc.workers.max(1) as usize;
    let mut parts = vec![Vec::new(); w];
    for (i, r) in rows.iter().enumerate() {
        parts[mc.assign[i % mc.assign.len()] as usize % w].push(r.clone());
    }
    (rows, parts)
}

fn keys_of(mc: &MergeCase) -> Vec<SortKeySpec> {
    let w = mc.cols.len();
    let mut seen = BTreeSet::new();
    mc.keys.iter().map(|(c, d, nf)| SortKeySpec { col: *c as usize % w, desc: *d, nulls_first: *nf }).filter(|k| seen.insert(k.col)).collect()
}

fn to_values(rows: &[Row]) -> Vec<Vec<Value>> {
    rows.iter().map(|r| r.iter().map(V::to_value).collect()).collect()
}

fn from_values(rows: &[Vec<Value>]) -> Vec<Row> {
    rows.iter().map(|r| r.iter().map(V::from_value).collect()).collect()
}

fn merge_nontrivial(parts: &[Vec<Row>], rows: &[Row], keys: &[usize]) -> bool {
    let mut seen = BTreeSet::new();
    let dup = rows.iter().any(|r| {
        let k: Vec<K> = keys.iter().map(|c| r[*c].key()).collect();
        k.iter().any(|x| *x == K::N) || !seen.insert(k)
    });
    parts.iter().filter(|p| !p.is_empty()).count() >= 2 && dup
}

fn sorted_check(sub: &str, got: &[Row], rows: &[Row], keys: &[SortKeySpec], mixed_key: bool) -> Result<(), Failure> {
    let mut want = rows.to_vec();
    ref_sort(&mut want, keys);
    let exp = Expect::Rows { full: want, sort: Some(keys.to_vec()), limit: None };
    if let Err((s, what)) = compare(got, &exp) {
        let sig = if mixed_key && s == "order" { format!("c17/{sub}/sort-mixed-type-key") } else { format!("c17/{sub}/{s}") };
        return fail(sig, what);
    }
    Ok(())
}

fn merge_runs_check(mc: &MergeCase) -> CaseResult {
    let (rows, mut parts) = partition(mc);
    let keys = keys_of(mc);
    let mixed_key = keys.iter().any(|k| column_types(&rows, k.col) >= 2);
    for p in &mut parts {
        ref_sort(p, &keys); // each worker's run is sorted (precondition of the merge)
    }
    let mk: Vec<parallel::SortKey> = keys.iter().map(|k| parallel::SortKey { column: k.col, ascending: !k.desc, nulls_first: k.nulls_first }).collect();
    let runs: Vec<Vec<Vec<Value>>> = parts.iter().map(|p| to_values(p)).collect();
    let merged = guard("merge_sorted_runs", || parallel::merge_sorted_runs(runs, &mk))?;
    let merged = match merged {
        Ok(m) => from_values(&m),
        Err(e) => return fail("c17/merge_runs/error", format!("{e}")),
    };
    sorted_check("merge_runs", &merged, &rows, &keys, mixed_key)?;
    // chunked variant: each run cut into chunks of `chunk` rows
    let kinds: Vec<u8> = mc.cols.iter().map(|c| c.kind).collect();
    let cfg = Cfg { split: Split::Fixed(u32::from(mc.chunk.max(1))), typed: false, vec_source: false, variant: 0, spill_threshold: 0, explicit_cleanup: true, workers: 1, pressure: 0, par_chunk: mc.chunk };
    let cruns: Vec<Vec<_>> = parts.iter().map(|p| make_chunks(p, &kinds, &cfg)).collect();
    let out_chunk = (mc.chunk as usize).max(1).max(rows.len().div_ceil(MAX_CHUNKS));
    let merged = guard("merge_sorted_chunks", || parallel::merge_sorted_chunks(cruns, &mk, out_chunk))?;
    match merged {
        Ok(chunks) => {
            if let Some(c) = chunks.iter().find(|c| c.len() > out_chunk || c.len() == 0) {
                return fail("c17/merge_chunks/chunk-size", format!("output chunk of {} rows with chunk_size {out_chunk}", c.len()));
            }
            sorted_check("merge_chunks", &chunks_rows(&chunks), &rows, &keys, mixed_key)?;
        }
        Err(e) => return fail("c17/merge_chunks/error", format!("{e}")),
    }
    let kc: Vec<usize> = keys.iter().map(|k| k.col).collect();
    ok(merge_nontrivial(&parts, &rows, &kc), if mixed_key { "mixed-key" } else { "homog-key" }, hash_dbg(mc))
}

fn merge_accumulators_check(mc: &MergeCase) -> CaseResult {
    let (rows, parts) = partition(mc);
    let col = mc.keys[0].0 as usize % mc.cols.len();
    let kind = mc.cols[col].kind;
    // partial accumulators, merged in worker order
    let (merged, single) = guard("MergeableAccumulator", || {
        let mut total = MergeableAccumulator::new();
        for p in &parts {
            let mut acc = MergeableAccumulator::new();
            for r in p {
                acc.add(&r[col].to_value());
            }
            total.merge(&acc);
        }
        let mut single = MergeableAccumulator::new();
        for p in &parts {
            for r in p {
                single.add(&r[col].to_value());
            }
        }
        (total, single)
    })?;
    let all: Vec<&V> = parts.iter().flatten().map(|r| &r[col]).collect();
    let numeric = kind == KIND_INT || kind == KIND_FLOAT;
    let ordered = numeric || kind == KIND_STR;
    let mut checks: Vec<(&str, V, V, V)> = Vec::new(); // (name, merged, sequential accumulator, reference)
    checks.push(("count", V::from_value(&merged.finalize_count()), V::from_value(&single.finalize_count()), ref_agg(AggFn::Count, &all, all.len(), true)));
    if numeric {
        checks.push(("sum", V::from_value(&merged.finalize_sum()), V::from_value(&single.finalize_sum()), ref_agg(AggFn::Sum, &all, all.len(), true)));
        checks.push(("avg", V::from_value(&merged.finalize_avg()), V::from_value(&single.finalize_avg()), ref_agg(AggFn::Avg, &all, all.len(), true)));
    }
    if ordered {
        checks.push(("min", V::from_value(&merged.finalize_min()), V::from_value(&single.finalize_min()), ref_agg(AggFn::Min, &all, all.len(), true)));
        checks.push(("max", V::from_value(&merged.finalize_max()), V::from_value(&single.finalize_max()), ref_agg(AggFn::Max, &all, all.len(), true)));
    }
    let first = all.iter().find(|v| !v.is_null()).map_or(V::N, |v| (*v).clone());
    checks.push(("first", V::from_value(&merged.finalize_first()), V::from_value(&single.finalize_first()), first));
    for (name, m, s, r) in checks {
        if !agg_cell_eq(&m, &r) || !agg_cell_eq(&s, &r) {
            return fail(format!("c17/merge_accumulators/{name}"), format!("column {col} (kind {kind}) of {} rows in {} partials: merged {m:?}, sequential accumulator {s:?}, reference {r:?}", rows.len(), parts.len()));
        }
    }
    ok(merge_nontrivial(&parts, &rows, &[col]), if kind == KIND_MIXED { "mixed" } else { "homog" }, hash_dbg(mc))
}

fn merge_distinct_check(mc: &MergeCase) -> CaseResult {
    let (rows, parts) = partition(mc);
    let kinds: Vec<u8> = mc.cols.iter().map(|c| c.kind).collect();
    let cfg = Cfg { split: Split::Fixed(u32::from(mc.chunk.max(1))), typed: false, vec_source: false, variant: 0, spill_threshold: 0, explicit_cleanup: true, workers: 1, pressure: 0, par_chunk: mc.chunk };
    // each worker's distinct set (reference distinct per partition), cut into chunks
    let sets: Vec<Vec<_>> = parts.iter().map(|p| make_chunks(&ref_distinct_all(p), &kinds, &cfg)).collect();
    let merged = guard("merge_distinct_results", || parallel::merge_distinct_results(sets))?;
    let got = match merged {
        Ok(c) => chunks_rows(&c),
        Err(e) => return fail("c17/merge_distinct/error", format!("{e}")),
    };
    let want = ref_distinct_all(&rows);
    let exp = Expect::Rows { full: want, sort: None, limit: None };
    if let Err((s, what)) = compare(&got, &exp) {
        // NULL and Bool(false) hash alike in hash_row: rows differing only by NULL vs false are merged
        let collapse = |rs: &[Row]| -> BTreeSet<Vec<K>> {
            rs.iter().map(|r| r.iter().map(|v| if *v == V::B(false) { K::N } else { v.key() }).collect()).collect()
        };
        let sig = if (s == "count" || s == "multiset") && got.len() < rows.len().max(1) && collapse(&got) == collapse(&rows) && got.len() == collapse(&rows).len() {
            "c17/merge_distinct/null-false-merged".to_string()
        } else {
            format!("c17/merge_distinct/{s}")
        };
        return fail(sig, what);
    }
    let all: Vec<usize> = (0..kinds.len()).collect();
    ok(merge_nontrivial(&parts, &rows, &all), "sets", hash_dbg(mc))
}

fn external_sort_check(mc: &MergeCase) -> CaseResult {
    let (rows, mut parts) = partition(mc);
    let keys = keys_of(mc);
    let mixed_key = keys.iter().any(|k| column_types(&rows, k.col) >= 2);
    for p in &mut parts {
        ref_sort(p, &keys);
    }
    let scratch = scratch_dir();
    let dir = scratch.path().join("spill");
    let sk: Vec<spill::SortKey> = keys
        .iter()
        .map(|k| spill::SortKey {
            column: k.col,
            direction: if k.desc { spill::SortDirection::Descending } else { spill::SortDirection::Ascending },
            null_order: if k.nulls_first { spill::NullOrder::First } else { spill::NullOrder::Last },
        })
        .collect();
    let ncols = mc.cols.len();
    let res = catch(|| -> std::io::Result<(Vec<Row>, usize, Vec<String>, Vec<String>)> {
        let manager = Arc::new(SpillManager::new(dir.clone())?);
        let mut ext = ExternalSort::new(Arc::clone(&manager), ncols, sk);
        let mut mem = Vec::new();
        for (i, p) in parts.iter().enumerate() {
            if mc.mem_run && i + 1 == parts.len() {
                // the in-memory rest is unsorted input in the operator's use; give it unsorted
                mem = to_values(p);
                mem.reverse();
            } else {
                ext.spill_sorted_run(to_values(p))?;
            }
        }
        let files = std::fs::read_dir(&dir).map(|d| d.count()).unwrap_or(0);
        let merged = ext.merge_all(mem)?;
        drop(ext); // documented: Drop cleans up the run files
        let after_drop: Vec<String> = std::fs::read_dir(&dir).map(|d| d.filter_map(|e| e.ok().map(|e| e.file_name().to_string_lossy().to_string())).collect()).unwrap_or_default();
        if mc.explicit_cleanup {
            manager.cleanup()?;
        }
        drop(manager);
        let after_mgr: Vec<String> = std::fs::read_dir(&dir).map(|d| d.filter_map(|e| e.ok().map(|e| e.file_name().to_string_lossy().to_string())).collect()).unwrap_or_default();
        Ok((from_values(&merged), files, after_drop, after_mgr))
    });
    let (got, files, after_drop, after_mgr) = match res {
        Err(p) => {
            let sig = if mixed_key && p.msg.contains("total order") { "c17/external_sort/sort-mixed-type-key".to_string() } else { p.signature() };
            return fail(sig, format!("panic at {}: {}", p.file, p.msg));
        }
        Ok(Err(e)) => return fail("c17/external_sort/error", format!("{e}")),
        Ok(Ok(x)) => x,
    };
    sorted_check("external_sort", &got, &rows, &keys, mixed_key)?;
    if !after_drop.is_empty() {
        return fail("c17/external_sort/files-left-after-drop", format!("{} run file(s) still on disk after ExternalSort was dropped: {:?}", after_drop.len(), &after_drop[..after_drop.len().min(4)]));
    }
    if !after_mgr.is_empty() {
        return fail("c17/external_sort/files-left", format!("{} file(s) left after the SpillManager was cleaned up / dropped", after_mgr.len()));
    }
    let kc: Vec<usize> = keys.iter().map(|k| k.col).collect();
    ok(files >= 2 && merge_nontrivial(&parts, &rows, &kc), if mixed_key { "mixed-key" } else { "homog-key" }, hash_dbg(mc))
}


// ------------------------------------------------------------------------------------------------
// Spill-file lifecycle: abandoned operators and raw files are removed by the manager
// ------------------------------------------------------------------------------------------------

#[derive(Clone, Debug, Serialize, Deserialize)]
pub struct CleanupCase {
    pub n: u32,
    pub cols: Vec<ColSpec>,
    /// 0: raw files created through the manager and dropped without delete · 1: spillable aggregate
    /// abandoned before finalize · 2: spillable sort abandoned before finalize · 3: both, finalized
    pub kind: u8,
    pub files: u8,
    pub threshold: u8,
    pub split: Split,
    pub explicit_cleanup: bool,
}

fn cleanup_case_strategy() -> impl Strategy<Value = CleanupCase> {
    (prop_oneof![1 => 0u32..3, 5 => 3u32..300, 1 => 300u32..2500], cols_strategy(false), 0u8..4, 0u8..6, 0u8..6, split_strategy(), any::<bool>())
        .prop_map(|(n, cols, kind, files, threshold, split, explicit_cleanup)| CleanupCase { n, cols, kind, files, threshold, split, explicit_cleanup })
}

fn ls(dir: &std::path::Path) -> Vec<String> {
    let mut v: Vec<String> = std::fs::read_dir(dir).map(|d| d.filter_map(|e| e.ok().map(|e| e.file_name().to_string_lossy().to_string())).collect()).unwrap_or_default();
    v.sort();
    v
}

fn spill_cleanup_check(cc: &CleanupCase) -> CaseResult {
    use grafeo_core::execution::{CollectorSink, PushOperator};
    let rows = table_rows(cc.n as usize, &cc.cols);
    let kinds: Vec<u8> = cc.cols.iter().map(|c| c.kind).collect();
    let cfg = Cfg { split: cc.split.clone(), typed: false, vec_source: false, variant: 0, spill_threshold: u32::from(cc.threshold), explicit_cleanup: cc.explicit_cleanup, workers: 1, pressure: 0, par_chunk: 64 };
    let scratch = scratch_dir();
    let dir = scratch.path().join("spill");
    let res = guard("spill lifecycle", || -> Result<(usize, Vec<String>, usize), String> {
        let manager = Arc::new(SpillManager::new(dir.clone()).map_err(|e| e.to_string())?);
        let mut sink = CollectorSink::new();
        let mut ops: Vec<Box<dyn PushOperator>> = Vec::new();
        if cc.kind == 0 {
            for i in 0..cc.files {
                let mut f = manager.create_file(if i % 2 == 0 { "raw" } else { "other" }).map_err(|e| e.to_string())?;
                f.write_all(&vec![i; usize::from(i) * 10]).map_err(|e| e.to_string())?;
                f.finish_write().map_err(|e| e.to_string())?;
                // handle dropped without delete(): the manager is the owner of last resort
            }
        }
        if cc.kind == 1 || cc.kind == 3 {
            ops.extend(push_op(&Op::Agg { group: vec![0], aggs: vec![(AggFn::CountStar, None)] }, &cfg, Some(&manager)));
        }
        if cc.kind == 2 || cc.kind == 3 {
            ops.extend(push_op(&Op::Sort { keys: vec![SortKeySpec { col: 0, desc: false, nulls_first: false }] }, &cfg, Some(&manager)));
        }
        for op in &mut ops {
            for chunk in make_chunks(&rows, &kinds, &cfg) {
                op.push(chunk, &mut sink).map_err(|e| e.to_string())?;
            }
            if cc.kind == 3 {
                op.finalize(&mut sink).map_err(|e| e.to_string())?;
            }
        }
        let before = ls(&dir).len();
        drop(ops); // abandoned (kinds 1, 2) or finished (kind 3) operators
        let registered;
        if cc.explicit_cleanup {
            manager.cleanup().map_err(|e| e.to_string())?;
            registered = manager.active_file_count();
            drop(manager);
        } else {
            registered = 0;
            match Arc::try_unwrap(manager) {
                Ok(m) => drop(m),
                Err(_) => return Err("SpillManager still shared after the operators were dropped".into()),
            }
        }
        Ok((before, ls(&dir), registered))
    })?;
    match res {
        Err(e) => fail("c17/spill_cleanup/error", e),
        Ok((before, left, registered)) => {
            if !left.is_empty() {
                return fail("c17/spill_cleanup/files-left", format!("kind {}: {} of {before} spill file(s) still on disk after {}: {:?}", cc.kind, left.len(), if cc.explicit_cleanup { "SpillManager::cleanup()" } else { "dropping the SpillManager" }, &left[..left.len().min(4)]));
            }
            if registered != 0 {
                return fail("c17/spill_cleanup/still-registered", format!("active_file_count() = {registered} after cleanup()"));
            }
            ok(before >= 1, match cc.kind { 0 => "raw-files", 1 => "abandoned-aggregate", 2 => "abandoned-sort", _ => "finished" }, hash_dbg(cc))
        }
    }
}

// ------------------------------------------------------------------------------------------------
// Morsels, parallel sources, scheduler
// ------------------------------------------------------------------------------------------------

#[derive(Clone, Debug, Serialize, Deserialize)]
pub struct MorselCase {
    pub n: u32,
    pub morsel: u32,
    pub cols: Vec<ColSpec>,
    pub split: Split,
    pub chunk: u16,
    pub workers: u8,
}

fn morsel_case_strategy() -> impl Strategy<Value = MorselCase> {
    (
        prop_oneof![2 => 0u32..4, 5 => 0u32..200, 2 => 200u32..3000],
        prop_oneof![1 => Just(1u32), 3 => 1u32..70, 3 => 70u32..4000],
        cols_strategy(false),
        split_strategy(),
        prop_oneof![1u16..10, 10u16..3000],
        1u8..17,
    )
        .prop_map(|(n, morsel, cols, split, chunk, workers)| MorselCase { n, morsel, cols, split, chunk, workers })
}

fn morsels_check(mc: &MorselCase) -> CaseResult {
    let n = mc.n as usize;
    // at most ~48 morsels per case (each partition of a chunk source copies the chunk index)
    let ms = (mc.morsel as usize).max(n.div_ceil(48));
    let morsels = guard("generate_morsels", || parallel::generate_morsels(n, ms, 7))?;
    // exact cover: contiguous, non-overlapping, non-empty, bounded, ids sequential
    let mut next = 0usize;
    for (i, m) in morsels.iter().enumerate() {
        if m.start_row != next || m.end_row <= m.start_row || m.end_row - m.start_row > ms || m.id != i || m.source_id != 7 {
            return fail("c17/morsels/cover", format!("morsel #{i} = {m:?} after covering 0..{next} (total {n}, size {ms})"));
        }
        next = m.end_row;
    }
    if next != n {
        return fail("c17/morsels/cover", format!("morsels cover 0..{next}, total {n} (size {ms})"));
    }
    // partitions of the parallel sources re-assemble the table
    let rows = table_rows(n, &mc.cols);
    let kinds: Vec<u8> = mc.cols.iter().map(|c| c.kind).collect();
    let cfg = Cfg { split: mc.split.clone(), typed: false, vec_source: false, variant: 0, spill_threshold: 0, explicit_cleanup: true, workers: 1, pressure: 0, par_chunk: mc.chunk };
    let cols: Vec<Vec<Value>> = (0..kinds.len()).map(|c| rows.iter().map(|r| r[c].to_value()).collect()).collect();
    let sources: Vec<(&str, Arc<dyn ParallelSource>)> = vec![
        ("vector", Arc::new(ParallelVectorSource::new(cols))),
        ("chunk", Arc::new(ParallelChunkSource::new(make_chunks(&rows, &kinds, &cfg)))),
    ];
    let want = multiset(&rows);
    for (name, src) in &sources {
        let got = guard("partitions", || -> Result<Vec<Row>, String> {
            let ms2 = src.generate_morsels(ms, 0);
            if ms2.len() != morsels.len() {
                return Err(format!("source generated {} morsels, generate_morsels {}", ms2.len(), morsels.len()));
            }
            let mut out = Vec::new();
            for m in &ms2 {
                let mut part = src.create_partition(m);
                let mut polls = 0;
                let before = out.len();
                let cs = (mc.chunk as usize).max(1).max(n.div_ceil(32));
                while let Some(c) = part.next_chunk(cs).map_err(|e| e.to_string())? {
                    if c.len() > cs {
                        return Err(format!("partition chunk of {} rows with chunk_size {}", c.len(), mc.chunk));
                    }
                    chunk_rows(&c, &mut out);
                    polls += 1;
                    if polls > n + 8 {
                        return Err("partition does not terminate".into());
                    }
                }
                if out.len() - before != m.row_count() {
                    return Err(format!("partition for {m:?} produced {} rows", out.len() - before));
                }
            }
            Ok(out)
        })?;
        match got {
            Err(e) => return fail(format!("c17/morsels/{name}-source"), format!("{e}; split {:?}", mc.split)),
            Ok(g) => {
                // partitions are visited in morsel order: the concatenation is the table itself
                if g.iter().map(|r| row_key(r)).ne(rows.iter().map(|r| row_key(r))) {
                    let _ = &want;
                    return fail(format!("c17/morsels/{name}-source-rows"), format!("concatenated partitions differ from the table ({} vs {} rows)", g.len(), rows.len()));
                }
            }
        }
    }
    // scheduler: every morsel handed out exactly once over `workers` threads (sampled interleaving)
    let handed = guard("scheduler", || {
        let sched = Arc::new(MorselScheduler::new(mc.workers.max(1) as usize));
        sched.submit_batch(morsels.clone());
        sched.finish_submission();
        let got = Arc::new(parking_lot::Mutex::new(Vec::new()));
        std::thread::scope(|s| {
            for _ in 0..mc.workers.max(1) {
                let sched = Arc::clone(&sched);
                let got = Arc::clone(&got);
                s.spawn(move || {
                    let h = WorkerHandle::new(sched);
                    let mut mine = Vec::new();
                    while let Some(m) = h.get_work() {
                        mine.push(m);
                        h.complete_morsel();
                    }
                    got.lock().extend(mine);
                });
            }
        });
        let mut v = std::mem::take(&mut *got.lock());
        v.sort_by_key(|m| m.id);
        v
    })?;
    if handed != morsels {
        return fail("c17/morsels/scheduler", format!("{} morsels submitted, {} handed out: {:?}", morsels.len(), handed.len(), &handed[..handed.len().min(6)]));
    }
    ok(morsels.len() >= 2 && split_sizes(n, &mc.split).len() >= 2, if n % ms.max(1) == 0 { "aligned" } else { "ragged" }, hash_dbg(mc))
}

// ------------------------------------------------------------------------------------------------
// Run
// ------------------------------------------------------------------------------------------------

pub fn run(r: &mut Run) {
    r.level = "exploration";
    r.rule = "tables generated by formula from (n, per-column kind/domain/NULL share/seed): n in {0,1,2,3, <48, <700, 1023..1025, 2047..2049, 3072, 4096/4097, up to 4200 quick / 20000 thorough}; \
              chains = up to 2 of {filter, project, distinct} + optional {multi-key sort asc/desc nulls first/last | distinct-on | global/grouped aggregate of count*/count/sum/min/max/avg} + optional skip/limit + optional projection after the limit; \
              each case carries 3 (spill, parallel: 2) configurations (chunk split incl. empty chunks, typed/untyped vectors, source kind, operator flavours, spill threshold 0..unlimited, explicit cleanup vs drop, workers 1..16, pressure level -> morsel size 1K/16K/64K, partition chunk size) and is run under one mode per sub-check (pull / push Pipeline / push with spillable operators / ParallelPipeline + library merge, the latter 3x per configuration for schedule sampling). \
              12% of the cases have a mixed-type (Int64/Float64/String/NULL) first column. merge_* / external_sort / morsels: explicit assignment of rows to <= 8 workers. \
              adaptive: the same (table, chain, chunking) cases, each under 3 adaptive configurations = entry point (execute_adaptive / AdaptivePipelineExecutor::execute_collecting / ::execute / tracked pull chain / tracked push Pipeline / engine Executor::execute_adaptive) x check interval {0, 1, <50, 1024, 2048, 10000, <5000} x threshold 0.1..10000 x min_rows {0, 1, <100, 1000, <5000, max} x estimates of 0..3 checkpoints in per-mille of the true count (0 = unknown ... 1000000), so that the re-optimisation flag is raised mid-stream in part of the cases and never in the others (class suffix /reopt, /steady). \
              joins: left x right tables (0..40 mostly, one side 2047/2048/2049/4096/4097 rows, ln*rn <= 250000) x {hash: inner, left, right, full, cross, semi, anti | nested loop: inner, left, cross} x 0/1/2 key column pairs (right key columns take the kind of their left partner; 8% mixed-type key columns) x independent chunk splits (incl. empty chunks) x typed/untyped vectors x selection vectors (every k-th physical row deselected) x optional second iteration after reset(). \
              non-trivial = the input spans >= 2 chunks (pull/push/adaptive/joins; joins also: non-empty result), wrote >= 1 spill file (spill), >= 2 morsels (parallel), >= 2 non-empty runs/partials/sets (merge_*) AND the key columns hold a duplicate or a NULL; distinct by hash of the case"
        .into();
    r.assumptions.push("OS-level thread interleavings inside a running ParallelPipeline / MorselScheduler are sampled by repetition (each parallel case runs 3 times and must give the same multiset), not enumerated".into());
    r.assumptions.push("the reference for filters is the semantics the public pull predicate (ExpressionPredicate) and the push ColumnPredicate share on same-typed operands (NULL = NULL true, <> its negation, ordering false on NULL); filters are only placed on homogeneous columns, ordering comparisons not on Bool columns (pull: undefined, push: false<true)".into());
    r.assumptions.push("aggregate results are compared by numeric value (pull SUM of Int64 is Int64, push SUM is Float64; rel. tolerance 1e-9); SUM/AVG only on Int/Float columns, MIN/MAX not on Bool columns (push has no Bool ordering), on mixed columns only COUNT; values are small enough for exact f64 sums; no NaN/-0.0/near-equal floats (C16 territory)".into());
    r.assumptions.push("LIMIT without a total order is judged by validity (right count, sub-multiset of the unlimited result, key sequence if sorted); sort ties may be permuted".into());
    r.assumptions.push("for mixed-type sort key columns no order is documented: only the multiset is demanded there by the reference; order / panic failures in that class carry the signature …/sort-mixed-type-key".into());
    r.assumptions.push("spill-file contract as documented on SpillManager: all spill files are removed by cleanup() and on drop of the manager; ExternalSort additionally documents removal of its run files on drop; PartitionedState files are only required to be gone after the manager's cleanup".into());
    r.assumptions.push("ParallelPipelineConfig::morsel_size is ignored by the implementation (the morsel size comes from the pressure level only), so morsel sizes are 1024/16384/32768/65536; a ParallelPipeline applies LIMIT per worker, so a parallel LIMIT is judged after truncation by validity; AVG and DISTINCT ON are not expressible through the parallel merge functions; parallel/fold.rs needs rayon iterators (not a harness dependency) and joins have no spilling variant (the in-memory join operators are covered by `joins`)".into());
    r.assumptions.push("adaptive: the adaptive layer of this tree never swaps a plan (PlanFactory is a type alias without a user); what is decided is transparency (rows = reference for every configuration) and the module's documented bookkeeping: a tracking wrapper / operator / sink reports the number of rows that flowed through it (exact unless a LIMIT downstream may end the stream early, then <=), and the re-optimisation flag is only ever raised by a checkpoint whose count deviates from its estimate by more than the threshold on >= min_rows rows (estimate <= 0 with rows > 0 counts as infinite deviation, as the module's unit tests pin); for the push pipeline, where every count is final when asked, should_reoptimize() is determined exactly".into());
    r.assumptions.push("joins: the reference is the nested loop over all row pairs with structural key equality (type tag + payload, as HashKey) in which a NULL key matches nothing (SQL; HashJoinOperator states it for inner/semi/anti); outputs are compared as multisets (no order is documented); NestedLoopJoinOperator is only asked for Inner / Left / Cross (it documents match tracking for Left only); Semi / Anti get the left columns as output schema; a case drawn as Cross with key columns runs as Inner".into());

    let thorough = r.is_thorough();
    for mode in [Mode::Pull, Mode::Push, Mode::Spill, Mode::Parallel] {
        let (q, t) = match mode {
            Mode::Pull => (3000, 50_000),
            Mode::Push => (3000, 50_000),
            Mode::Spill => (2000, 25_000),
            Mode::Parallel => (700, 12_000),
        };
        let ncfg = if matches!(mode, Mode::Parallel | Mode::Spill) { 2 } else { 3 };
        let big = mode == Mode::Parallel;
        r.subcheck(mode.name(), r.cases(q, t), move || case_strategy(thorough, big, 12, ncfg), move |c: &Case| eval(c, mode));
    }
    let max_n = if thorough { 6000 } else { 1500 };
    r.subcheck("merge_runs", r.cases(2000, 60_000), move || merge_case_strategy(10, max_n), merge_runs_check);
    r.subcheck("merge_accumulators", r.cases(3000, 100_000), move || merge_case_strategy(10, max_n), merge_accumulators_check);
    r.subcheck("merge_distinct", r.cases(2000, 60_000), move || merge_case_strategy(10, max_n), merge_distinct_check);
    r.subcheck("external_sort", r.cases(1500, 30_000), move || merge_case_strategy(10, max_n), external_sort_check);
    r.subcheck("spill_cleanup", r.cases(1500, 20_000), cleanup_case_strategy, spill_cleanup_check);
    r.subcheck("morsels", r.cases(600, 15_000), morsel_case_strategy, morsels_check);
    r.subcheck("adaptive", r.cases(1200, 20_000), move || adaptive::adaptive_case_strategy(thorough), adaptive::adaptive_check);
    r.subcheck("joins", r.cases(6000, 100_000), joins::join_case_strategy, joins::joins_check);
}
