//! C17 `joins`: the pull join operators (`HashJoinOperator`, `NestedLoopJoinOperator`) equal the join by
//! definition — a naive nested loop over `Vec<Vec<V>>` — for every join type, key arity (0 = cross / "ON true",
//! 1, 2), NULL and duplicate keys, chunk split of either input (incl. 2047/2048/2049-row inputs, empty chunks,
//! selection vectors as a `FilterOperator` below the join produces them) and output sizes across the 2048-row
//! output chunk boundary; and a second iteration after `reset()` returns the same rows.

use std::collections::BTreeSet;

use proptest::prelude::*;
use serde::{Deserialize, Serialize};

use grafeo_common::types::{LogicalType, Value};
use grafeo_core::execution::operators::{
    self as pull, EqualityCondition, HashJoinOperator, JoinCondition, JoinType, NestedLoopJoinOperator, Operator,
};
use grafeo_core::execution::{DataChunk, SelectionVector, ValueVector};

use super::exec::{Split, split_sizes};
use super::model::*;
use super::{cols_strategy, split_strategy};
use crate::driver::{CaseResult, Failure, fail, guard, hash_dbg, ok};

#[derive(Clone, Debug, Serialize, Deserialize)]
pub struct JoinCase {
    pub ln: u32,
    pub rn: u32,
    pub lcols: Vec<ColSpec>,
    pub rcols: Vec<ColSpec>,
    /// (left column selector, right column selector); empty = no condition (cross product / ON true)
    pub keys: Vec<(u8, u8)>,
    /// 0 Inner · 1 Left · 2 Right · 3 Full · 4 Cross · 5 Semi · 6 Anti
    pub jt: u8,
    /// false: HashJoinOperator · true: NestedLoopJoinOperator (Inner / Left / Cross only)
    pub nested: bool,
    pub lsplit: Split,
    pub rsplit: Split,
    pub typed: bool,
    /// selection vectors: 0 = flat chunks; k >= 2: every k-th physical row of every chunk is deselected
    /// (the deselected rows are copies of live rows, so they would join if they were looked at)
    pub lsel: u8,
    pub rsel: u8,
    /// iterate a second time after `reset()`
    pub rerun: bool,
    /// NULLs allowed in the key columns of both sides (else only on the left): NULL-with-NULL pairs are the
    /// region of the open finding C17-join-null-keys, kept to a bounded share of the cases
    #[serde(default)]
    pub null_both: bool,
}

/// Pairs of sizes with `ln * rn <= MAX_PAIRS` (the reference is a nested loop and the output may be the full product).
const MAX_PAIRS: usize = 250_000;

fn sizes_strategy() -> impl Strategy<Value = (u32, u32)> {
    let edge = || prop_oneof![Just(2047u32), Just(2048), Just(2049), Just(4096), Just(4097)];
    prop_oneof![
        3 => (0u32..6, 0u32..6),
        6 => (0u32..40, 0u32..40),
        2 => (40u32..400, 0u32..40),
        2 => (0u32..40, 40u32..400),
        1 => (40u32..120, 40u32..120),
        2 => (edge(), 0u32..6),
        2 => (0u32..6, edge()),
        1 => (edge(), 6u32..60),
        1 => (6u32..60, edge()),
    ]
}

pub fn join_case_strategy() -> impl Strategy<Value = JoinCase> {
    (
        sizes_strategy(),
        (cols_strategy(false), cols_strategy(false), prop::bool::weighted(0.08)),
        prop_oneof![1 => Just(Vec::new()), 5 => proptest::collection::vec((0u8..3, 0u8..3), 1..=1), 3 => proptest::collection::vec((0u8..3, 0u8..3), 2..=2)],
        (0u8..7, prop::bool::weighted(0.3)),
        (split_strategy(), split_strategy()),
        any::<bool>(),
        (prop_oneof![3 => Just(0u8), 1 => 2u8..6], prop_oneof![3 => Just(0u8), 1 => 2u8..6]),
        (prop::bool::weighted(0.25), prop::bool::weighted(0.25)),
    )
        .prop_map(|((ln, rn), (mut lcols, mut rcols, mixed), keys, (jt, nested), (lsplit, rsplit), typed, (lsel, rsel), (rerun, null_both))| {
            if mixed {
                lcols[0].kind = KIND_MIXED;
                rcols[0].kind = KIND_MIXED;
            }
            // the two open key-equality findings (NULL keys, Float64 bits) are not combined in one case
            JoinCase { ln, rn, lcols, rcols, keys, jt, nested, lsplit, rsplit, typed, lsel, rsel, rerun, null_both: null_both && !mixed }
        })
}

struct Resolved {
    lrows: Vec<Row>,
    rrows: Vec<Row>,
    lkinds: Vec<u8>,
    rkinds: Vec<u8>,
    keys: Vec<(usize, usize)>,
    jt: u8,
}

fn resolve(c: &JoinCase) -> Resolved {
    let ln = c.ln as usize;
    let rn = (c.rn as usize).min(if ln == 0 { usize::MAX } else { (MAX_PAIRS / ln).max(1) }).min(4200);
    let lcols = c.lcols.clone();
    let mut rcols = c.rcols.clone();
    let mut seen = BTreeSet::new();
    let mut keys = Vec::new();
    for (l, r) in &c.keys {
        let (l, r) = (*l as usize % lcols.len(), *r as usize % rcols.len());
        if seen.insert(r) {
            // a right key column takes the kind of its left partner (or nothing could ever match); its own
            // domain, NULL share and seed stay, so the two sides overlap without being equal
            rcols[r].kind = lcols[l].kind;
            if !c.null_both {
                rcols[r].null_pct = 0;
            }
            keys.push((l, r));
        }
    }
    // nested loop: Inner / Left / Cross only (the operator documents match tracking "for Left Join" only)
    let mut jt = c.jt % 7;
    if c.nested {
        jt = match jt { 1 => 1, 4 => 4, 0 | 2 | 5 => 0, _ => 1 };
    }
    // Cross = no keys; a keyed case drawn as Cross runs as Inner
    if jt == 4 && !keys.is_empty() {
        jt = 0;
    }
    Resolved {
        lrows: table_rows(ln, &lcols),
        rrows: table_rows(rn, &rcols),
        lkinds: lcols.iter().map(|c| c.kind).collect(),
        rkinds: rcols.iter().map(|c| c.kind).collect(),
        keys,
        jt,
    }
}

fn join_type(jt: u8) -> JoinType {
    match jt {
        0 => JoinType::Inner,
        1 => JoinType::Left,
        2 => JoinType::Right,
        3 => JoinType::Full,
        4 => JoinType::Cross,
        5 => JoinType::Semi,
        _ => JoinType::Anti,
    }
}

fn jt_name(jt: u8) -> &'static str {
    ["inner", "left", "right", "full", "cross", "semi", "anti"][jt as usize % 7]
}

/// The join by definition. `null_eq`: whether a NULL key equals a NULL key (SQL: no).
fn ref_join(l: &[Row], r: &[Row], lw: usize, rw: usize, keys: &[(usize, usize)], jt: u8, null_eq: bool, float_bits: bool) -> Vec<Row> {
    let eq = |a: &V, b: &V| -> bool {
        if a.is_null() || b.is_null() {
            return null_eq && a.is_null() && b.is_null();
        }
        if float_bits {
            // the defect of HashKey::from_value: a Float64 key is its bit pattern as Int64
            if let (V::F(f), V::I(i)) | (V::I(i), V::F(f)) = (a, b) {
                return f.to_bits() as i64 == *i;
            }
        }
        a.key() == b.key()
    };
    let matches = |lr: &Row, rr: &Row| keys.iter().all(|(lk, rk)| eq(&lr[*lk], &rr[*rk]));
    let mut out = Vec::new();
    let mut rmatched = vec![false; r.len()];
    for lr in l {
        let mut any = false;
        for (ri, rr) in r.iter().enumerate() {
            if matches(lr, rr) {
                any = true;
                rmatched[ri] = true;
                if jt <= 4 {
                    let mut row = lr.clone();
                    row.extend(rr.iter().cloned());
                    out.push(row);
                }
            }
        }
        match jt {
            1 | 3 if !any => {
                let mut row = lr.clone();
                row.extend(std::iter::repeat_n(V::N, rw));
                out.push(row);
            }
            5 if any => out.push(lr.clone()),
            6 if !any => out.push(lr.clone()),
            _ => {}
        }
    }
    if jt == 2 || jt == 3 {
        for (ri, rr) in r.iter().enumerate() {
            if !rmatched[ri] {
                let mut row: Row = std::iter::repeat_n(V::N, lw).collect();
                row.extend(rr.iter().cloned());
                out.push(row);
            }
        }
    }
    out
}

/// Chunks of the table; with `sel >= 2` every chunk carries a selection vector that deselects every
/// sel-th physical row (a copy of a live row).
fn chunks_with_selection(rows: &[Row], kinds: &[u8], split: &Split, typed: bool, sel: u8) -> Vec<DataChunk> {
    let mut chunks = Vec::new();
    let mut pos = 0;
    for sz in split_sizes(rows.len(), split) {
        let slice = &rows[pos..pos + sz];
        pos += sz;
        // physical layout: live rows in order, a dead copy inserted at every sel-th physical position
        let mut phys: Vec<&Row> = Vec::new();
        let mut live: Vec<usize> = Vec::new();
        for r in slice {
            if sel >= 2 && phys.len() % sel as usize == sel as usize - 1 {
                phys.push(r);
            }
            live.push(phys.len());
            phys.push(r);
        }
        if sel >= 2 && !slice.is_empty() {
            phys.push(&slice[0]); // a dead row behind the last live one
        }
        let cols: Vec<ValueVector> = (0..kinds.len())
            .map(|c| {
                if typed {
                    let mut v = ValueVector::with_type(kind_type(kinds[c]));
                    for r in &phys {
                        v.push_value(r[c].to_value());
                    }
                    v
                } else {
                    let vals: Vec<Value> = phys.iter().map(|r| r[c].to_value()).collect();
                    ValueVector::from_values(&vals)
                }
            })
            .collect();
        let mut chunk = DataChunk::new(cols);
        if sel >= 2 {
            let mut sv = SelectionVector::with_capacity(live.len());
            for i in live {
                sv.push(i);
            }
            chunk.set_selection(sv);
        }
        chunks.push(chunk);
    }
    chunks
}

/// Source that can be iterated again after `reset()`.
struct Replay {
    chunks: Vec<DataChunk>,
    pos: usize,
}

impl Operator for Replay {
    fn next(&mut self) -> pull::OperatorResult {
        if self.pos < self.chunks.len() {
            self.pos += 1;
            Ok(Some(self.chunks[self.pos - 1].clone()))
        } else {
            Ok(None)
        }
    }
    fn reset(&mut self) {
        self.pos = 0;
    }
    fn name(&self) -> &'static str {
        "HarnessReplay"
    }
}

/// Conjunction of the library's `EqualityCondition`s (the nested-loop join takes one condition object).
struct AllOf(Vec<EqualityCondition>);

impl JoinCondition for AllOf {
    fn evaluate(&self, lc: &DataChunk, lr: usize, rc: &DataChunk, rr: usize) -> bool {
        self.0.iter().all(|c| c.evaluate(lc, lr, rc, rr))
    }
}

pub const MISSING: &str = "<missing cell>";

/// Rows of a chunk; a cell the column does not hold (column shorter than the chunk) becomes `MISSING`.
fn drain(op: &mut dyn Operator, max_polls: usize) -> Result<Vec<Row>, String> {
    let mut out = Vec::new();
    let mut polls = 0;
    while let Some(chunk) = op.next().map_err(|e| format!("error: {e}"))? {
        super::exec::chunk_rows(&chunk, &mut out);
        polls += 1;
        if polls > max_polls {
            return Err("does not terminate".into());
        }
    }
    Ok(out)
}

fn types_for(kinds: &[u8], typed: bool) -> Vec<LogicalType> {
    kinds.iter().map(|k| if typed { kind_type(*k) } else { LogicalType::Any }).collect()
}

pub fn joins_check(c: &JoinCase) -> CaseResult {
    let rv = resolve(c);
    let (lw, rw) = (rv.lkinds.len(), rv.rkinds.len());
    let algo = if c.nested { "nlj" } else { "hash" };
    let want = ref_join(&rv.lrows, &rv.rrows, lw, rw, &rv.keys, rv.jt, false, false);
    let max_polls = want.len() + rv.lrows.len() + rv.rrows.len() + 64;
    let lchunks = chunks_with_selection(&rv.lrows, &rv.lkinds, &c.lsplit, c.typed, c.lsel);
    let rchunks = chunks_with_selection(&rv.rrows, &rv.rkinds, &c.rsplit, c.typed, c.rsel);
    let nchunks = lchunks.len().max(rchunks.len());
    let mut schema = types_for(&rv.lkinds, c.typed);
    if rv.jt != 5 && rv.jt != 6 {
        schema.extend(types_for(&rv.rkinds, c.typed));
    }
    let (first, second) = guard("join operator", || -> Result<(Vec<Row>, Option<Vec<Row>>), String> {
        let left: Box<dyn Operator> = Box::new(Replay { chunks: lchunks, pos: 0 });
        let right: Box<dyn Operator> = Box::new(Replay { chunks: rchunks, pos: 0 });
        let mut op: Box<dyn Operator> = if c.nested {
            let cond: Option<Box<dyn JoinCondition>> = match rv.keys.len() {
                0 => None,
                1 => Some(Box::new(EqualityCondition::new(rv.keys[0].0, rv.keys[0].1))),
                _ => Some(Box::new(AllOf(rv.keys.iter().map(|(l, r)| EqualityCondition::new(*l, *r)).collect()))),
            };
            Box::new(NestedLoopJoinOperator::new(left, right, cond, join_type(rv.jt), schema.clone()))
        } else {
            let (pk, bk): (Vec<usize>, Vec<usize>) = rv.keys.iter().copied().unzip();
            Box::new(HashJoinOperator::new(left, right, pk, bk, join_type(rv.jt), schema.clone()))
        };
        let first = drain(op.as_mut(), max_polls)?;
        let second = if c.rerun {
            op.reset();
            Some(drain(op.as_mut(), max_polls)?)
        } else {
            None
        };
        Ok((first, second))
    })?
    .map_err(|e| Failure { signature: format!("c17/joins/{algo}/error"), what: format!("{algo} {} join: {e}", jt_name(rv.jt)) })?;

    let describe = |what: String| -> String {
        format!(
            "{algo} {} join on {:?}, left {} rows x {:?} split {:?} sel {}, right {} rows x {:?} split {:?} sel {}, typed {}\n{what}",
            jt_name(rv.jt), rv.keys, rv.lrows.len(), rv.lkinds, c.lsplit, c.lsel, rv.rrows.len(), rv.rkinds, c.rsplit, c.rsel, c.typed
        )
    };
    let width = if rv.jt == 5 || rv.jt == 6 { lw } else { lw + rw };
    let judge = |got: &[Row], pass: &str| -> Result<(), Failure> {
        if let Some(bad) = got.iter().find(|r| r.len() != width) {
            return fail(format!("c17/joins/{algo}/width"), describe(format!("{pass}: row {bad:?} has width {}, expected {width}", bad.len())));
        }
        let mg = multiset(got);
        if mg == multiset(&want) {
            return Ok(());
        }
        // which kind of difference?
        let sub = if got.iter().any(|r| r.iter().any(|v| matches!(v, V::S(s) if s == MISSING))) {
            // a column of an output chunk is shorter than the chunk's row count
            let as_null: Vec<Row> = got.iter().map(|r| r.iter().map(|v| if matches!(v, V::S(s) if s == MISSING) { V::N } else { v.clone() }).collect()).collect();
            if multiset(&as_null) == multiset(&want) { "ragged-chunk".to_string() } else { "ragged-chunk+rows".to_string() }
        } else {
            let alt = ref_join(&rv.lrows, &rv.rrows, lw, rw, &rv.keys, rv.jt, true, false);
            if !c.nested && mg == multiset(&ref_join(&rv.lrows, &rv.rrows, lw, rw, &rv.keys, rv.jt, false, true)) {
                // exactly the join in which Float64 x equals the Int64 with x's bit pattern (0.0 = 0)
                "float-key-as-int-bits".to_string()
            } else if mg == multiset(&alt) {
                // exactly the join under the convention NULL = NULL (an exact prediction: tried before the broad label below)
                format!("null-keys-match/{}", if c.nested { "nlj" } else if rv.keys.len() >= 2 { "hash-composite" } else { "hash-outer" })
            } else if !c.nested && c.rsel >= 2 && (rv.jt == 2 || rv.jt == 3) {
                // right / full outer hash join whose build side carries a selection vector (repaired defect: a violation now)
                "build-selection-outer".to_string()
            } else if got.len() != want.len() {
                "count".to_string()
            } else {
                "multiset".to_string()
            }
        };
        let mut diff = String::new();
        let mw = multiset(&want);
        for (k, n) in mw.iter().filter(|(k, n)| mg.get(*k).copied().unwrap_or(0) != **n).take(4) {
            diff.push_str(&format!("row {k:?}: got x{}, expected x{n}; ", mg.get(k).copied().unwrap_or(0)));
        }
        for (k, n) in mg.iter().filter(|(k, _)| !mw.contains_key(*k)).take(4) {
            diff.push_str(&format!("row {k:?}: got x{n}, expected x0; "));
        }
        fail(format!("c17/joins/{algo}/{sub}"), describe(format!("{pass}: {} rows, expected {}; {diff}", got.len(), want.len())))
    };
    judge(&first, "first iteration")?;
    if let Some(second) = &second {
        if multiset(second) != multiset(&first) {
            return fail(format!("c17/joins/{algo}/reset"), describe(format!("after reset(): {} rows, first iteration {} rows", second.len(), first.len())));
        }
    }

    // non-trivial: an input in >= 2 chunks, a non-empty result, and a duplicate or NULL key (or no key at all)
    let dup_or_null = rv.keys.is_empty() || {
        let mut seen = BTreeSet::new();
        let l = rv.lrows.iter().any(|r| {
            let k: Vec<K> = rv.keys.iter().map(|(lk, _)| r[*lk].key()).collect();
            k.contains(&K::N) || !seen.insert(k)
        });
        let mut seen = BTreeSet::new();
        l || rv.rrows.iter().any(|r| {
            let k: Vec<K> = rv.keys.iter().map(|(_, rk)| r[*rk].key()).collect();
            k.contains(&K::N) || !seen.insert(k)
        })
    };
    let class = format!(
        "{algo}-{}/k{}{}{}",
        jt_name(rv.jt),
        rv.keys.len(),
        if c.lsel >= 2 || c.rsel >= 2 { "/sel" } else { "" },
        if want.len() > 2048 { "/out>2048" } else { "" }
    );
    ok(nchunks >= 2 && !want.is_empty() && dup_or_null, class, hash_dbg(c))
}
