//! `PropertyColumn` / `PropertyStorage` under every `CompressionMode`: a generated history of
//! set / remove / compress / force_compress / mode switches is applied to (a) the column under test,
//! (b) a real uncompressed twin (`CompressionMode::None`, never asked to compress) and (c) a plain map
//! (`spec`). Every read (get / get_all / get_batch / get_all_batch / get_selective_batch / iter / len)
//! must agree: "turning compression on or off never changes what a property read returns".
//!
//! The unchanged tree violates this wholesale (open findings C15-propcol-compressed-unreadable and
//! C15-propcol-decompress-restores-stale): `PropertyColumn::get` never consults the compressed part.
//! To keep searching behind that, the check carries a *predictive* model of the defect (`pred`: hot map +
//! cold map; reads see only hot; switching to `None` copies cold over hot). The column under test must
//! equal `pred` exactly (any other shape of wrong answer is a violation with a generic signature), and
//! wherever `pred` differs from `spec` the case is reported under the finding's signature.

use std::collections::{BTreeMap, BTreeSet};

use proptest::prelude::*;
use serde::{Deserialize, Serialize};

use grafeo_common::types::{NodeId, PropertyKey, Value};
use grafeo_core::graph::lpg::{CompressionMode, PropertyColumn, PropertyStorage};

use super::seqs::mix;
use crate::driver::{CaseResult, Failure, Run, fail, guard, hash_of, ok};

pub const SIG_UNREADABLE: &str = "c15/propcol/compressed-values-unreadable";
pub const SIG_STALE: &str = "c15/propcol/decompress-restores-stale";

#[derive(Debug, Clone, Copy, PartialEq, Eq, Hash, Serialize, Deserialize)]
pub enum Mode {
    None,
    Auto,
    Eager,
}

impl Mode {
    fn real(self) -> CompressionMode {
        match self {
            Mode::None => CompressionMode::None,
            Mode::Auto => CompressionMode::Auto,
            Mode::Eager => CompressionMode::Eager,
        }
    }
}

/// Canonical value (floats bitwise).
#[derive(Debug, Clone, PartialEq, Eq, Hash, PartialOrd, Ord)]
pub enum V {
    Null,
    B(bool),
    I(i64),
    F(u64),
    S(String),
    Other(String),
}

impl V {
    fn value(&self) -> Value {
        match self {
            V::Null => Value::Null,
            V::B(b) => Value::Bool(*b),
            V::I(i) => Value::Int64(*i),
            V::F(bits) => Value::Float64(f64::from_bits(*bits)),
            V::S(s) => Value::from(s.as_str()),
            V::Other(_) => Value::Null,
        }
    }
    fn of(v: &Value) -> V {
        match v {
            Value::Null => V::Null,
            Value::Bool(b) => V::B(*b),
            Value::Int64(i) => V::I(*i),
            Value::Float64(f) => V::F(f.to_bits()),
            Value::String(s) => V::S(s.to_string()),
            other => V::Other(format!("{other:?}")),
        }
    }
    fn kind(&self) -> u8 {
        match self {
            V::I(_) => 1,
            V::S(_) => 2,
            V::B(_) => 3,
            _ => 0,
        }
    }
}

/// Value formula: the value written for entity `id` (a pure function of the case).
#[derive(Debug, Clone, Copy, PartialEq, Eq, Hash, Serialize, Deserialize)]
pub struct ValGen {
    pub kind: u8,
    pub a: i64,
    pub b: u32,
}

pub fn value_for(g: &ValGen, id: u64) -> V {
    let h = mix(id ^ (g.a as u64));
    match g.kind {
        0 => V::I(g.a.wrapping_add((id as i64).wrapping_mul(i64::from(g.b)))), // sorted by id
        1 => V::I((h % (u64::from(g.b) + 1)) as i64),                          // small, unsorted
        2 => V::I([i64::MIN, i64::MAX, 0, -1, h as i64][(h % 5) as usize]),    // extremes
        3 => V::I(g.a),                                                        // constant
        4 => V::F(if g.b % 2 == 0 { ((id as f64) * 0.5 + g.a as f64).to_bits() } else { h }),
        5 => V::B(h & 1 == 1),
        6 => V::B(g.a & 1 == 1),
        // few distinct; long enough for the dictionary to pay off (the code keeps it only if ratio > 1.2), short every 7th key
        7 => V::S(if g.b % 7 == 6 { format!("s{}", h % 3) } else { format!("category-{:02}-label", h % (u64::from(g.b) % 6 + 1)) }),
        8 => V::S(format!("str-{id}-{}", g.a)),                   // all distinct
        9 => match h % 5 {
            0 => V::I(h as i64 >> 40),
            1 => V::F(h),
            2 => V::B(h & 8 == 8),
            3 => V::S(format!("m{}", h % 3)),
            _ => V::Null,
        },
        10 => V::I((id as i64).wrapping_sub(g.a)), // sequential from another base
        _ => V::Null,
    }
}

fn valgen() -> impl Strategy<Value = ValGen> {
    let a = prop_oneof![3 => -5i64..1000, 1 => Just(i64::MAX - 3), 1 => Just(i64::MIN + 2), 1 => any::<i64>()];
    let kind = prop_oneof![
        4 => Just(0u8), 3 => Just(1u8), 1 => Just(2u8), 1 => Just(3u8), 2 => Just(4u8), 2 => Just(5u8), 1 => Just(6u8),
        3 => Just(7u8), 2 => Just(8u8), 2 => Just(9u8), 1 => Just(10u8), 1 => Just(11u8)
    ];
    (kind, a, prop_oneof![2 => 0u32..4, 2 => 0u32..200, 1 => any::<u32>()]).prop_map(|(kind, a, b)| ValGen { kind, a, b })
}

const ID_SPACE: u16 = 6000;

fn id_base(sel: u8) -> u64 {
    match sel % 3 {
        0 => 0,
        1 => 1 << 32,
        _ => u64::MAX - 100_000,
    }
}

fn range_len() -> impl Strategy<Value = u16> {
    // 4090..4200 crosses HOT_BUFFER_SIZE (4096, the Auto trigger) without many sets past it: in Auto mode every
    // set() past 4096 hot values re-runs a declined compression (O(n log n) each), which only burns budget.
    prop_oneof![2 => 1u16..8, 5 => 8u16..200, 2 => 900u16..1200, 1 => 4090u16..4200]
}

// ------------------------------------------------------------------------------------------------
// predictive model of one column
// ------------------------------------------------------------------------------------------------

#[derive(Default, Clone)]
struct Pred {
    hot: BTreeMap<u64, V>,
    cold: BTreeMap<u64, V>,
    /// ids whose hot value was overwritten by a stale cold value on decompress
    stale: BTreeSet<u64>,
    ever_compressed: bool,
    ever_decompressed: bool,
}

impl Pred {
    fn get(&self, id: u64) -> Option<&V> {
        self.hot.get(&id)
    }
    fn len(&self) -> usize {
        self.hot.len() + self.cold.len()
    }
    /// The column reported compressed after an operation: `moved` = ids that left the hot part.
    fn on_compressed(&mut self, moved: Vec<u64>, ctx: &str) -> Result<(), Failure> {
        if moved.len() < 8 {
            return fail("c15/propcol/compressed-too-few", format!("{ctx}: column became compressed with {} values moved", moved.len()));
        }
        let kinds: BTreeSet<u8> = moved.iter().map(|id| self.hot[id].kind()).collect();
        if kinds.len() != 1 || kinds.contains(&0) {
            return fail("c15/propcol/compressed-mixed-kinds", format!("{ctx}: values of kinds {kinds:?} left the hot buffer"));
        }
        let k = *kinds.iter().next().unwrap();
        let all_of_kind = self.hot.values().filter(|v| v.kind() == k).count();
        if all_of_kind != moved.len() {
            return fail("c15/propcol/compressed-partial", format!("{ctx}: {} of {all_of_kind} values of kind {k} left the hot buffer", moved.len()));
        }
        for id in moved {
            let v = self.hot.remove(&id).unwrap();
            self.cold.insert(id, v);
        }
        self.ever_compressed = true;
        Ok(())
    }
    fn on_decompressed(&mut self, spec: &BTreeMap<u64, V>) {
        for (id, v) in std::mem::take(&mut self.cold) {
            if spec.get(&id) != Some(&v) {
                self.stale.insert(id);
            }
            self.hot.insert(id, v);
        }
        self.ever_decompressed = true;
    }
    fn set(&mut self, id: u64, v: V, spec_after: &V) {
        if *spec_after == v {
            self.stale.remove(&id);
        }
        self.hot.insert(id, v);
    }
    /// Classify a difference between what the defect model predicts and what the specification says.
    fn classify(&self, id: u64) -> &'static str {
        if self.cold.contains_key(&id) && !self.hot.contains_key(&id) {
            SIG_UNREADABLE
        } else if self.stale.contains(&id) {
            SIG_STALE
        } else if self.cold.contains_key(&id) {
            SIG_UNREADABLE // shadowed: len double-counts
        } else {
            "c15/propcol/model-internal"
        }
    }
}

/// Known-finding notes collected over a case (first signature wins) — reported only if nothing else is wrong.
#[derive(Default)]
struct Known {
    first: Option<(String, String)>,
    count: usize,
}

impl Known {
    fn note(&mut self, sig: &str, what: String) -> Result<(), Failure> {
        if sig == "c15/propcol/model-internal" {
            return fail(sig, what);
        }
        self.count += 1;
        if self.first.is_none() {
            self.first = Some((sig.to_string(), what));
        }
        Ok(())
    }
}

// ------------------------------------------------------------------------------------------------
// PropertyColumn
// ------------------------------------------------------------------------------------------------

#[derive(Debug, Clone, PartialEq, Eq, Hash, Serialize, Deserialize)]
pub enum ColOp {
    Set { id: u16, g: ValGen },
    SetRange { start: u16, n: u16, g: ValGen },
    Remove { id: u16 },
    RemoveRange { start: u16, n: u16 },
    Compress,
    ForceCompress,
    SetMode(Mode),
    Check,
}

#[derive(Debug, Clone, PartialEq, Eq, Hash, Serialize, Deserialize)]
pub struct ColCase {
    pub mode: Mode,
    pub id_base: u8,
    pub ops: Vec<ColOp>,
    /// append `set_compression_mode(None)` before the final reads
    pub finish_decompress: bool,
}

fn mode() -> impl Strategy<Value = Mode> {
    prop_oneof![1 => Just(Mode::None), 2 => Just(Mode::Auto), 1 => Just(Mode::Eager)]
}

fn col_op() -> impl Strategy<Value = ColOp> {
    prop_oneof![
        3 => (0..ID_SPACE, valgen()).prop_map(|(id, g)| ColOp::Set { id, g }),
        5 => (0..ID_SPACE, range_len(), valgen()).prop_map(|(start, n, g)| ColOp::SetRange { start, n, g }),
        2 => (0..ID_SPACE).prop_map(|id| ColOp::Remove { id }),
        1 => (0..ID_SPACE, 1u16..300).prop_map(|(start, n)| ColOp::RemoveRange { start, n }),
        3 => Just(ColOp::Compress),
        2 => Just(ColOp::ForceCompress),
        2 => mode().prop_map(ColOp::SetMode),
        1 => Just(ColOp::Check),
    ]
}

/// Most writes of one history use one value formula (`main`), so that columns usually have a dominant type
/// (the code compresses only then); the rest keep their own formula (mixed-type columns).
fn col_case(max_ops: usize) -> impl Strategy<Value = ColCase> {
    let seed = (proptest::bool::weighted(0.8), 0..ID_SPACE, range_len());
    (mode(), 0u8..3, proptest::collection::vec((col_op(), proptest::bool::weighted(0.7)), 1..max_ops), valgen(), any::<bool>(), seed).prop_map(
        |(mode, id_base, ops, main, finish_decompress, (seeded, start, n))| {
            // 80 % of the histories start by filling the column (otherwise most compress calls find nothing to do)
            let first = seeded.then_some(ColOp::SetRange { start, n: n.max(8), g: main });
            let ops = first
                .into_iter()
                .chain(ops
                .into_iter()
                .map(|(op, use_main)| match op {
                    ColOp::Set { id, .. } if use_main => ColOp::Set { id, g: main },
                    ColOp::SetRange { start, n, .. } if use_main => ColOp::SetRange { start, n, g: main },
                    other => other,
                }))
                .collect();
            ColCase { mode, id_base, ops, finish_decompress }
        },
    )
}

struct ColState {
    real: PropertyColumn<NodeId>,
    twin: PropertyColumn<NodeId>,
    spec: BTreeMap<u64, V>,
    pred: Pred,
    touched: BTreeSet<u64>,
    known: Known,
    declined: bool,
    /// compression happened inside set() (Auto mode, hot buffer reached 4096)
    auto_triggered: bool,
}

impl ColState {
    fn sync_after(&mut self, ctx: &str, was_compressed: bool, may_decompress: bool) -> Result<(), Failure> {
        let now = guard("is_compressed", || self.real.is_compressed())?;
        if now && !was_compressed {
            let present: BTreeSet<u64> = guard("iter", || self.real.iter().map(|(id, _)| id.as_u64()).collect())?;
            let moved: Vec<u64> = self.pred.hot.keys().copied().filter(|id| !present.contains(id)).collect();
            self.pred.on_compressed(moved, ctx)?;
        } else if !now && was_compressed {
            if !may_decompress {
                return fail("c15/propcol/unexpected-decompress", format!("{ctx}: compressed data vanished"));
            }
            self.pred.on_decompressed(&self.spec);
        }
        Ok(())
    }

    fn set(&mut self, id: u64, v: V, ctx: &str) -> Result<(), Failure> {
        let was = self.real.is_compressed();
        guard("set", || self.real.set(NodeId::new(id), v.value()))?;
        guard("twin set", || self.twin.set(NodeId::new(id), v.value()))?;
        self.spec.insert(id, v.clone());
        self.pred.set(id, v.clone(), &v);
        self.touched.insert(id);
        if self.real.is_compressed() != was {
            self.sync_after(ctx, was, false)?;
            self.auto_triggered = true;
        }
        Ok(())
    }

    fn remove(&mut self, id: u64, ctx: &str) -> Result<(), Failure> {
        let got = guard("remove", || self.real.remove(NodeId::new(id)))?.map(|v| V::of(&v));
        let tw = guard("twin remove", || self.twin.remove(NodeId::new(id)))?.map(|v| V::of(&v));
        let want_spec = self.spec.remove(&id);
        let want_pred = self.pred.hot.remove(&id);
        self.touched.insert(id);
        if tw != want_spec {
            return fail("c15/propcol/twin-vs-model", format!("{ctx}: uncompressed remove({id}) = {tw:?}, model {want_spec:?}"));
        }
        if got != want_pred {
            return fail("c15/propcol/remove-mismatch", format!("{ctx}: remove({id}) = {got:?}, expected {want_pred:?} (uncompressed: {want_spec:?})"));
        }
        if want_pred != want_spec {
            let sig = self.pred.classify(id);
            self.known.note(sig, format!("{ctx}: remove({id}) returned {got:?}, uncompressed twin returned {want_spec:?}"))?;
        }
        // both sides now hold nothing for `id` (a value still in the cold part comes back on decompress)
        self.pred.stale.remove(&id);
        Ok(())
    }

    fn observe(&mut self, ctx: &str) -> Result<(), Failure> {
        let mut ids: Vec<u64> = self.touched.iter().copied().collect();
        ids.push(self.touched.iter().next_back().map_or(7, |m| m.wrapping_add(1)));
        for id in ids {
            let got = guard("get", || self.real.get(NodeId::new(id)))?.map(|v| V::of(&v));
            let tw = guard("twin get", || self.twin.get(NodeId::new(id)))?.map(|v| V::of(&v));
            let want_spec = self.spec.get(&id);
            if tw.as_ref() != want_spec {
                return fail("c15/propcol/twin-vs-model", format!("{ctx}: uncompressed get({id}) = {tw:?}, model {want_spec:?}"));
            }
            let want_pred = self.pred.get(id);
            if got.as_ref() != want_pred {
                return fail(
                    "c15/propcol/get-mismatch",
                    format!("{ctx}: get({id}) = {got:?}, uncompressed twin {want_spec:?}, defect model {want_pred:?}"),
                );
            }
            if want_pred != want_spec {
                let sig = self.pred.classify(id);
                self.known.note(sig, format!("{ctx}: get({id}) = {got:?} but the uncompressed twin returns {want_spec:?}"))?;
            }
        }
        let (len, empty) = (guard("len", || self.real.len())?, guard("is_empty", || self.real.is_empty())?);
        if len != self.pred.len() || empty != (self.pred.len() == 0) {
            return fail("c15/propcol/len-mismatch", format!("{ctx}: len {len} is_empty {empty}, defect model {}, uncompressed {}", self.pred.len(), self.spec.len()));
        }
        if self.twin.len() != self.spec.len() {
            return fail("c15/propcol/twin-vs-model", format!("{ctx}: uncompressed len {} != {}", self.twin.len(), self.spec.len()));
        }
        if len != self.spec.len() {
            let sig = if !self.pred.cold.is_empty() { SIG_UNREADABLE } else { SIG_STALE };
            self.known.note(sig, format!("{ctx}: len {len}, uncompressed twin {}", self.spec.len()))?;
        }
        let mut it: Vec<(u64, V)> = guard("iter", || self.real.iter().map(|(id, v)| (id.as_u64(), V::of(v))).collect())?;
        it.sort();
        let want: Vec<(u64, V)> = self.pred.hot.iter().map(|(k, v)| (*k, v.clone())).collect();
        if it != want {
            let diff = it.iter().zip(want.iter()).find(|(a, b)| a != b);
            return fail("c15/propcol/iter-mismatch", format!("{ctx}: iter has {} entries, defect model {}; first difference {diff:?}", it.len(), want.len()));
        }
        let mut tw: Vec<(u64, V)> = self.twin.iter().map(|(id, v)| (id.as_u64(), V::of(v))).collect();
        tw.sort();
        let spec_it: Vec<(u64, V)> = self.spec.iter().map(|(k, v)| (*k, v.clone())).collect();
        if tw != spec_it {
            return fail("c15/propcol/twin-vs-model", format!("{ctx}: uncompressed iter differs from model"));
        }
        if it != spec_it && self.pred.cold.is_empty() && self.pred.stale.is_empty() {
            return fail("c15/propcol/model-internal", format!("{ctx}: iter differs from spec without cold/stale values"));
        }
        let stats = guard("compression_stats", || self.real.compression_stats())?;
        if stats.value_count != len || stats.codec.is_some() != self.real.is_compressed() {
            return fail("c15/propcol/stats", format!("{ctx}: value_count {} (len {len}), codec {:?}", stats.value_count, stats.codec));
        }
        Ok(())
    }
}

fn propcol(c: &ColCase) -> CaseResult {
    let base = id_base(c.id_base);
    let mut st = ColState {
        real: PropertyColumn::with_compression(c.mode.real()),
        twin: PropertyColumn::new(),
        spec: BTreeMap::new(),
        pred: Pred::default(),
        touched: BTreeSet::new(),
        known: Known::default(),
        declined: false,
        auto_triggered: false,
    };
    let mut ops: Vec<ColOp> = c.ops.clone();
    if c.finish_decompress {
        ops.push(ColOp::SetMode(Mode::None));
    }
    for (k, op) in ops.iter().enumerate() {
        let ctx = format!("op {k} {op:?}");
        match op {
            ColOp::Set { id, g } => {
                let id = base + u64::from(*id);
                st.set(id, value_for(g, id), &ctx)?;
            }
            ColOp::SetRange { start, n, g } => {
                for i in 0..u64::from(*n) {
                    let id = base + u64::from(*start) + i;
                    st.set(id, value_for(g, id), &ctx)?;
                }
            }
            ColOp::Remove { id } => st.remove(base + u64::from(*id), &ctx)?,
            ColOp::RemoveRange { start, n } => {
                for i in 0..u64::from(*n) {
                    st.remove(base + u64::from(*start) + i, &ctx)?;
                }
            }
            ColOp::Compress | ColOp::ForceCompress => {
                let was = st.real.is_compressed();
                if matches!(op, ColOp::Compress) {
                    guard("compress", || st.real.compress())?;
                } else {
                    guard("force_compress", || st.real.force_compress())?;
                }
                st.sync_after(&ctx, was, false)?;
                if !was && !st.real.is_compressed() {
                    st.declined = true;
                }
            }
            ColOp::SetMode(m) => {
                let was = st.real.is_compressed();
                guard("set_compression_mode", || st.real.set_compression_mode(m.real()))?;
                if guard("compression_mode", || st.real.compression_mode())? != m.real() {
                    return fail("c15/propcol/mode", format!("{ctx}: mode not stored"));
                }
                st.sync_after(&ctx, was, *m == Mode::None)?;
                if *m == Mode::None && st.real.is_compressed() {
                    return fail("c15/propcol/not-decompressed", format!("{ctx}: still compressed after switching to None"));
                }
            }
            ColOp::Check => st.observe(&ctx)?,
        }
    }
    st.observe("final")?;
    if let Some((sig, what)) = st.known.first.take() {
        return fail(sig, format!("{what} ({} such differences in this history)", st.known.count));
    }
    let class = if st.pred.ever_compressed && st.pred.ever_decompressed {
        "compressed+decompressed"
    } else if st.pred.ever_compressed {
        "compressed"
    } else if st.declined {
        "compress-declined"
    } else {
        "never-compressed"
    };
    ok(st.pred.ever_compressed, format!("{:?}/{class}{}", c.mode, if st.auto_triggered { "/auto-trigger" } else { "" }), hash_of(c))
}

// ------------------------------------------------------------------------------------------------
// PropertyStorage
// ------------------------------------------------------------------------------------------------

const KEYS: [&str; 3] = ["age", "name", "flag"];

#[derive(Debug, Clone, PartialEq, Eq, Hash, Serialize, Deserialize)]
pub enum StoreOp {
    Set { id: u16, key: u8, g: ValGen },
    SetRange { start: u16, n: u16, key: u8, g: ValGen },
    Remove { id: u16, key: u8 },
    RemoveAll { id: u16 },
    CompressAll,
    ForceCompressAll,
    Enable { key: u8, mode: Mode },
    Check,
}

#[derive(Debug, Clone, PartialEq, Eq, Hash, Serialize, Deserialize)]
pub struct StoreCase {
    pub mode: Mode,
    /// true: `PropertyStorage::new()` + `set_default_compression(mode)`; false: `with_compression(mode)`
    pub via_setter: bool,
    pub id_base: u8,
    pub ops: Vec<StoreOp>,
    /// append `enable_compression(key, None)` for every key before the final reads
    pub finish_decompress: bool,
}

fn store_op() -> impl Strategy<Value = StoreOp> {
    let key = || 0u8..3;
    prop_oneof![
        3 => (0..ID_SPACE, key(), valgen()).prop_map(|(id, key, g)| StoreOp::Set { id, key, g }),
        5 => (0..ID_SPACE, range_len(), key(), valgen()).prop_map(|(start, n, key, g)| StoreOp::SetRange { start, n, key, g }),
        2 => (0..ID_SPACE, key()).prop_map(|(id, key)| StoreOp::Remove { id, key }),
        1 => (0..ID_SPACE).prop_map(|id| StoreOp::RemoveAll { id }),
        3 => Just(StoreOp::CompressAll),
        2 => Just(StoreOp::ForceCompressAll),
        2 => (key(), mode()).prop_map(|(key, mode)| StoreOp::Enable { key, mode }),
        1 => Just(StoreOp::Check),
    ]
}

fn store_case(max_ops: usize) -> impl Strategy<Value = StoreCase> {
    let seed = (proptest::bool::weighted(0.8), 0..ID_SPACE, range_len(), 0u8..3);
    (mode(), any::<bool>(), 0u8..3, proptest::collection::vec((store_op(), proptest::bool::weighted(0.7)), 1..max_ops), [valgen(), valgen(), valgen()], any::<bool>(), seed)
        .prop_map(|(mode, via_setter, id_base, ops, main, finish_decompress, (seeded, start, n, key))| {
            // one main value formula per key; 80 % of the histories start by filling one column (see col_case)
            let first = seeded.then_some(StoreOp::SetRange { start, n: n.max(8), key, g: main[key as usize] });
            let ops = first
                .into_iter()
                .chain(ops.into_iter().map(|(op, use_main)| match op {
                    StoreOp::Set { id, key, .. } if use_main => StoreOp::Set { id, key, g: main[key as usize] },
                    StoreOp::SetRange { start, n, key, .. } if use_main => StoreOp::SetRange { start, n, key, g: main[key as usize] },
                    other => other,
                }))
                .collect();
            StoreCase { mode, via_setter, id_base, ops, finish_decompress }
        })
}

struct StoreState {
    real: PropertyStorage<NodeId>,
    twin: PropertyStorage<NodeId>,
    /// per key: spec, pred, whether the column exists (a column is created by the first set and never dropped)
    spec: Vec<BTreeMap<u64, V>>,
    pred: Vec<Pred>,
    exists: Vec<bool>,
    compressed: Vec<bool>,
    touched: BTreeSet<u64>,
    known: Known,
    auto_triggered: bool,
}

fn pk(k: usize) -> PropertyKey {
    PropertyKey::new(KEYS[k])
}

impl StoreState {
    fn is_compressed(&self, k: usize) -> Result<bool, Failure> {
        let stats = guard("compression_stats", || self.real.compression_stats())?;
        Ok(stats.get(&pk(k)).is_some_and(|s| s.codec.is_some()))
    }

    /// Re-reads the compressed flag of column `k` and updates the defect model on a transition.
    fn sync(&mut self, k: usize, ctx: &str, may_decompress: bool) -> Result<(), Failure> {
        if !self.exists[k] {
            return Ok(());
        }
        let now = self.is_compressed(k)?;
        let was = self.compressed[k];
        if now && !was {
            let key = pk(k);
            let mut moved = Vec::new();
            for id in self.pred[k].hot.keys() {
                if guard("get", || self.real.get(NodeId::new(*id), &key))?.is_none() {
                    moved.push(*id);
                }
            }
            self.pred[k].on_compressed(moved, &format!("{ctx} key {}", KEYS[k]))?;
        } else if !now && was {
            if !may_decompress {
                return fail("c15/propstore/unexpected-decompress", format!("{ctx}: compressed data of {} vanished", KEYS[k]));
            }
            let spec = self.spec[k].clone();
            self.pred[k].on_decompressed(&spec);
        }
        self.compressed[k] = now;
        Ok(())
    }

    fn set(&mut self, id: u64, k: usize, v: V, ctx: &str) -> Result<(), Failure> {
        guard("set", || self.real.set(NodeId::new(id), pk(k), v.value()))?;
        guard("twin set", || self.twin.set(NodeId::new(id), pk(k), v.value()))?;
        self.exists[k] = true;
        self.spec[k].insert(id, v.clone());
        self.pred[k].set(id, v.clone(), &v);
        self.touched.insert(id);
        // Auto mode compresses inside set() once the hot buffer reaches 4096 values
        if !self.compressed[k] && self.pred[k].hot.len() >= 4096 {
            self.sync(k, ctx, false)?;
            self.auto_triggered |= self.compressed[k];
        }
        Ok(())
    }

    fn remove(&mut self, id: u64, k: usize, ctx: &str, check_return: bool) -> Result<(), Failure> {
        let want_spec = self.spec[k].remove(&id);
        let want_pred = self.pred[k].hot.remove(&id);
        self.touched.insert(id);
        if check_return {
            let got = guard("remove", || self.real.remove(NodeId::new(id), &pk(k)))?.map(|v| V::of(&v));
            let tw = guard("twin remove", || self.twin.remove(NodeId::new(id), &pk(k)))?.map(|v| V::of(&v));
            if tw != want_spec {
                return fail("c15/propstore/twin-vs-model", format!("{ctx}: uncompressed remove({id},{}) = {tw:?}, model {want_spec:?}", KEYS[k]));
            }
            if got != want_pred {
                return fail("c15/propstore/remove-mismatch", format!("{ctx}: remove({id},{}) = {got:?}, expected {want_pred:?} (uncompressed: {want_spec:?})", KEYS[k]));
            }
            if want_pred != want_spec {
                let sig = self.pred[k].classify(id);
                self.known.note(sig, format!("{ctx}: remove({id},{}) returned {got:?}, uncompressed twin returned {want_spec:?}", KEYS[k]))?;
            }
        }
        self.pred[k].stale.remove(&id);
        Ok(())
    }

    fn cmp_maps(
        &mut self,
        ctx: &str,
        what: &str,
        id: u64,
        got: &BTreeMap<String, V>,
        tw: &BTreeMap<String, V>,
        only: Option<&[usize]>,
    ) -> Result<(), Failure> {
        let mut want_spec = BTreeMap::new();
        let mut want_pred = BTreeMap::new();
        let mut sig: Option<&'static str> = None;
        for k in 0..KEYS.len() {
            if only.is_some_and(|o| !o.contains(&k)) {
                continue;
            }
            let (s, p) = (self.spec[k].get(&id), self.pred[k].get(id));
            if let Some(v) = s {
                want_spec.insert(KEYS[k].to_string(), v.clone());
            }
            if let Some(v) = p {
                want_pred.insert(KEYS[k].to_string(), v.clone());
            }
            if s != p && sig.is_none() {
                sig = Some(self.pred[k].classify(id));
            }
        }
        if *tw != want_spec {
            return fail("c15/propstore/twin-vs-model", format!("{ctx}: uncompressed {what}({id}) = {tw:?}, model {want_spec:?}"));
        }
        if *got != want_pred {
            return fail(
                format!("c15/propstore/{what}-mismatch"),
                format!("{ctx}: {what}({id}) = {got:?}, uncompressed twin {want_spec:?}, defect model {want_pred:?}"),
            );
        }
        if let Some(sig) = sig {
            self.known.note(sig, format!("{ctx}: {what}({id}) = {got:?} but the uncompressed twin returns {want_spec:?}"))?;
        }
        Ok(())
    }

    fn observe(&mut self, ctx: &str) -> Result<(), Failure> {
        fn canon(m: &grafeo_common::utils::hash::FxHashMap<PropertyKey, Value>) -> BTreeMap<String, V> {
            m.iter().map(|(k, v)| (k.as_str().to_string(), V::of(v))).collect()
        }
        let mut ids: Vec<u64> = self.touched.iter().copied().collect();
        ids.push(self.touched.iter().next_back().map_or(7, |m| m.wrapping_add(1)));
        let nids: Vec<NodeId> = ids.iter().map(|i| NodeId::new(*i)).collect();
        // get + get_batch per key
        for k in 0..KEYS.len() {
            let key = pk(k);
            let batch: Vec<Option<V>> = guard("get_batch", || self.real.get_batch(&nids, &key))?.iter().map(|o| o.as_ref().map(V::of)).collect();
            let tw_batch: Vec<Option<V>> = guard("twin get_batch", || self.twin.get_batch(&nids, &key))?.iter().map(|o| o.as_ref().map(V::of)).collect();
            if batch.len() != ids.len() || tw_batch.len() != ids.len() {
                return fail("c15/propstore/get_batch-len", format!("{ctx}: get_batch returned {} values for {} ids", batch.len(), ids.len()));
            }
            for (j, id) in ids.iter().enumerate() {
                let (s, p) = (self.spec[k].get(id).cloned(), self.pred[k].get(*id).cloned());
                if tw_batch[j] != s {
                    return fail("c15/propstore/twin-vs-model", format!("{ctx}: uncompressed get_batch[{id}].{} = {:?}, model {s:?}", KEYS[k], tw_batch[j]));
                }
                if batch[j] != p {
                    return fail(
                        "c15/propstore/get_batch-mismatch",
                        format!("{ctx}: get_batch[{id}].{} = {:?}, uncompressed twin {s:?}, defect model {p:?}", KEYS[k], batch[j]),
                    );
                }
                // single get on a sample (every id when the universe is small)
                if ids.len() <= 600 || j % 17 == 0 || s != p {
                    let g = guard("get", || self.real.get(NodeId::new(*id), &key))?.map(|v| V::of(&v));
                    if g != p {
                        return fail("c15/propstore/get-mismatch", format!("{ctx}: get({id},{}) = {g:?}, get_batch gave {p:?}, uncompressed twin {s:?}", KEYS[k]));
                    }
                }
                if s != p {
                    let sig = self.pred[k].classify(*id);
                    self.known.note(sig, format!("{ctx}: get({id},{}) = {p:?} but the uncompressed twin returns {s:?}", KEYS[k]))?;
                }
            }
        }
        // get_all / get_all_batch / get_selective_batch
        let all_batch = guard("get_all_batch", || self.real.get_all_batch(&nids))?;
        let tw_all_batch = guard("twin get_all_batch", || self.twin.get_all_batch(&nids))?;
        let sel: Vec<usize> = vec![0, 2];
        let sel_keys: Vec<PropertyKey> = sel.iter().map(|k| pk(*k)).collect();
        let sel_batch = guard("get_selective_batch", || self.real.get_selective_batch(&nids, &sel_keys))?;
        let tw_sel_batch = guard("twin get_selective_batch", || self.twin.get_selective_batch(&nids, &sel_keys))?;
        if all_batch.len() != ids.len() || sel_batch.len() != ids.len() || tw_all_batch.len() != ids.len() || tw_sel_batch.len() != ids.len() {
            return fail("c15/propstore/batch-len", format!("{ctx}: batch result lengths differ from {}", ids.len()));
        }
        for (j, id) in ids.iter().enumerate() {
            self.cmp_maps(ctx, "get_all_batch", *id, &canon(&all_batch[j]), &canon(&tw_all_batch[j]), None)?;
            self.cmp_maps(ctx, "get_selective_batch", *id, &canon(&sel_batch[j]), &canon(&tw_sel_batch[j]), Some(&sel))?;
            if ids.len() <= 600 || j % 13 == 0 {
                let ga = canon(&guard("get_all", || self.real.get_all(NodeId::new(*id)))?);
                let ta = canon(&guard("twin get_all", || self.twin.get_all(NodeId::new(*id)))?);
                self.cmp_maps(ctx, "get_all", *id, &ga, &ta, None)?;
            }
        }
        // columns
        let mut keys: Vec<String> = guard("keys", || self.real.keys())?.iter().map(|k| k.as_str().to_string()).collect();
        keys.sort();
        let mut want: Vec<String> = (0..KEYS.len()).filter(|k| self.exists[*k]).map(|k| KEYS[k].to_string()).collect();
        want.sort();
        if keys != want || self.real.column_count() != want.len() {
            return fail("c15/propstore/keys", format!("{ctx}: keys {keys:?}, expected {want:?}"));
        }
        let stats = guard("compression_stats", || self.real.compression_stats())?;
        for k in 0..KEYS.len() {
            if let Some(s) = stats.get(&pk(k)) {
                if s.value_count != self.pred[k].len() {
                    return fail("c15/propstore/value_count", format!("{ctx}: {} value_count {} != defect model {}", KEYS[k], s.value_count, self.pred[k].len()));
                }
                if s.codec.is_some() != self.compressed[k] {
                    return fail("c15/propstore/compressed-flag", format!("{ctx}: {} codec {:?} but tracked compressed = {}", KEYS[k], s.codec, self.compressed[k]));
                }
            }
        }
        Ok(())
    }
}

fn propstore(c: &StoreCase) -> CaseResult {
    let base = id_base(c.id_base);
    let real = if c.via_setter {
        let mut s = PropertyStorage::new();
        s.set_default_compression(c.mode.real());
        s
    } else {
        PropertyStorage::with_compression(c.mode.real())
    };
    let mut st = StoreState {
        real,
        twin: PropertyStorage::new(),
        spec: vec![BTreeMap::new(); 3],
        pred: vec![Pred::default(); 3],
        exists: vec![false; 3],
        compressed: vec![false; 3],
        touched: BTreeSet::new(),
        known: Known::default(),
        auto_triggered: false,
    };
    let mut modes = [c.mode; 3];
    let mut ops = c.ops.clone();
    if c.finish_decompress {
        for k in 0..3u8 {
            ops.push(StoreOp::Enable { key: k, mode: Mode::None });
        }
    }
    let mut declined = false;
    for (n, op) in ops.iter().enumerate() {
        let ctx = format!("op {n} {op:?}");
        match op {
            StoreOp::Set { id, key, g } => {
                let id = base + u64::from(*id);
                st.set(id, *key as usize, value_for(g, id), &ctx)?;
            }
            StoreOp::SetRange { start, n, key, g } => {
                for i in 0..u64::from(*n) {
                    let id = base + u64::from(*start) + i;
                    st.set(id, *key as usize, value_for(g, id), &ctx)?;
                }
                st.sync(*key as usize, &ctx, false)?;
            }
            StoreOp::Remove { id, key } => st.remove(base + u64::from(*id), *key as usize, &ctx, true)?,
            StoreOp::RemoveAll { id } => {
                let id = base + u64::from(*id);
                guard("remove_all", || st.real.remove_all(NodeId::new(id)))?;
                guard("twin remove_all", || st.twin.remove_all(NodeId::new(id)))?;
                for k in 0..3 {
                    st.remove(id, k, &ctx, false)?;
                }
            }
            StoreOp::CompressAll | StoreOp::ForceCompressAll => {
                let force = matches!(op, StoreOp::ForceCompressAll);
                if force {
                    guard("force_compress_all", || st.real.force_compress_all())?;
                } else {
                    guard("compress_all", || st.real.compress_all())?;
                }
                for k in 0..3 {
                    let was = st.compressed[k];
                    st.sync(k, &ctx, false)?;
                    if !was && st.compressed[k] && !force && modes[k] == Mode::None {
                        // documented: "Compresses all columns that have compression enabled."
                        return fail("c15/propstore/compress_all-ignores-mode", format!("{ctx}: column {} has mode None and was compressed", KEYS[k]));
                    }
                    if !was && !st.compressed[k] && st.exists[k] {
                        declined = true;
                    }
                }
            }
            StoreOp::Enable { key, mode } => {
                let k = *key as usize;
                guard("enable_compression", || st.real.enable_compression(&pk(k), mode.real()))?;
                if st.exists[k] {
                    modes[k] = *mode;
                }
                st.sync(k, &ctx, *mode == Mode::None)?;
                if *mode == Mode::None && st.compressed[k] {
                    return fail("c15/propstore/not-decompressed", format!("{ctx}: {} still compressed after switching to None", KEYS[k]));
                }
            }
            StoreOp::Check => {
                for k in 0..3 {
                    st.sync(k, &ctx, false)?;
                }
                st.observe(&ctx)?;
            }
        }
    }
    for k in 0..3 {
        st.sync(k, "final", false)?;
    }
    st.observe("final")?;
    if let Some((sig, what)) = st.known.first.take() {
        return fail(sig, format!("{what} ({} such differences in this history)", st.known.count));
    }
    let ever = st.pred.iter().any(|p| p.ever_compressed);
    let dec = st.pred.iter().any(|p| p.ever_decompressed);
    let class = if ever && dec { "compressed+decompressed" } else if ever { "compressed" } else if declined { "compress-declined" } else { "never-compressed" };
    ok(ever, format!("{:?}/{class}{}", c.mode, if st.auto_triggered { "/auto-trigger" } else { "" }), hash_of(c))
}

pub fn register(r: &mut Run) {
    // thorough: longer histories (more compress / decompress / overwrite interleavings per column)
    let max_ops = if r.is_thorough() { 18 } else { 10 };
    r.subcheck("propcol", r.cases(3_000, 150_000), move || col_case(max_ops), propcol);
    r.subcheck("propstore", r.cases(2_000, 100_000), move || store_case(max_ops), propstore);
}
