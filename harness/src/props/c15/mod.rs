//! C15 — every compression codec is lossless (round-trips, random access = full decode,
//! to_bytes/from_bytes = id, compressed = uncompressed property reads, succinct structures = naive).
//!
//! Layout: `seqs` (sequence generators), `codecs` (bitpack, delta*, rle*, dictionary, bitvec, selector),
//! `succinct` (EliasFano, SuccinctBitVector, WaveletTree vs naive), `propcol` (PropertyColumn /
//! PropertyStorage under every CompressionMode vs an uncompressed twin), `adjacency` (ChunkedAdjacency
//! hot→cold), `hostile` (from_bytes on truncated / bit-flipped / length-spliced blocks).

pub mod adjacency;
pub mod codecs;
pub mod seqs;
pub mod hostile;
pub mod propcol;
pub mod succinct;

#[allow(unused_imports)]
pub use seqs::{seq_len, sorted_u64_seq, u64_seq, u64_value};

use crate::driver::Run;

pub fn run(r: &mut Run) {
    r.level = "exploration";
    r.rule = "sequences generated per codec (lengths biased to 0/1/63/64/65/127/128/129 and each structure's block sizes \
              [rank/select 64/512/4096 ones, adjacency chunk capacity, property hot buffer 4096 / threshold 1000], bit widths \
              0..=64, i64::MIN/MAX, u64::MAX, runs, sorted / strictly increasing where that is the documented precondition); \
              non-trivial = length >= 2 and not all-equal, or an extreme value present (for histories: at least one column / \
              adjacency list actually reached its compressed representation); distinct by hash of (sub-check, case). \
              propcol/propstore: about half of the histories end with a switch back to CompressionMode::None (decompress) so \
              that the strict region behind the open finding 'compressed values are unreadable' stays large; reads that \
              differ from the uncompressed twin exactly as that finding predicts are tolerated, any other difference is a violation"
        .into();
    r.assumptions.push("DeltaEncoding::encode / DeltaBitPacked::encode are only given sorted input (documented precondition)".into());
    r.assumptions.push("EliasFano::new is only given strictly increasing input (documented precondition, asserted)".into());
    r.assumptions.push(
        "storage/epoch_store.rs is behind the non-default `tiered-storage` feature, is not compiled into the harness and is not checked"
            .into(),
    );
    r.assumptions.push("ChunkedAdjacency is driven with unique edge ids and chunk capacity >= 1, as LpgStore does".into());
    r.assumptions.push(
        "from_bytes robustness is checked in-process: spliced length fields are capped so that a corrupt count cannot make the \
         harness itself allocate gigabytes; counts above the cap are only probed where the code provably rejects before allocating"
            .into(),
    );

    codecs::register(r);
    succinct::register(r);
    propcol::register(r);
    adjacency::register(r);
    hostile::register(r);
}
