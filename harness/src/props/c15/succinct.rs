//! Succinct structures against naive implementations: EliasFano (get / iter / contains / predecessor /
//! successor), SuccinctBitVector (rank0/1, select0/1, get, counts), WaveletTree (access / rank / select / count).

use proptest::prelude::*;
use serde::{Deserialize, Serialize};

use grafeo_core::storage::{BitVector, EliasFano, SuccinctBitVector, WaveletTree};

use super::seqs::*;
use crate::driver::{CaseResult, Run, fail, guard, hash_of, ok};

fn short<T: std::fmt::Debug>(v: &T) -> String {
    crate::driver::truncate(&format!("{v:?}"), 500)
}

// ------------------------------------------------------------------------------------------------
// EliasFano
// ------------------------------------------------------------------------------------------------

fn elias_fano(v: &Vec<u64>) -> CaseResult {
    let ef = guard("EliasFano::new", || EliasFano::new(v))?;
    if ef.len() != v.len() || ef.is_empty() != v.is_empty() {
        return fail("c15/elias_fano/len", format!("{}: len {}", short(v), ef.len()));
    }
    for (i, x) in v.iter().enumerate() {
        let g = guard("get", || ef.get(i))?;
        if g != *x {
            return fail("c15/elias_fano/get", format!("{}: get({i}) = {g}", short(v)));
        }
    }
    let it: Vec<u64> = guard("iter", || ef.iter().collect())?;
    if it != *v {
        return fail("c15/elias_fano/iter", format!("{} -> {}", short(v), short(&it)));
    }
    // probes: every element, its neighbours, 0, u64::MAX
    let mut probes: Vec<u64> = vec![0, 1, u64::MAX, u64::MAX - 1];
    for x in v.iter().take(80).chain(v.iter().rev().take(20)) {
        probes.extend([*x, x.wrapping_sub(1), x.wrapping_add(1)]);
    }
    probes.sort_unstable();
    probes.dedup();
    for p in probes {
        let member = v.binary_search(&p).is_ok();
        if guard("contains", || ef.contains(p))? != member {
            return fail("c15/elias_fano/contains", format!("{}: contains({p}) != {member}", short(v)));
        }
        // predecessor: index of the largest element <= p; successor: index of the smallest element >= p
        let pred = v.partition_point(|x| *x <= p).checked_sub(1);
        let succ = Some(v.partition_point(|x| *x < p)).filter(|i| *i < v.len());
        let gp = guard("predecessor", || ef.predecessor(p))?;
        if gp != pred {
            return fail("c15/elias_fano/predecessor", format!("{}: predecessor({p}) = {gp:?}, expected {pred:?}", short(v)));
        }
        let gs = guard("successor", || ef.successor(p))?;
        if gs != succ {
            return fail("c15/elias_fano/successor", format!("{}: successor({p}) = {gs:?}, expected {succ:?}", short(v)));
        }
    }
    let big = v.last().is_some_and(|x| *x >= (1u64 << 62));
    ok(
        v.len() >= 2 || v.iter().any(|x| *x >= (1u64 << 63)),
        format!("{}/{}", len_class(v.len()), if big { "large-universe" } else { "small-universe" }),
        hash_of(v),
    )
}

// ------------------------------------------------------------------------------------------------
// SuccinctBitVector
// ------------------------------------------------------------------------------------------------

#[derive(Debug, Clone, Serialize, Deserialize, Hash)]
pub struct RsCase {
    pub bits: Vec<bool>,
    /// build through `BitVector::not` of the complement (the last partial word then carries set bits beyond len)
    pub via_not: bool,
}

fn rs_case() -> impl Strategy<Value = RsCase> {
    (prop_oneof![6 => bool_seq(1300), 1 => bool_seq(9000)], proptest::bool::weighted(0.2)).prop_map(|(bits, via_not)| RsCase { bits, via_not })
}

fn rank_select(c: &RsCase) -> CaseResult {
    let b = &c.bits;
    let sbv = if c.via_not {
        let comp: Vec<bool> = b.iter().map(|x| !x).collect();
        guard("from_bitvec(not)", || SuccinctBitVector::from_bitvec(BitVector::from_bools(&comp).not()))?
    } else {
        guard("from_bools", || SuccinctBitVector::from_bools(b))?
    };
    let n = b.len();
    let ones: Vec<usize> = (0..n).filter(|i| b[*i]).collect();
    let zeros: Vec<usize> = (0..n).filter(|i| !b[*i]).collect();
    let density = if n == 0 { "empty" } else if ones.len() * 10 >= n * 9 { "dense" } else if ones.len() * 10 <= n { "sparse" } else { "mixed" };
    let w = |s: String| format!("{s}; len {n}, {} ones, via_not {}; bits = {}", ones.len(), c.via_not, short(b));
    if sbv.len() != n || sbv.is_empty() != (n == 0) || sbv.count_ones() != ones.len() || sbv.count_zeros() != zeros.len() {
        return fail("c15/rank_select/counts", w(format!("len {} ones {} zeros {}", sbv.len(), sbv.count_ones(), sbv.count_zeros())));
    }
    let mut r1 = 0usize;
    for pos in 0..=n + 2 {
        // rank1(pos) = number of ones in [0, pos); documented to saturate at the total for pos >= len
        let g1 = guard("rank1", || sbv.rank1(pos))?;
        if g1 != r1 {
            return fail(format!("c15/rank_select/rank1/{density}"), w(format!("rank1({pos}) = {g1}, expected {r1}")));
        }
        let g0 = guard("rank0", || sbv.rank0(pos))?;
        if g0 != pos.min(n) - r1 {
            return fail(format!("c15/rank_select/rank0/{density}"), w(format!("rank0({pos}) = {g0}, expected {}", pos.min(n) - r1)));
        }
        if pos < n {
            if guard("get", || sbv.get(pos))? != Some(b[pos]) {
                return fail("c15/rank_select/get", w(format!("get({pos})")));
            }
            if b[pos] {
                r1 += 1;
            }
        }
    }
    if guard("get", || sbv.get(n))?.is_some() {
        return fail("c15/rank_select/get-oob", w(format!("get({n}) is Some")));
    }
    for k in 0..=ones.len() + 1 {
        let g = guard("select1", || sbv.select1(k))?;
        if g != ones.get(k).copied() {
            return fail(format!("c15/rank_select/select1/{density}"), w(format!("select1({k}) = {g:?}, expected {:?}", ones.get(k))));
        }
    }
    for k in 0..=zeros.len() + 1 {
        let g = guard("select0", || sbv.select0(k))?;
        if g != zeros.get(k).copied() {
            return fail(format!("c15/rank_select/select0/{density}"), w(format!("select0({k}) = {g:?}, expected {:?}", zeros.get(k))));
        }
    }
    if guard("inner", || sbv.inner().to_bools())? != *b {
        return fail("c15/rank_select/inner", w("inner() differs".into()));
    }
    let sampled = if ones.len() > 4096 || zeros.len() > 4096 { "/crosses-select-sample" } else { "" };
    ok(n >= 2 && !all_equal(b), format!("{}/{density}{sampled}", len_class(n)), hash_of(c))
}

// ------------------------------------------------------------------------------------------------
// WaveletTree
// ------------------------------------------------------------------------------------------------

fn wavelet_seq() -> impl Strategy<Value = Vec<u64>> {
    // alphabet: 1..=40 symbols, some of them extreme; sequence of indices into it
    let alphabet = proptest::collection::vec(prop_oneof![3 => 0u64..50, 1 => u64_value()], 1..40);
    let len = prop_oneof![1 => Just(0usize), 1 => Just(1usize), 2 => prop_oneof![Just(63usize), Just(64), Just(65), Just(511), Just(512), Just(513)], 5 => 0usize..120, 2 => 120usize..700];
    (alphabet, len, 0u8..3).prop_flat_map(|(alpha, n, skew)| {
        let k = alpha.len();
        let idx = match skew {
            0 => (0..k).boxed(),
            1 => prop_oneof![9 => Just(0usize), 1 => 0..k].boxed(),
            _ => prop_oneof![9 => Just(k - 1), 1 => 0..k].boxed(),
        };
        proptest::collection::vec(idx, n).prop_map(move |ix| ix.into_iter().map(|i| alpha[i]).collect())
    })
}

fn wavelet(v: &Vec<u64>) -> CaseResult {
    let wt = guard("WaveletTree::new", || WaveletTree::new(v))?;
    let n = v.len();
    let mut alpha: Vec<u64> = v.clone();
    alpha.sort_unstable();
    alpha.dedup();
    let w = |s: String| format!("{s}; sigma {}, seq = {}", alpha.len(), short(v));
    if wt.len() != n || wt.is_empty() != (n == 0) || wt.sigma() != alpha.len() as u64 {
        return fail("c15/wavelet/len", w(format!("len {} sigma {}", wt.len(), wt.sigma())));
    }
    let mut got_alpha: Vec<u64> = guard("alphabet", || wt.alphabet().collect())?;
    got_alpha.sort_unstable();
    if got_alpha != alpha {
        return fail("c15/wavelet/alphabet", w(format!("alphabet {}", short(&got_alpha))));
    }
    for (i, x) in v.iter().enumerate() {
        let g = guard("access", || wt.access(i))?;
        if g != *x {
            return fail("c15/wavelet/access", w(format!("access({i}) = {g}, expected {x}")));
        }
    }
    let it: Vec<(usize, u64)> = guard("iter", || wt.iter().collect())?;
    if it != v.iter().copied().enumerate().collect::<Vec<_>>() {
        return fail("c15/wavelet/iter", w("iter differs".into()));
    }
    // symbols: up to 12 from the alphabet (first, last, spread) + one absent
    let mut syms: Vec<u64> = Vec::new();
    let step = (alpha.len() / 10).max(1);
    syms.extend(alpha.iter().step_by(step).copied());
    syms.extend(alpha.last().copied());
    let absent = (0..=alpha.len() as u64 + 1).map(|i| i.wrapping_mul(7).wrapping_add(3)).find(|s| alpha.binary_search(s).is_err()).unwrap_or(u64::MAX);
    syms.push(absent);
    syms.dedup();
    for s in syms {
        let occ: Vec<usize> = (0..n).filter(|i| v[*i] == s).collect();
        let c = guard("count", || wt.count(s))?;
        if c != occ.len() {
            return fail("c15/wavelet/count", w(format!("count({s}) = {c}, expected {}", occ.len())));
        }
        let mut rank = 0usize;
        for i in 0..=n + 1 {
            let g = guard("rank", || wt.rank(s, i))?;
            if g != rank {
                return fail("c15/wavelet/rank", w(format!("rank({s}, {i}) = {g}, expected {rank}")));
            }
            if i < n && v[i] == s {
                rank += 1;
            }
        }
        for k in 0..=occ.len() + 1 {
            let g = guard("select", || wt.select(s, k))?;
            if g != occ.get(k).copied() {
                return fail("c15/wavelet/select", w(format!("select({s}, {k}) = {g:?}, expected {:?}", occ.get(k))));
            }
        }
    }
    ok(n >= 2 && !all_equal(v), format!("{}/sigma{}", len_class(n), if alpha.len() <= 2 { "<=2" } else if alpha.len() <= 8 { "<=8" } else { ">8" }), hash_of(v))
}

pub fn register(r: &mut Run) {
    r.subcheck("elias_fano", r.cases(20_000, 2_000_000), strictly_increasing_seq, elias_fano);
    r.subcheck("rank_select", r.cases(8_000, 600_000), rs_case, rank_select);
    r.subcheck("wavelet", r.cases(6_000, 500_000), wavelet_seq, wavelet);
}
