//! Generators shared by the C15 sub-checks: sequences aimed at the boundaries the codecs have
//! (lengths 0/1/63/64/65/127/128/129, widths 0..=64 bits, extremes, runs, sorted / strictly increasing).

use proptest::prelude::*;

/// u64 values biased to extremes and to widths 0..=64 bits.
pub fn u64_value() -> impl Strategy<Value = u64> {
    prop_oneof![
        3 => (0u32..=64).prop_flat_map(|w| {
            if w == 0 { Just(0u64).boxed() } else if w == 64 { any::<u64>().boxed() } else { (0u64..(1u64 << w)).boxed() }
        }),
        1 => Just(0u64),
        1 => Just(u64::MAX),
        1 => Just(u64::MAX - 1),
        1 => Just(1u64 << 63),
        1 => Just(i64::MAX as u64),
        2 => 0u64..16,
    ]
}

/// i64 values biased to extremes (MIN, MAX, ±1 around them, 0, -1) and to all magnitudes.
pub fn i64_value() -> impl Strategy<Value = i64> {
    prop_oneof![
        3 => (0u32..=63).prop_flat_map(|w| {
            if w == 0 {
                Just(0i64).boxed()
            } else {
                let lo: i64 = 0 - (1i64 << (w - 1).min(62));
                let hi: i64 = 1i64 << w.min(62);
                (lo..hi).boxed()
            }
        }),
        1 => Just(i64::MIN),
        1 => Just(i64::MAX),
        1 => Just(i64::MIN + 1),
        1 => Just(i64::MAX - 1),
        1 => Just(0i64),
        1 => Just(-1i64),
        2 => -8i64..8,
        1 => any::<i64>(),
    ]
}

/// Lengths biased to 0, 1 and the 63/64/65/127/128/129 boundaries.
pub fn seq_len() -> impl Strategy<Value = usize> {
    prop_oneof![
        1 => Just(0usize), 1 => Just(1usize), 1 => Just(2usize),
        2 => prop_oneof![Just(63usize), Just(64), Just(65), Just(127), Just(128), Just(129)],
        6 => 0usize..40,
        1 => 40usize..300,
    ]
}

pub fn u64_seq() -> impl Strategy<Value = Vec<u64>> {
    seq_len().prop_flat_map(|n| {
        prop_oneof![
            4 => proptest::collection::vec(u64_value(), n),
            1 => u64_value().prop_map(move |v| vec![v; n]),
            2 => proptest::collection::vec(0u64..4, n),
            // one fixed width for the whole sequence (all 65 widths get the boundary lengths)
            2 => (0u32..=64).prop_flat_map(move |w| {
                let hi = if w == 0 { 0 } else if w == 64 { u64::MAX } else { (1u64 << w) - 1 };
                proptest::collection::vec(prop_oneof![3 => 0u64..=hi, 1 => Just(hi)], n)
            }),
        ]
    })
}

pub fn i64_seq() -> impl Strategy<Value = Vec<i64>> {
    seq_len().prop_flat_map(|n| {
        prop_oneof![
            4 => proptest::collection::vec(i64_value(), n),
            1 => i64_value().prop_map(move |v| vec![v; n]),
            2 => proptest::collection::vec(-3i64..4, n),
            1 => proptest::collection::vec(prop_oneof![Just(i64::MIN), Just(i64::MAX), Just(0i64), Just(-1i64)], n),
        ]
    })
}

pub fn sorted_u64_seq() -> impl Strategy<Value = Vec<u64>> {
    u64_seq().prop_map(|mut v| {
        v.sort_unstable();
        v
    })
}

/// Strictly increasing sequences (EliasFano's documented precondition): sorted + dedup, plus dense ranges and
/// arithmetic progressions with a large base.
pub fn strictly_increasing_seq() -> impl Strategy<Value = Vec<u64>> {
    prop_oneof![
        4 => u64_seq().prop_map(|mut v| { v.sort_unstable(); v.dedup(); v }),
        2 => (u64_value(), seq_len(), 1u64..5).prop_map(|(base, n, step)| {
            let mut out = Vec::new();
            let mut cur = base;
            for _ in 0..n {
                out.push(cur);
                match cur.checked_add(step) { Some(c) => cur = c, None => break }
            }
            out
        }),
        2 => proptest::collection::btree_set(0u64..2000, 0..300).prop_map(|s| s.into_iter().collect()),
        1 => proptest::collection::btree_set(0u64..100_000_000, 0..200).prop_map(|s| s.into_iter().collect()),
    ]
}

/// Sequences with runs (for RLE and the codec selector): (value, run length) pairs expanded.
pub fn runs_u64_seq() -> impl Strategy<Value = Vec<u64>> {
    proptest::collection::vec((prop_oneof![3 => 0u64..4, 1 => u64_value()], prop_oneof![4 => 1usize..6, 1 => 6usize..70]), 0..24)
        .prop_map(|runs| runs.into_iter().flat_map(|(v, n)| std::iter::repeat(v).take(n)).collect())
}

pub fn runs_i64_seq() -> impl Strategy<Value = Vec<i64>> {
    proptest::collection::vec((prop_oneof![3 => -2i64..3, 1 => i64_value()], prop_oneof![4 => 1usize..6, 1 => 6usize..70]), 0..24)
        .prop_map(|runs| runs.into_iter().flat_map(|(v, n)| std::iter::repeat(v).take(n)).collect())
}

/// Bool sequences: sparse, dense, all-equal, random; lengths at word / block (64) / superblock (512) boundaries.
pub fn bool_seq(max_long: usize) -> impl Strategy<Value = Vec<bool>> {
    let len = prop_oneof![
        1 => Just(0usize), 1 => Just(1usize),
        3 => prop_oneof![Just(63usize), Just(64), Just(65), Just(127), Just(128), Just(129), Just(255), Just(256), Just(257),
                         Just(511), Just(512), Just(513), Just(1023), Just(1024), Just(1025)],
        5 => 0usize..200,
        2 => 200usize..1200,
        1 => 1200usize..max_long.max(1201),
    ];
    len.prop_flat_map(|n| {
        prop_oneof![
            2 => proptest::collection::vec(any::<bool>(), n),
            2 => proptest::collection::vec(proptest::bool::weighted(0.97), n),
            1 => proptest::collection::vec(proptest::bool::weighted(0.03), n),
            1 => Just(vec![true; n]),
            1 => Just(vec![false; n]),
            1 => (1usize..9).prop_map(move |p| (0..n).map(|i| i % p == 0).collect()),
        ]
    })
}

pub fn all_equal<T: PartialEq>(v: &[T]) -> bool {
    v.windows(2).all(|w| w[0] == w[1])
}

pub fn nontrivial_u64(v: &[u64]) -> bool {
    (v.len() >= 2 && !all_equal(v)) || v.iter().any(|x| *x >= (1u64 << 63))
}

pub fn nontrivial_i64(v: &[i64]) -> bool {
    (v.len() >= 2 && !all_equal(v)) || v.iter().any(|x| *x == i64::MIN || *x == i64::MAX)
}

/// Length class label for the histogram.
pub fn len_class(n: usize) -> &'static str {
    match n {
        0 => "len0",
        1 => "len1",
        63..=65 | 127..=129 | 255..=257 | 511..=513 | 1023..=1025 => "len-boundary",
        2..=62 => "short",
        _ => "long",
    }
}

/// SplitMix64: the deterministic value formula used by bulk operations (a pure function of the case).
pub fn mix(mut z: u64) -> u64 {
    z = z.wrapping_add(0x9E37_79B9_7F4A_7C15);
    z = (z ^ (z >> 30)).wrapping_mul(0xBF58_476D_1CE4_E5B9);
    z = (z ^ (z >> 27)).wrapping_mul(0x94D0_49BB_1331_11EB);
    z ^ (z >> 31)
}
