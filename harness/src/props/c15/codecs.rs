//! Plain codecs: bit-packing, delta (unsigned / signed / +bit-packing), run-length (unsigned / signed),
//! dictionary, bit vector (algebra against Vec<bool>), codec selector + TypeSpecificCompressor.

use proptest::prelude::*;
use serde::{Deserialize, Serialize};

use grafeo_core::storage::dictionary::IntoDictionaryEncoding;
use grafeo_core::storage::{
    BitPackedInts, BitVector, CodecSelector, CompressionCodec, DeltaBitPacked, DeltaEncoding, DictionaryBuilder, Run as RleRun,
    RunLengthEncoding, SignedRunLengthEncoding, TypeSpecificCompressor, zigzag_decode, zigzag_encode,
};

use super::seqs::*;
use crate::driver::{CaseResult, Failure, Run, fail, guard, hash_of, ok};

fn short<T: std::fmt::Debug>(v: &T) -> String {
    crate::driver::truncate(&format!("{v:?}"), 600)
}

// ------------------------------------------------------------------------------------------------
// bitpack
// ------------------------------------------------------------------------------------------------

#[derive(Debug, Clone, Serialize, Deserialize, Hash)]
pub struct BitpackCase {
    pub v: Vec<u64>,
    /// None: `pack` (minimal width); Some(e): `pack_with_bits(min_width + e)` capped at 64 (e = 255 on an all-zero
    /// sequence selects width 0, which the code documents as "all values must be 0").
    pub extra_bits: Option<u8>,
}

fn bitpack_case() -> impl Strategy<Value = BitpackCase> {
    (u64_seq(), prop_oneof![3 => Just(None), 2 => (0u8..=64).prop_map(Some), 1 => Just(Some(255u8))])
        .prop_map(|(v, extra_bits)| BitpackCase { v, extra_bits })
}

fn ref_bits_needed(x: u64) -> u8 {
    // documented: "Need at least 1 bit to represent 0"
    let mut n = 0u8;
    let mut y = x;
    while y != 0 {
        n += 1;
        y >>= 1;
    }
    n.max(1)
}

fn check_bitpacked(tag: &str, p: &BitPackedInts, v: &[u64]) -> Result<(), Failure> {
    let dec = guard("unpack", || p.unpack())?;
    if dec != v {
        return fail(format!("c15/{tag}/roundtrip"), format!("{} -> {}", short(&v), short(&dec)));
    }
    if p.len() != v.len() || p.is_empty() != v.is_empty() {
        return fail(format!("c15/{tag}/len"), format!("{}: len {} is_empty {}", short(&v), p.len(), p.is_empty()));
    }
    for (i, x) in v.iter().enumerate() {
        let g = guard("get", || p.get(i))?;
        if g != Some(*x) {
            return fail(format!("c15/{tag}/get"), format!("{}: get({i}) = {g:?}", short(&v)));
        }
    }
    for oob in [v.len(), v.len() + 1, v.len() + 64] {
        if guard("get", || p.get(oob))?.is_some() {
            return fail(format!("c15/{tag}/get-oob"), format!("{}: get({oob}) is Some", short(&v)));
        }
    }
    Ok(())
}

fn bitpack(c: &BitpackCase) -> CaseResult {
    let v = &c.v;
    let max = v.iter().copied().max().unwrap_or(0);
    let need = ref_bits_needed(max);
    if guard("bits_needed", || BitPackedInts::bits_needed(max))? != need {
        return fail("c15/bitpack/bits_needed", format!("bits_needed({max}) != {need}"));
    }
    let (p, class) = match c.extra_bits {
        None => (guard("pack", || BitPackedInts::pack(v))?, "pack"),
        Some(255) if v.iter().all(|x| *x == 0) => (guard("pack_with_bits0", || BitPackedInts::pack_with_bits(v, 0))?, "width0"),
        Some(e) => {
            let bits = (u16::from(need) + u16::from(e.min(64))).min(64) as u8;
            (guard("pack_with_bits", || BitPackedInts::pack_with_bits(v, bits))?, "pack_with_bits")
        }
    };
    if class == "pack" && !v.is_empty() && p.bits_per_value() != need {
        return fail("c15/bitpack/width", format!("{}: width {} (needed {need})", short(v), p.bits_per_value()));
    }
    check_bitpacked("bitpack", &p, v)?;
    let bytes = guard("to_bytes", || p.to_bytes())?;
    match guard("from_bytes", || BitPackedInts::from_bytes(&bytes))? {
        Ok(q) => {
            check_bitpacked("bitpack/bytes", &q, v)?;
            if q.bits_per_value() != p.bits_per_value() || q.to_bytes() != bytes {
                return fail("c15/bitpack/bytes-not-id", format!("{}: reserialised block differs", short(v)));
            }
        }
        Err(e) => return fail("c15/bitpack/bytes-err", format!("{}: {e}", short(v))),
    }
    ok(nontrivial_u64(v), format!("{class}/{}/w{}", len_class(v.len()), width_class(p.bits_per_value())), hash_of(c))
}

fn width_class(w: u8) -> &'static str {
    match w {
        0 => "0",
        1 => "1",
        2..=31 => "2-31",
        32 => "32",
        33..=63 => "33-63",
        _ => "64",
    }
}

// ------------------------------------------------------------------------------------------------
// delta
// ------------------------------------------------------------------------------------------------

fn delta_unsigned(v: &Vec<u64>) -> CaseResult {
    let e = guard("encode", || DeltaEncoding::encode(v))?;
    let dec = guard("decode", || e.decode())?;
    if dec != *v {
        return fail("c15/delta/roundtrip", format!("{} -> {}", short(v), short(&dec)));
    }
    if e.len() != v.len() || e.is_empty() != v.is_empty() {
        return fail("c15/delta/len", format!("{}: len {}", short(v), e.len()));
    }
    if !v.is_empty() && (e.base() != v[0] || e.deltas().len() != v.len() - 1) {
        return fail("c15/delta/shape", format!("{}: base {} deltas {}", short(v), e.base(), e.deltas().len()));
    }
    let bytes = guard("to_bytes", || e.to_bytes())?;
    match guard("from_bytes", || DeltaEncoding::from_bytes(&bytes))? {
        Ok(q) => {
            let d2 = guard("decode", || q.decode())?;
            if d2 != *v || q.len() != v.len() {
                return fail("c15/delta/bytes", format!("{} -> {}", short(v), short(&d2)));
            }
            if q.to_bytes() != bytes {
                return fail("c15/delta/bytes-not-id", short(v));
            }
        }
        Err(er) => return fail("c15/delta/bytes-err", format!("{}: {er}", short(v))),
    }
    ok(nontrivial_u64(v), format!("sorted/{}", len_class(v.len())), hash_of(v))
}

/// Reference zig-zag in 128-bit arithmetic: 0→0, -1→1, 1→2, -2→3, … (the mapping the module documents).
fn ref_zigzag(x: i64) -> u64 {
    let x = i128::from(x);
    (if x >= 0 { 2 * x } else { -2 * x - 1 }) as u64
}

fn delta_signed(v: &Vec<i64>) -> CaseResult {
    for &x in v.iter() {
        let z = guard("zigzag_encode", || zigzag_encode(x))?;
        if z != ref_zigzag(x) {
            return fail("c15/zigzag/encode", format!("zigzag_encode({x}) = {z}, expected {}", ref_zigzag(x)));
        }
        let back = guard("zigzag_decode", || zigzag_decode(z))?;
        if back != x {
            return fail("c15/zigzag/roundtrip", format!("zigzag_decode(zigzag_encode({x})) = {back}"));
        }
        // runlength.rs has its own copy of the pair
        let z2 = guard("rle zigzag", || grafeo_core::storage::runlength::zigzag_encode(x))?;
        let b2 = guard("rle zigzag", || grafeo_core::storage::runlength::zigzag_decode(z2))?;
        if z2 != z || b2 != x {
            return fail("c15/zigzag/rle-copy", format!("runlength zigzag({x}) = {z2} -> {b2}"));
        }
    }
    let e = guard("encode_signed", || DeltaEncoding::encode_signed(v))?;
    let dec = guard("decode_signed", || e.decode_signed())?;
    if dec != *v {
        return fail("c15/delta_signed/roundtrip", format!("{} -> {}", short(v), short(&dec)));
    }
    if e.len() != v.len() || e.is_empty() != v.is_empty() {
        return fail("c15/delta_signed/len", format!("{}: len {}", short(v), e.len()));
    }
    let bytes = guard("to_bytes", || e.to_bytes())?;
    match guard("from_bytes", || DeltaEncoding::from_bytes(&bytes))? {
        Ok(q) => {
            let d2 = guard("decode_signed", || q.decode_signed())?;
            if d2 != *v {
                return fail("c15/delta_signed/bytes", format!("{} -> {}", short(v), short(&d2)));
            }
        }
        Err(er) => return fail("c15/delta_signed/bytes-err", format!("{}: {er}", short(v))),
    }
    // wide = some consecutive difference does not fit in i64 (the region the plain `-`/`+=` arithmetic cannot do)
    let wide = v.windows(2).any(|w| w[1].checked_sub(w[0]).is_none());
    ok(nontrivial_i64(v), format!("{}/{}", if wide { "wide-delta" } else { "narrow" }, len_class(v.len())), hash_of(v))
}

fn delta_bitpacked(v: &Vec<u64>) -> CaseResult {
    let lone_zero = v.len() == 1 && v[0] == 0;
    let sig = |s: &str| if lone_zero { "c15/delta_bitpacked/[0]".to_string() } else { format!("c15/delta_bitpacked/{s}") };
    let e = guard("encode", || DeltaBitPacked::encode(v))?;
    let dec = guard("decode", || e.decode())?;
    if dec != *v {
        return fail(sig("roundtrip"), format!("{} -> {}", short(v), short(&dec)));
    }
    if e.len() != v.len() || e.is_empty() != v.is_empty() {
        return fail(sig("len"), format!("{}: len {}", short(v), e.len()));
    }
    if !v.is_empty() && e.base() != v[0] {
        return fail("c15/delta_bitpacked/base", format!("{}: base {}", short(v), e.base()));
    }
    let bytes = guard("to_bytes", || e.to_bytes())?;
    match guard("from_bytes", || DeltaBitPacked::from_bytes(&bytes))? {
        Ok(q) => {
            let d2 = guard("decode", || q.decode())?;
            if d2 != *v || q.len() != v.len() {
                return fail(sig("bytes"), format!("{} -> {}", short(v), short(&d2)));
            }
            if q.to_bytes() != bytes {
                return fail("c15/delta_bitpacked/bytes-not-id", short(v));
            }
        }
        Err(er) => return fail("c15/delta_bitpacked/bytes-err", format!("{}: {er}", short(v))),
    }
    ok(nontrivial_u64(v), format!("sorted/{}/w{}", len_class(v.len()), width_class(e.bits_per_delta())), hash_of(v))
}

// ------------------------------------------------------------------------------------------------
// run-length
// ------------------------------------------------------------------------------------------------

#[derive(Debug, Clone, Serialize, Deserialize, Hash)]
pub enum RleCase {
    Values(Vec<u64>),
    /// pre-built runs for `from_runs` (zero-length runs allowed: the API accepts any `Vec<Run>`)
    Runs(Vec<(u64, u8)>),
}

fn rle_case() -> impl Strategy<Value = RleCase> {
    prop_oneof![
        3 => runs_u64_seq().prop_map(RleCase::Values),
        2 => u64_seq().prop_map(RleCase::Values),
        2 => proptest::collection::vec((prop_oneof![2 => 0u64..3, 1 => u64_value()], prop_oneof![1 => Just(0u8), 5 => 1u8..5, 1 => 60u8..70]), 0..20)
            .prop_map(RleCase::Runs),
    ]
}

fn check_rle(tag: &str, e: &RunLengthEncoding, v: &[u64]) -> Result<(), Failure> {
    let dec = guard("decode", || e.decode())?;
    if dec != v {
        return fail(format!("c15/{tag}/roundtrip"), format!("{} -> {}", short(&v), short(&dec)));
    }
    if e.total_count() != v.len() || e.is_empty() != v.is_empty() {
        return fail(format!("c15/{tag}/len"), format!("{}: total_count {} is_empty {}", short(&v), e.total_count(), e.is_empty()));
    }
    let it: Vec<u64> = guard("iter", || e.iter().collect())?;
    if it != v {
        return fail(format!("c15/{tag}/iter"), format!("{} -> iter {}", short(&v), short(&it)));
    }
    let it2: Vec<u64> = guard("into_iter", || e.into_iter().collect())?;
    if it2 != v {
        return fail(format!("c15/{tag}/into_iter"), format!("{} -> {}", short(&v), short(&it2)));
    }
    // ExactSizeIterator: len() must be the number of remaining items at every point
    let mut iter = e.iter();
    for k in 0..=v.len() {
        let (lo, hi) = guard("size_hint", || iter.size_hint())?;
        if lo != v.len() - k || hi != Some(v.len() - k) {
            return fail(format!("c15/{tag}/size_hint"), format!("{}: after {k} items size_hint = ({lo}, {hi:?})", short(&v)));
        }
        let nx = guard("next", || iter.next())?;
        if nx != v.get(k).copied() {
            return fail(format!("c15/{tag}/iter"), format!("{}: item {k} = {nx:?}", short(&v)));
        }
    }
    for (i, x) in v.iter().enumerate() {
        let g = guard("get", || e.get(i))?;
        if g != Some(*x) {
            return fail(format!("c15/{tag}/get"), format!("{}: get({i}) = {g:?}", short(&v)));
        }
    }
    for oob in [v.len(), v.len() + 1] {
        if guard("get", || e.get(oob))?.is_some() {
            return fail(format!("c15/{tag}/get-oob"), format!("{}: get({oob}) is Some", short(&v)));
        }
    }
    let sum: u64 = e.runs().iter().map(|r| r.length).sum();
    if sum as usize != v.len() || e.run_count() != e.runs().len() {
        return fail(format!("c15/{tag}/runs"), format!("{}: runs sum {sum}", short(&v)));
    }
    Ok(())
}

fn rle(c: &RleCase) -> CaseResult {
    let (e, v, class) = match c {
        RleCase::Values(v) => (guard("encode", || RunLengthEncoding::encode(v))?, v.clone(), "encode"),
        RleCase::Runs(runs) => {
            let rs: Vec<RleRun<u64>> = runs.iter().map(|(v, n)| RleRun::new(*v, u64::from(*n))).collect();
            let v: Vec<u64> = runs.iter().flat_map(|(v, n)| std::iter::repeat(*v).take(*n as usize)).collect();
            (guard("from_runs", || RunLengthEncoding::from_runs(rs))?, v, "from_runs")
        }
    };
    check_rle("rle", &e, &v)?;
    let bytes = guard("to_bytes", || e.to_bytes())?;
    match guard("from_bytes", || RunLengthEncoding::from_bytes(&bytes))? {
        Ok(q) => {
            check_rle("rle/bytes", &q, &v)?;
            if q.runs() != e.runs() || q.to_bytes() != bytes {
                return fail("c15/rle/bytes-not-id", short(&v));
            }
        }
        Err(er) => return fail("c15/rle/bytes-err", format!("{}: {er}", short(&v))),
    }
    let again = guard("from_runs", || RunLengthEncoding::from_runs(e.runs().to_vec()))?;
    check_rle("rle/from_runs", &again, &v)?;
    ok(nontrivial_u64(&v), format!("{class}/{}", len_class(v.len())), hash_of(c))
}

fn rle_signed(v: &Vec<i64>) -> CaseResult {
    let e = guard("encode", || SignedRunLengthEncoding::encode(v))?;
    let dec = guard("decode", || e.decode())?;
    if dec != *v {
        return fail("c15/rle_signed/roundtrip", format!("{} -> {}", short(v), short(&dec)));
    }
    let bytes = guard("to_bytes", || e.to_bytes())?;
    match guard("from_bytes", || SignedRunLengthEncoding::from_bytes(&bytes))? {
        Ok(q) => {
            let d2 = guard("decode", || q.decode())?;
            if d2 != *v || q.run_count() != e.run_count() {
                return fail("c15/rle_signed/bytes", format!("{} -> {}", short(v), short(&d2)));
            }
        }
        Err(er) => return fail("c15/rle_signed/bytes-err", format!("{}: {er}", short(v))),
    }
    ok(nontrivial_i64(v), len_class(v.len()), hash_of(v))
}

// ------------------------------------------------------------------------------------------------
// dictionary
// ------------------------------------------------------------------------------------------------

#[derive(Debug, Clone, Serialize, Deserialize, Hash)]
pub struct DictCase {
    /// None = null
    pub items: Vec<Option<String>>,
    /// use add_optional (true) or add / add_null (false)
    pub optional_api: bool,
}

fn dict_string() -> impl Strategy<Value = String> {
    prop_oneof![
        4 => (0u8..4).prop_map(|i| ["Person", "Company", "", "é✓"][i as usize].to_string()),
        2 => (0u32..400).prop_map(|i| format!("v{i}")),
        1 => "[a-c]{0,3}",
        1 => "\\PC{0,12}",
    ]
}

fn dict_case() -> impl Strategy<Value = DictCase> {
    (seq_len(), 0u8..4, any::<bool>()).prop_flat_map(|(n, null_mode, optional_api)| {
        let item = match null_mode {
            0 => dict_string().prop_map(Some).boxed(),
            1 => prop_oneof![9 => dict_string().prop_map(Some), 1 => Just(None)].boxed(),
            2 => prop_oneof![1 => dict_string().prop_map(Some), 1 => Just(None)].boxed(),
            _ => prop_oneof![1 => dict_string().prop_map(Some), 9 => Just(None)].boxed(),
        };
        proptest::collection::vec(item, n).prop_map(move |items| DictCase { items, optional_api })
    })
}

fn dictionary(c: &DictCase) -> CaseResult {
    let items = &c.items;
    let enc = guard("build", || {
        let mut b = DictionaryBuilder::new();
        for it in items {
            if c.optional_api {
                b.add_optional(it.as_deref());
            } else {
                match it {
                    Some(s) => {
                        b.add(s);
                    }
                    None => b.add_null(),
                }
            }
        }
        let n = b.len();
        (b.build(), n)
    })?;
    let (enc, blen) = enc;
    if blen != items.len() || enc.len() != items.len() || enc.is_empty() != items.is_empty() {
        return fail("c15/dictionary/len", format!("{}: builder len {blen}, encoding len {}", short(items), enc.len()));
    }
    let mut distinct: Vec<&str> = items.iter().flatten().map(String::as_str).collect();
    distinct.sort_unstable();
    distinct.dedup();
    if enc.dictionary_size() != distinct.len() {
        return fail("c15/dictionary/dict-size", format!("{}: dictionary_size {} != {}", short(items), enc.dictionary_size(), distinct.len()));
    }
    for (i, it) in items.iter().enumerate() {
        let g = guard("get", || enc.get(i).map(str::to_string))?;
        if g != *it {
            let sig = if it.is_none() { "c15/dictionary/get-null" } else { "c15/dictionary/get" };
            return fail(sig, format!("{}: get({i}) = {g:?}", short(items)));
        }
        if guard("is_null", || enc.is_null(i))? != it.is_none() {
            return fail("c15/dictionary/is_null", format!("{}: is_null({i})", short(items)));
        }
        let code = guard("get_code", || enc.get_code(i))?;
        match (it, code) {
            (None, None) => {}
            (Some(s), Some(code)) => {
                if enc.dictionary().get(code as usize).map(|a| a.as_ref()) != Some(s.as_str()) {
                    return fail("c15/dictionary/code", format!("{}: code {code} at {i} does not name {s:?}", short(items)));
                }
                if guard("encode", || enc.encode(s))? != Some(code) {
                    return fail("c15/dictionary/encode", format!("{}: encode({s:?}) != {code}", short(items)));
                }
            }
            _ => return fail("c15/dictionary/get_code", format!("{}: get_code({i}) = {code:?}", short(items))),
        }
    }
    for oob in [items.len(), items.len() + 1, items.len() + 64] {
        if guard("get", || enc.get(oob).is_some())? || guard("get_code", || enc.get_code(oob).is_some())? {
            return fail("c15/dictionary/get-oob", format!("{}: get({oob}) is Some", short(items)));
        }
    }
    let it: Vec<Option<String>> = guard("iter", || enc.iter().map(|o| o.map(str::to_string)).collect())?;
    if it != *items {
        return fail("c15/dictionary/iter", format!("{} -> {}", short(items), short(&it)));
    }
    if guard("encode", || enc.encode("\u{1}not-present"))?.is_some() {
        return fail("c15/dictionary/encode-absent", short(items));
    }
    // filter_by_code against the naive scan, for every present string
    for s in distinct.iter().take(6) {
        let code = enc.encode(s).unwrap_or(u32::MAX);
        let got = guard("filter_by_code", || enc.filter_by_code(|c| c == code))?;
        let want: Vec<usize> = items.iter().enumerate().filter(|(_, it)| it.as_deref() == Some(*s)).map(|(i, _)| i).collect();
        if got != want {
            return fail("c15/dictionary/filter_by_code", format!("{}: rows of {s:?}: {got:?} != {want:?}", short(items)));
        }
    }
    let all = guard("filter_by_code", || enc.filter_by_code(|_| true))?;
    let non_null: Vec<usize> = items.iter().enumerate().filter(|(_, it)| it.is_some()).map(|(i, _)| i).collect();
    if all != non_null {
        return fail("c15/dictionary/filter-nulls", format!("{}: filter(true) = {all:?}", short(items)));
    }
    if items.iter().all(Option::is_some) {
        let e2 = guard("into_dictionary_encoding", || items.iter().map(|s| s.as_deref().unwrap()).into_dictionary_encoding())?;
        let it2: Vec<Option<String>> = e2.iter().map(|o| o.map(str::to_string)).collect();
        if it2 != *items {
            return fail("c15/dictionary/into", format!("{} -> {}", short(items), short(&it2)));
        }
    }
    let nulls = items.iter().filter(|i| i.is_none()).count();
    let class = format!(
        "{}/{}/{}",
        len_class(items.len()),
        if nulls == 0 { "no-nulls" } else if nulls == items.len() { "all-null" } else { "some-nulls" },
        if distinct.len() <= 4 { "few-distinct" } else { "many-distinct" }
    );
    ok(items.len() >= 2 && !all_equal(items), class, hash_of(c))
}

// ------------------------------------------------------------------------------------------------
// bit vector: a history of operations against Vec<bool>
// ------------------------------------------------------------------------------------------------

#[derive(Debug, Clone, Serialize, Deserialize, Hash)]
pub enum BvInit {
    Bools(Vec<bool>),
    Ones(usize),
    Zeros(usize),
    /// `FromIterator` (push one by one)
    Collected(Vec<bool>),
    New,
}

#[derive(Debug, Clone, Serialize, Deserialize, Hash)]
pub enum BvOp {
    Push(bool),
    Set(u16, bool),
    Not,
    And(Vec<bool>),
    Or(Vec<bool>),
    Xor(Vec<bool>),
    /// to_bytes → from_bytes
    Bytes,
}

#[derive(Debug, Clone, Serialize, Deserialize, Hash)]
pub struct BvCase {
    pub init: BvInit,
    pub ops: Vec<BvOp>,
}

fn bv_case() -> impl Strategy<Value = BvCase> {
    let blen = || prop_oneof![2 => prop_oneof![Just(0usize), Just(1), Just(63), Just(64), Just(65), Just(127), Just(128), Just(129)], 3 => 0usize..200];
    let init = prop_oneof![
        4 => bool_seq(1300).prop_map(BvInit::Bools),
        1 => blen().prop_map(BvInit::Ones),
        1 => blen().prop_map(BvInit::Zeros),
        1 => bool_seq(1300).prop_map(BvInit::Collected),
        1 => Just(BvInit::New),
    ];
    let other = || prop_oneof![3 => bool_seq(1300), 1 => blen().prop_map(|n| vec![true; n])];
    let op = prop_oneof![
        4 => any::<bool>().prop_map(BvOp::Push),
        2 => (any::<u16>(), any::<bool>()).prop_map(|(i, b)| BvOp::Set(i, b)),
        3 => Just(BvOp::Not),
        1 => other().prop_map(BvOp::And),
        1 => other().prop_map(BvOp::Or),
        1 => other().prop_map(BvOp::Xor),
        1 => Just(BvOp::Bytes),
    ];
    (init, proptest::collection::vec(op, 0..8)).prop_map(|(init, ops)| BvCase { init, ops })
}

fn observe_bitvec(step: &str, bv: &BitVector, m: &[bool]) -> Result<(), Failure> {
    let what = |s: String| format!("after {step}: {s}; model = {}", short(&m));
    if bv.len() != m.len() || bv.is_empty() != m.is_empty() {
        return fail("c15/bitvec/len", what(format!("len {} is_empty {}", bv.len(), bv.is_empty())));
    }
    let got = guard("to_bools", || bv.to_bools())?;
    if got != m {
        return fail("c15/bitvec/to_bools", what(format!("to_bools = {}", short(&got))));
    }
    for (i, b) in m.iter().enumerate() {
        if guard("get", || bv.get(i))? != Some(*b) {
            return fail("c15/bitvec/get", what(format!("get({i}) != {b}")));
        }
    }
    for oob in [m.len(), m.len() + 1, m.len() + 64] {
        if guard("get", || bv.get(oob))?.is_some() {
            return fail("c15/bitvec/get-oob", what(format!("get({oob}) is Some")));
        }
    }
    let it: Vec<bool> = guard("iter", || bv.iter().collect())?;
    if it != m {
        return fail("c15/bitvec/iter", what(format!("iter = {}", short(&it))));
    }
    let ones = m.iter().filter(|b| **b).count();
    let (c1, c0) = (guard("count_ones", || bv.count_ones())?, guard("count_zeros", || bv.count_zeros())?);
    if c1 != ones || c0 != m.len() - ones {
        return fail("c15/bitvec/count", what(format!("count_ones {c1} count_zeros {c0}, expected {ones}/{}", m.len() - ones)));
    }
    let oi: Vec<usize> = guard("ones_iter", || bv.ones_iter().collect())?;
    let zi: Vec<usize> = guard("zeros_iter", || bv.zeros_iter().collect())?;
    let want1: Vec<usize> = (0..m.len()).filter(|i| m[*i]).collect();
    let want0: Vec<usize> = (0..m.len()).filter(|i| !m[*i]).collect();
    if oi != want1 || zi != want0 {
        return fail("c15/bitvec/ones-zeros-iter", what(format!("ones_iter {} zeros_iter {}", short(&oi), short(&zi))));
    }
    let bytes = guard("to_bytes", || bv.to_bytes())?;
    match guard("from_bytes", || BitVector::from_bytes(&bytes))? {
        Ok(q) => {
            if q.to_bools() != m {
                return fail("c15/bitvec/bytes", what(format!("from_bytes(to_bytes) = {}", short(&q.to_bools()))));
            }
        }
        Err(e) => return fail("c15/bitvec/bytes-err", what(e.to_string())),
    }
    Ok(())
}

fn bitvec(c: &BvCase) -> CaseResult {
    let (mut bv, mut m): (BitVector, Vec<bool>) = match &c.init {
        BvInit::Bools(b) => (guard("from_bools", || BitVector::from_bools(b))?, b.clone()),
        BvInit::Ones(n) => (guard("ones", || BitVector::ones(*n))?, vec![true; *n]),
        BvInit::Zeros(n) => (guard("zeros", || BitVector::zeros(*n))?, vec![false; *n]),
        BvInit::Collected(b) => (guard("collect", || b.iter().copied().collect::<BitVector>())?, b.clone()),
        BvInit::New => (BitVector::new(), Vec::new()),
    };
    observe_bitvec("init", &bv, &m)?;
    let mut partial_not = false;
    let mut mixed_len = false;
    for (k, op) in c.ops.iter().enumerate() {
        let step = format!("op {k} {}", short(op));
        match op {
            BvOp::Push(b) => {
                guard("push", || bv.push(*b))?;
                m.push(*b);
            }
            BvOp::Set(i, b) => {
                if m.is_empty() {
                    continue;
                }
                let i = crate::driver::pick(*i, m.len());
                guard("set", || bv.set(i, *b))?;
                m[i] = *b;
            }
            BvOp::Not => {
                partial_not |= m.len() % 64 != 0;
                bv = guard("not", || bv.not())?;
                for b in m.iter_mut() {
                    *b = !*b;
                }
            }
            BvOp::And(o) | BvOp::Or(o) | BvOp::Xor(o) => {
                mixed_len |= o.len() != m.len();
                let other = guard("from_bools", || BitVector::from_bools(o))?;
                // documented: "The result has the length of the shorter vector."
                let n = m.len().min(o.len());
                let (res, mm): (BitVector, Vec<bool>) = match op {
                    BvOp::And(_) => (guard("and", || bv.and(&other))?, (0..n).map(|i| m[i] & o[i]).collect()),
                    BvOp::Or(_) => (guard("or", || bv.or(&other))?, (0..n).map(|i| m[i] | o[i]).collect()),
                    _ => (guard("xor", || bv.xor(&other))?, (0..n).map(|i| m[i] ^ o[i]).collect()),
                };
                bv = res;
                m = mm;
            }
            BvOp::Bytes => {
                let bytes = guard("to_bytes", || bv.to_bytes())?;
                match guard("from_bytes", || BitVector::from_bytes(&bytes))? {
                    Ok(q) => bv = q,
                    Err(e) => return fail("c15/bitvec/bytes-err", format!("{step}: {e}")),
                }
            }
        }
        observe_bitvec(&step, &bv, &m)?;
    }
    let class = format!(
        "{}/{}",
        len_class(m.len()),
        if partial_not { "not-on-partial-word" } else if mixed_len { "mixed-lengths" } else { "plain" }
    );
    ok(m.len() >= 2 && !all_equal(&m), class, hash_of(c))
}

// ------------------------------------------------------------------------------------------------
// codec selector + TypeSpecificCompressor
// ------------------------------------------------------------------------------------------------

#[derive(Debug, Clone, Serialize, Deserialize, Hash)]
pub enum SelCase {
    Unsigned(Vec<u64>),
    Signed(Vec<i64>),
    Bools(Vec<bool>),
    Strings(Vec<String>),
}

fn sel_case() -> impl Strategy<Value = SelCase> {
    prop_oneof![
        2 => u64_seq().prop_map(SelCase::Unsigned),
        2 => sorted_u64_seq().prop_map(SelCase::Unsigned),
        2 => runs_u64_seq().prop_map(SelCase::Unsigned),
        1 => strictly_increasing_seq().prop_map(SelCase::Unsigned),
        1 => proptest::collection::vec(0u64..(1 << 20), 8..80).prop_map(SelCase::Unsigned),
        2 => i64_seq().prop_map(SelCase::Signed),
        1 => runs_i64_seq().prop_map(SelCase::Signed),
        1 => (i64_value(), 8usize..200, -3i64..4).prop_map(|(b, n, s)| SelCase::Signed((0..n as i64).map(|i| b.wrapping_add(i.wrapping_mul(s))).collect())),
        1 => bool_seq(1300).prop_map(SelCase::Bools),
        1 => proptest::collection::vec(dict_string(), 0..40).prop_map(SelCase::Strings),
    ]
}

fn codec_name(c: &CompressionCodec) -> &'static str {
    c.name()
}

fn codec_selector(c: &SelCase) -> CaseResult {
    match c {
        SelCase::Unsigned(v) => {
            let sel = guard("select_for_integers", || CodecSelector::select_for_integers(v))?;
            let cd = guard("compress_integers", || TypeSpecificCompressor::compress_integers(v))?;
            if cd.codec != sel {
                return fail("c15/codec/selector-disagrees", format!("{}: select {:?}, compress used {:?}", short(v), sel, cd.codec));
            }
            if !sel.is_lossless() {
                return fail("c15/codec/is_lossless", format!("{sel:?}"));
            }
            match guard("decompress_integers", || TypeSpecificCompressor::decompress_integers(&cd))? {
                Ok(d) => {
                    if d != *v {
                        return fail(format!("c15/codec/{}/roundtrip", codec_name(&sel)), format!("{} -> {}", short(v), short(&d)));
                    }
                }
                Err(e) => return fail(format!("c15/codec/{}/decompress-err", codec_name(&sel)), format!("{}: {e}", short(v))),
            }
            if cd.uncompressed_size != v.len() * 8 {
                return fail("c15/codec/uncompressed_size", short(v));
            }
            ok(nontrivial_u64(v), format!("u64/{}/{}", codec_name(&sel), len_class(v.len())), hash_of(c))
        }
        SelCase::Signed(v) => {
            let cd = guard("compress_signed_integers", || TypeSpecificCompressor::compress_signed_integers(v))?;
            match guard("decompress_integers", || TypeSpecificCompressor::decompress_integers(&cd))? {
                Ok(d) => {
                    let back: Vec<i64> = d.iter().map(|z| zigzag_decode(*z)).collect();
                    if back != *v {
                        return fail(format!("c15/codec/signed/{}/roundtrip", codec_name(&cd.codec)), format!("{} -> {}", short(v), short(&back)));
                    }
                }
                Err(e) => return fail(format!("c15/codec/signed/{}/decompress-err", codec_name(&cd.codec)), format!("{}: {e}", short(v))),
            }
            ok(nontrivial_i64(v), format!("i64/{}/{}", codec_name(&cd.codec), len_class(v.len())), hash_of(c))
        }
        SelCase::Bools(v) => {
            let sel = guard("select_for_booleans", || CodecSelector::select_for_booleans(v))?;
            let cd = guard("compress_booleans", || TypeSpecificCompressor::compress_booleans(v))?;
            if cd.codec != sel {
                return fail("c15/codec/selector-disagrees", format!("bools: select {:?}, compress used {:?}", sel, cd.codec));
            }
            match guard("decompress_booleans", || TypeSpecificCompressor::decompress_booleans(&cd))? {
                Ok(d) => {
                    if d != *v {
                        return fail("c15/codec/bools/roundtrip", format!("{} -> {}", short(v), short(&d)));
                    }
                }
                Err(e) => return fail("c15/codec/bools/decompress-err", format!("{}: {e}", short(v))),
            }
            // the wrong decompressor must refuse, not mis-decode
            if let Ok(d) = guard("decompress_integers", || TypeSpecificCompressor::decompress_integers(&cd))? {
                return fail("c15/codec/bools/decoded-as-integers", format!("{} -> {}", short(v), short(&d)));
            }
            ok(v.len() >= 2 && !all_equal(v), format!("bool/{}", len_class(v.len())), hash_of(c))
        }
        SelCase::Strings(v) => {
            let refs: Vec<&str> = v.iter().map(String::as_str).collect();
            let sel = guard("select_for_strings", || CodecSelector::select_for_strings(&refs))?;
            match sel {
                CompressionCodec::None => {}
                CompressionCodec::Dictionary => {
                    // the codec the selector names must round-trip this very input
                    let e = guard("dictionary", || refs.iter().copied().into_dictionary_encoding())?;
                    let back: Vec<Option<&str>> = e.iter().collect();
                    if back != refs.iter().map(|s| Some(*s)).collect::<Vec<_>>() {
                        return fail("c15/codec/strings/roundtrip", short(v));
                    }
                }
                other => return fail("c15/codec/strings/unexpected-codec", format!("{}: {other:?}", short(v))),
            }
            ok(v.len() >= 2 && !all_equal(v), format!("str/{}", codec_name(&sel)), hash_of(c))
        }
    }
}

pub fn register(r: &mut Run) {
    r.subcheck("bitpack", r.cases(20_000, 2_000_000), bitpack_case, bitpack);
    r.subcheck("delta_unsigned", r.cases(20_000, 2_000_000), sorted_u64_seq, delta_unsigned);
    r.subcheck("delta_signed", r.cases(20_000, 2_000_000), i64_seq, delta_signed);
    r.subcheck("delta_bitpacked", r.cases(20_000, 2_000_000), sorted_u64_seq, delta_bitpacked);
    r.subcheck("rle", r.cases(20_000, 2_000_000), rle_case, rle);
    r.subcheck("rle_signed", r.cases(10_000, 1_000_000), || prop_oneof![runs_i64_seq(), i64_seq()], rle_signed);
    r.subcheck("dictionary", r.cases(20_000, 2_000_000), dict_case, dictionary);
    r.subcheck("bitvec", r.cases(20_000, 2_000_000), bv_case, bitvec);
    r.subcheck("codec_selector", r.cases(20_000, 2_000_000), sel_case, codec_selector);
}
