//! `from_bytes` robustness: a valid serialised block is truncated / bit-flipped / byte-patched / extended /
//! has its count field overwritten; `from_bytes` must return `Err` or an object every accessor of which
//! works and is self-consistent (get(i) = decode()[i], len = decode().len()) — never panic.
//!
//! Run in-process, so allocation is kept sane by construction: `RunLengthEncoding::from_bytes` reserves
//! `run_count * 16` bytes *before* looking at the input length, therefore run counts in (2^20, 2^59) are never
//! produced (they would make the harness itself ask for up to exabytes and abort); counts >= 2^59 are kept
//! because `Vec::with_capacity` rejects them with a (catchable) capacity-overflow panic. Objects that decode to
//! more than 2^17 values (e.g. a 5-byte bit-packed block "4·10^9 zeros at width 0" — a *valid* block) are only
//! probed with `get`, not fully decoded.

use proptest::prelude::*;
use serde::{Deserialize, Serialize};

use grafeo_core::storage::{BitPackedInts, BitVector, DeltaBitPacked, DeltaEncoding, RunLengthEncoding, SignedRunLengthEncoding};

use super::seqs::*;
use crate::driver::{CaseResult, Failure, Run, fail, guard, hash_of, ok, pick};

#[derive(Debug, Clone, PartialEq, Eq, Hash, Serialize, Deserialize)]
pub enum Mutation {
    None,
    Truncate(u16),
    Flip(u16),
    Byte(u16, u8),
    Extend(Vec<u8>),
    /// overwrite the codec's count field (u32 or u64 little endian) with this value
    Count(u64),
    /// ignore the valid block, use these bytes
    Raw(Vec<u8>),
}

#[derive(Debug, Clone, PartialEq, Eq, Hash, Serialize, Deserialize)]
pub struct HostileCase {
    /// 0 BitPackedInts, 1 DeltaEncoding, 2 DeltaBitPacked, 3 RunLengthEncoding, 4 SignedRunLengthEncoding, 5 BitVector
    pub codec: u8,
    pub seq: Vec<u64>,
    pub m: Mutation,
}

fn hostile_case() -> impl Strategy<Value = HostileCase> {
    let seq = prop_oneof![
        3 => proptest::collection::vec(u64_value(), 0..12),
        2 => proptest::collection::vec(0u64..4, 0..40),
        1 => proptest::collection::vec(0u64..1000, 60..70),
    ];
    let count = prop_oneof![
        3 => 0u64..200,
        2 => (0u32..64).prop_map(|s| 1u64 << s),
        2 => (0u32..64).prop_map(|s| (1u64 << s).wrapping_sub(1)),
        1 => Just(u64::MAX),
        1 => Just(u64::from(u32::MAX)),
        1 => any::<u64>(),
    ];
    let m = prop_oneof![
        1 => Just(Mutation::None),
        4 => any::<u16>().prop_map(Mutation::Truncate),
        6 => any::<u16>().prop_map(Mutation::Flip),
        3 => (any::<u16>(), prop_oneof![Just(0u8), Just(255u8), Just(64u8), Just(65u8), any::<u8>()]).prop_map(|(p, b)| Mutation::Byte(p, b)),
        1 => proptest::collection::vec(any::<u8>(), 1..17).prop_map(Mutation::Extend),
        4 => count.prop_map(Mutation::Count),
        2 => proptest::collection::vec(any::<u8>(), 0..40).prop_map(Mutation::Raw),
    ];
    (0u8..6, seq, m).prop_map(|(codec, seq, m)| HostileCase { codec, seq, m })
}

/// (offset, width in bytes) of the count field.
fn count_field(codec: u8) -> (usize, usize) {
    match codec {
        0 => (1, 4),     // bits u8, count u32
        1 => (8, 4),     // base u64, count u32
        2 => (9, 4),     // base u64, bits u8, count u32
        3 | 4 => (0, 8), // run count u64
        _ => (0, 4),     // bit length u32
    }
}

const DECODE_CAP: usize = 1 << 17;

fn mutate(codec: u8, mut bytes: Vec<u8>, m: &Mutation) -> Vec<u8> {
    match m {
        Mutation::None => {}
        Mutation::Truncate(p) => {
            let n = pick(*p, bytes.len() + 1);
            bytes.truncate(n);
        }
        Mutation::Flip(p) => {
            if !bytes.is_empty() {
                let bit = pick(*p, bytes.len() * 8);
                bytes[bit / 8] ^= 1 << (bit % 8);
            }
        }
        Mutation::Byte(p, b) => {
            if !bytes.is_empty() {
                let i = pick(*p, bytes.len());
                bytes[i] = *b;
            }
        }
        Mutation::Extend(x) => bytes.extend_from_slice(x),
        Mutation::Count(c) => {
            let (off, w) = count_field(codec);
            if bytes.len() >= off + w {
                bytes[off..off + w].copy_from_slice(&c.to_le_bytes()[..w]);
            }
        }
        Mutation::Raw(x) => bytes = x.clone(),
    }
    bytes
}

fn consistent_u64(tag: &str, len: usize, decode: impl FnOnce() -> Vec<u64>, get: impl Fn(usize) -> Option<u64>, bytes: &[u8]) -> Result<(), Failure> {
    let w = |s: String| format!("{s}; input {} bytes {:?}", bytes.len(), &bytes[..bytes.len().min(48)]);
    if len > DECODE_CAP {
        for i in [0, len / 2, len - 1] {
            if guard("get", || get(i))?.is_none() {
                return fail(format!("c15/hostile/{tag}/get-inside-none"), w(format!("len {len}, get({i}) = None")));
            }
        }
        if guard("get", || get(len))?.is_some() {
            return fail(format!("c15/hostile/{tag}/get-oob"), w(format!("len {len}, get(len) is Some")));
        }
        return Ok(());
    }
    let dec = guard("decode", decode)?;
    if dec.len() != len {
        return fail(format!("c15/hostile/{tag}/len-vs-decode"), w(format!("len() = {len}, decode().len() = {}", dec.len())));
    }
    for (i, x) in dec.iter().enumerate() {
        let g = guard("get", || get(i))?;
        if g != Some(*x) {
            return fail(format!("c15/hostile/{tag}/get-vs-decode"), w(format!("get({i}) = {g:?}, decode()[{i}] = {x}")));
        }
    }
    if guard("get", || get(len))?.is_some() {
        return fail(format!("c15/hostile/{tag}/get-oob"), w(format!("get({len}) is Some")));
    }
    Ok(())
}

fn hostile(c: &HostileCase) -> CaseResult {
    let mut sorted = c.seq.clone();
    sorted.sort_unstable();
    let valid: Vec<u8> = match c.codec {
        0 => BitPackedInts::pack(&c.seq).to_bytes(),
        1 => DeltaEncoding::encode(&sorted).to_bytes(),
        2 => DeltaBitPacked::encode(&sorted).to_bytes(),
        3 => RunLengthEncoding::encode(&c.seq).to_bytes(),
        4 => SignedRunLengthEncoding::encode(&c.seq.iter().map(|x| *x as i64).collect::<Vec<_>>()).to_bytes(),
        _ => BitVector::from_bools(&c.seq.iter().map(|x| x & 1 == 1).collect::<Vec<_>>()).to_bytes(),
    };
    let bytes = mutate(c.codec, valid.clone(), &c.m);
    let changed = bytes != valid;
    let name = ["bitpack", "delta", "delta_bitpacked", "rle", "rle_signed", "bitvec"][c.codec as usize % 6];
    if matches!(c.codec, 3 | 4) && bytes.len() >= 8 {
        let rc = u64::from_le_bytes(bytes[0..8].try_into().unwrap());
        if rc > (1 << 20) && rc < (1 << 59) {
            // would make from_bytes reserve rc*16 bytes before reading anything: not run in-process
            return ok(false, format!("{name}/skipped-alloc-hazard"), hash_of(c));
        }
    }
    let outcome;
    match c.codec {
        0 => match guard("BitPackedInts::from_bytes", || BitPackedInts::from_bytes(&bytes))? {
            Ok(q) => {
                outcome = "ok";
                consistent_u64(name, q.len(), || q.unpack(), |i| q.get(i), &bytes)?;
                if q.is_empty() != (q.len() == 0) {
                    return fail("c15/hostile/bitpack/is_empty", format!("{bytes:?}"));
                }
            }
            Err(_) => outcome = "err",
        },
        1 => match guard("DeltaEncoding::from_bytes", || DeltaEncoding::from_bytes(&bytes))? {
            Ok(q) => {
                outcome = "ok";
                let n = q.len();
                if n <= DECODE_CAP {
                    let d = guard("decode", || q.decode())?;
                    let ds = guard("decode_signed", || q.decode_signed())?;
                    if d.len() != n || ds.len() != n {
                        return fail("c15/hostile/delta/len-vs-decode", format!("len {n}, decode {} decode_signed {}; input {bytes:?}", d.len(), ds.len()));
                    }
                }
            }
            Err(_) => outcome = "err",
        },
        2 => match guard("DeltaBitPacked::from_bytes", || DeltaBitPacked::from_bytes(&bytes))? {
            Ok(q) => {
                outcome = "ok";
                let n = q.len();
                if n <= DECODE_CAP {
                    let d = guard("decode", || q.decode())?;
                    // the lone-zero block is the open finding c15/delta_bitpacked/[0]; everything else must agree
                    if d.len() != n {
                        return fail("c15/hostile/delta_bitpacked/len-vs-decode", format!("len {n}, decode {}; input {bytes:?}", d.len()));
                    }
                }
            }
            Err(_) => outcome = "err",
        },
        3 => match guard("RunLengthEncoding::from_bytes", || RunLengthEncoding::from_bytes(&bytes))? {
            Ok(q) => {
                outcome = "ok";
                consistent_u64(name, q.total_count(), || q.decode(), |i| q.get(i), &bytes)?;
                let first: Vec<u64> = guard("iter", || q.iter().take(4).collect())?;
                if q.total_count() > 0 && first.is_empty() {
                    return fail("c15/hostile/rle/iter-empty", format!("total_count {}, iter yields nothing; input {bytes:?}", q.total_count()));
                }
            }
            Err(_) => outcome = "err",
        },
        4 => match guard("SignedRunLengthEncoding::from_bytes", || SignedRunLengthEncoding::from_bytes(&bytes))? {
            Ok(q) => {
                outcome = "ok";
                // no len accessor: decode only when the unsigned view says it is small
                let small = RunLengthEncoding::from_bytes(&bytes).map(|u| u.total_count() <= DECODE_CAP).unwrap_or(false);
                if small {
                    guard("decode", || q.decode())?;
                }
            }
            Err(_) => outcome = "err",
        },
        _ => match guard("BitVector::from_bytes", || BitVector::from_bytes(&bytes))? {
            Ok(q) => {
                outcome = "ok";
                let n = q.len();
                let d = guard("to_bools", || q.to_bools())?;
                if d.len() != n || guard("count_ones", || q.count_ones())? != d.iter().filter(|b| **b).count() {
                    return fail("c15/hostile/bitvec/inconsistent", format!("len {n}; input {bytes:?}"));
                }
                if guard("get", || q.get(n))?.is_some() {
                    return fail("c15/hostile/bitvec/get-oob", format!("len {n}; input {bytes:?}"));
                }
            }
            Err(_) => outcome = "err",
        },
    }
    if !changed && outcome == "err" {
        return fail(format!("c15/hostile/{name}/valid-block-rejected"), format!("{:?}: {bytes:?}", c.seq));
    }
    let kind = match &c.m {
        Mutation::None => "valid",
        Mutation::Truncate(_) => "truncated",
        Mutation::Flip(_) => "bit-flip",
        Mutation::Byte(..) => "byte",
        Mutation::Extend(_) => "extended",
        Mutation::Count(_) => "count-splice",
        Mutation::Raw(_) => "raw",
    };
    ok(changed, format!("{name}/{kind}/{outcome}"), hash_of(c))
}

/// Files of the committed libFuzzer seed corpus (`fuzz/seeds/fuzz_codecs/`) and of the directories named by
/// `VERIF_FUZZ_CORPUS_C15` (colon-separated; set by `check_c15_thorough.sh` after a campaign): first byte selects the
/// codec (mod 6), the rest is offered to its `from_bytes` — the same convention as fuzz/fuzz_targets/fuzz_codecs.rs.
fn corpus_items() -> Vec<HostileCase> {
    let mut dirs = vec![crate::driver::verif_root().join("fuzz/seeds/fuzz_codecs")];
    if let Ok(v) = std::env::var("VERIF_FUZZ_CORPUS_C15") {
        dirs.extend(v.split(':').filter(|d| !d.is_empty()).map(std::path::PathBuf::from));
    }
    let mut out = Vec::new();
    let mut seen = std::collections::BTreeSet::new();
    for d in dirs {
        let Ok(rd) = std::fs::read_dir(&d) else { continue };
        let mut files: Vec<_> = rd.filter_map(|e| e.ok()).map(|e| e.path()).filter(|p| p.is_file()).collect();
        files.sort();
        for f in files {
            if let Ok(b) = std::fs::read(&f)
                && !b.is_empty()
                && b.len() <= 65536
                && seen.insert(b.clone())
            {
                out.push(HostileCase { codec: b[0] % 6, seq: Vec::new(), m: Mutation::Raw(b[1..].to_vec()) });
            }
        }
    }
    out
}

/// Development aid: `VERIF_C15_DUMP_SEEDS=<dir>` writes valid blocks of a few fixed sequences per codec as libFuzzer seeds.
fn dump_seeds(dir: &str) {
    let _ = std::fs::create_dir_all(dir);
    let seqs: Vec<Vec<u64>> = vec![vec![], vec![0], vec![7, 7, 7, 7, 9], (0..70).map(|i| i * 3).collect(), vec![u64::MAX, 0, 1 << 63, 5], vec![1, 1, 2, 2, 2, 3]];
    for (k, seq) in seqs.iter().enumerate() {
        let mut sorted = seq.clone();
        sorted.sort_unstable();
        for codec in 0u8..6 {
            let b: Vec<u8> = match codec {
                0 => BitPackedInts::pack(seq).to_bytes(),
                1 => DeltaEncoding::encode(&sorted).to_bytes(),
                2 => DeltaBitPacked::encode(&sorted).to_bytes(),
                3 => RunLengthEncoding::encode(seq).to_bytes(),
                4 => SignedRunLengthEncoding::encode(&seq.iter().map(|x| *x as i64).collect::<Vec<_>>()).to_bytes(),
                _ => BitVector::from_bools(&seq.iter().map(|x| x & 1 == 1).collect::<Vec<_>>()).to_bytes(),
            };
            let mut f = vec![codec];
            f.extend_from_slice(&b);
            let _ = std::fs::write(format!("{dir}/c{codec}-s{k}"), &f);
        }
    }
}

pub fn register(r: &mut Run) {
    if let Ok(dir) = std::env::var("VERIF_C15_DUMP_SEEDS") {
        dump_seeds(&dir);
    }
    r.subcheck("from_bytes_hostile", r.cases(30_000, 5_000_000), hostile_case, hostile);
    r.enumerate("from_bytes_corpus", corpus_items(), false, hostile);
}
