//! `ChunkedAdjacency` hot → cold compression: histories of add_edge / mark_deleted / compact /
//! compact_if_needed / freeze_all (the public entry points), then every neighbours / edges iteration
//! must equal the uncompressed expectation (multisets: a cold chunk is sorted by destination).

use std::collections::{BTreeMap, BTreeSet};

use proptest::prelude::*;
use serde::{Deserialize, Serialize};

use grafeo_common::types::{EdgeId, NodeId};
use grafeo_core::index::ChunkedAdjacency;

use crate::driver::{CaseResult, Failure, Run, fail, guard, hash_of, ok, pick};

/// Same root cause as `c15/delta_bitpacked/[0]`: a cold chunk holding exactly one entry whose destination is
/// node 0 is encoded as DeltaBitPacked [0], which decodes to nothing.
pub const SIG_LONE_ZERO: &str = "c15/adjacency/cold-chunk-lone-dst0";

#[derive(Debug, Clone, PartialEq, Eq, Hash, Serialize, Deserialize)]
pub enum AdjOp {
    /// add `n` edges from source `src`; destination i = dst formula (kind, base)
    Add { src: u8, n: u16, dst_kind: u8, dst_base: u8 },
    /// mark one live edge deleted (index into the live edges, monotone map)
    Delete { pick: u16 },
    Compact,
    CompactIfNeeded,
    FreezeAll,
    Check,
}

#[derive(Debug, Clone, PartialEq, Eq, Hash, Serialize, Deserialize)]
pub struct AdjCase {
    /// 0 = `ChunkedAdjacency::new()` (64), otherwise `with_chunk_capacity(capacity)`
    pub capacity: u8,
    pub eid_base: u8,
    pub ops: Vec<AdjOp>,
}

fn adj_case() -> impl Strategy<Value = AdjCase> {
    let op = prop_oneof![
        6 => (0u8..3, prop_oneof![3 => 1u16..10, 2 => 60u16..70, 2 => 250u16..400], 0u8..5, 0u8..4)
            .prop_map(|(src, n, dst_kind, dst_base)| AdjOp::Add { src, n, dst_kind, dst_base }),
        3 => any::<u16>().prop_map(|pick| AdjOp::Delete { pick }),
        4 => Just(AdjOp::Compact),
        1 => Just(AdjOp::CompactIfNeeded),
        2 => Just(AdjOp::FreezeAll),
        1 => Just(AdjOp::Check),
    ];
    (prop_oneof![3 => Just(0u8), 1 => Just(1u8), 1 => Just(2u8), 1 => Just(3u8), 1 => Just(64u8), 1 => Just(7u8)], 0u8..3, proptest::collection::vec(op, 1..14))
        .prop_map(|(capacity, eid_base, ops)| AdjCase { capacity, eid_base, ops })
}

fn dst_for(kind: u8, base: u8, i: u64, salt: u64) -> u64 {
    let b = [0u64, 1, 1 << 40, u64::MAX - 1000][(base % 4) as usize];
    match kind {
        0 => b + i,                                               // sequential
        1 => b,                                                   // constant (parallel edges)
        2 => b + super::seqs::mix(i ^ salt) % 50,                 // few distinct, unsorted
        3 => super::seqs::mix(i.wrapping_add(salt) ^ 0x55) >> (i % 64), // all widths
        _ => (i % 2) * b,                                         // alternating 0 / base
    }
}

/// Layout model (only used to decide whether a loss is the known lone-zero finding): mirrors
/// `AdjacencyList::{add_edge, compact, maybe_compress_to_cold, freeze_all}`.
#[derive(Default)]
struct Layout {
    hot: Vec<Vec<(u64, u64)>>,
    cold: Vec<Vec<(u64, u64)>>,
    delta: Vec<(u64, u64)>,
}

impl Layout {
    fn add(&mut self, cap: usize, e: (u64, u64)) {
        if let Some(last) = self.hot.last_mut() {
            if last.len() < cap {
                last.push(e);
                return;
            }
        }
        self.delta.push(e);
    }
    fn compact(&mut self, cap: usize) {
        if self.delta.is_empty() {
            return;
        }
        let mut cur = if self.hot.last().is_some_and(|c| c.len() < cap) { self.hot.pop().unwrap() } else { Vec::new() };
        for e in std::mem::take(&mut self.delta) {
            if cur.len() >= cap {
                self.hot.push(std::mem::take(&mut cur));
            }
            cur.push(e);
        }
        if !cur.is_empty() {
            self.hot.push(cur);
        }
        while self.hot.len() > 4 {
            let oldest = self.hot.remove(0);
            if !oldest.is_empty() {
                self.cold.push(oldest);
            }
        }
    }
    fn freeze(&mut self) {
        for c in std::mem::take(&mut self.hot) {
            if !c.is_empty() {
                self.cold.push(c);
            }
        }
    }
}

struct St {
    adj: ChunkedAdjacency,
    cap: usize,
    /// per source: every entry ever added, in order
    entries: BTreeMap<u64, Vec<(u64, u64)>>,
    deleted: BTreeMap<u64, BTreeSet<u64>>,
    layout: BTreeMap<u64, Layout>,
    live: Vec<(u64, u64)>, // (src, eid) of live edges
    added: usize,
    ndeleted: usize,
    known: Option<String>,
}

fn src_id(s: u8) -> u64 {
    [0u64, 5, u64::MAX - 7][(s % 3) as usize]
}

impl St {
    fn observe(&mut self, ctx: &str) -> Result<(), Failure> {
        for s in 0..3u8 {
            let src = src_id(s);
            let del = self.deleted.get(&src);
            let mut want: Vec<(u64, u64)> =
                self.entries.get(&src).map(|v| v.iter().copied().filter(|(_, e)| !del.is_some_and(|d| d.contains(e))).collect()).unwrap_or_default();
            want.sort_unstable();
            let mut got: Vec<(u64, u64)> =
                guard("edges_from", || self.adj.edges_from(NodeId::new(src)))?.iter().map(|(d, e)| (d.as_u64(), e.as_u64())).collect();
            got.sort_unstable();
            let mut nb: Vec<u64> = guard("neighbors", || self.adj.neighbors(NodeId::new(src)))?.iter().map(|d| d.as_u64()).collect();
            nb.sort_unstable();
            let deg = guard("out_degree", || self.adj.out_degree(NodeId::new(src)))?;
            let indeg = guard("in_degree", || self.adj.in_degree(NodeId::new(src)))?;
            // the three views must agree with each other whatever else is wrong
            let mut got_d: Vec<u64> = got.iter().map(|(d, _)| *d).collect();
            got_d.sort_unstable();
            if nb != got_d || deg != got.len() || indeg != got.len() {
                return fail(
                    "c15/adjacency/views-disagree",
                    format!("{ctx}: src {src}: edges_from has {} entries, neighbors {}, out_degree {deg}, in_degree {indeg}", got.len(), nb.len()),
                );
            }
            if got != want {
                let missing: Vec<(u64, u64)> = want.iter().copied().filter(|e| got.binary_search(e).is_err()).collect();
                let extra: Vec<(u64, u64)> = got.iter().copied().filter(|e| want.binary_search(e).is_err()).collect();
                // known: exactly the live entries sitting alone in a cold chunk with destination 0 are missing
                let lone: BTreeSet<(u64, u64)> = self
                    .layout
                    .get(&src)
                    .map(|l| l.cold.iter().filter(|c| c.len() == 1 && c[0].0 == 0).map(|c| c[0]).collect())
                    .unwrap_or_default();
                let lone_live: Vec<(u64, u64)> = want.iter().copied().filter(|e| lone.contains(e)).collect();
                let what = format!(
                    "{ctx}: src {src} (chunk capacity {}): {} expected, {} returned; missing (dst, edge) {:?}; extra {:?}",
                    self.cap,
                    want.len(),
                    got.len(),
                    &missing[..missing.len().min(8)],
                    &extra[..extra.len().min(8)]
                );
                if extra.is_empty() && !missing.is_empty() && missing == lone_live && got.len() + missing.len() == want.len() {
                    self.known.get_or_insert(what);
                    continue;
                }
                let sig = if extra.is_empty() { "c15/adjacency/edges-missing" } else if missing.is_empty() { "c15/adjacency/edges-extra" } else { "c15/adjacency/edges-differ" };
                return fail(sig, what);
            }
        }
        let total = guard("total_edge_count", || self.adj.total_edge_count())?;
        let active = guard("active_edge_count", || self.adj.active_edge_count())?;
        if total != self.added || active != self.added - self.ndeleted {
            return fail("c15/adjacency/counts", format!("{ctx}: total {total} active {active}, expected {} / {}", self.added, self.added - self.ndeleted));
        }
        let stats = guard("memory_stats", || self.adj.memory_stats())?;
        let want_cold: usize = self.layout.values().map(|l| l.cold.iter().map(Vec::len).sum::<usize>()).sum();
        if stats.hot_entries + stats.cold_entries != self.added || stats.cold_entries != want_cold {
            return fail(
                "c15/adjacency/stats",
                format!("{ctx}: hot {} + cold {} entries, expected total {} with {want_cold} cold", stats.hot_entries, stats.cold_entries, self.added),
            );
        }
        Ok(())
    }
}

fn adjacency(c: &AdjCase) -> CaseResult {
    let cap = if c.capacity == 0 { 64 } else { c.capacity as usize };
    let adj = if c.capacity == 0 { ChunkedAdjacency::new() } else { ChunkedAdjacency::with_chunk_capacity(cap) };
    let mut st = St {
        adj,
        cap,
        entries: BTreeMap::new(),
        deleted: BTreeMap::new(),
        layout: BTreeMap::new(),
        live: Vec::new(),
        added: 0,
        ndeleted: 0,
        known: None,
    };
    let mut next_eid: u64 = [0u64, 1 << 33, u64::MAX - 100_000][(c.eid_base % 3) as usize];
    for (k, op) in c.ops.iter().enumerate() {
        let ctx = format!("op {k} {op:?}");
        match op {
            AdjOp::Add { src, n, dst_kind, dst_base } => {
                let s = src_id(*src);
                for i in 0..u64::from(*n) {
                    let d = dst_for(*dst_kind, *dst_base, i, k as u64);
                    let e = next_eid;
                    next_eid += 1;
                    guard("add_edge", || st.adj.add_edge(NodeId::new(s), NodeId::new(d), EdgeId::new(e)))?;
                    st.entries.entry(s).or_default().push((d, e));
                    st.layout.entry(s).or_default().add(cap, (d, e));
                    st.live.push((s, e));
                    st.added += 1;
                }
            }
            AdjOp::Delete { pick: p } => {
                if st.live.is_empty() {
                    continue;
                }
                let (s, e) = st.live.remove(pick(*p, st.live.len()));
                guard("mark_deleted", || st.adj.mark_deleted(NodeId::new(s), EdgeId::new(e)))?;
                st.deleted.entry(s).or_default().insert(e);
                st.ndeleted += 1;
            }
            AdjOp::Compact => {
                guard("compact", || st.adj.compact())?;
                for l in st.layout.values_mut() {
                    l.compact(cap);
                }
            }
            AdjOp::CompactIfNeeded => {
                guard("compact_if_needed", || st.adj.compact_if_needed())?;
                for l in st.layout.values_mut() {
                    if l.delta.len() >= 64 {
                        l.compact(cap);
                    }
                }
            }
            AdjOp::FreezeAll => {
                guard("freeze_all", || st.adj.freeze_all())?;
                for l in st.layout.values_mut() {
                    l.freeze();
                }
            }
            AdjOp::Check => st.observe(&ctx)?,
        }
    }
    st.observe("final")?;
    if let Some(what) = st.known.take() {
        return fail(SIG_LONE_ZERO, what);
    }
    let cold: usize = st.layout.values().map(|l| l.cold.len()).sum();
    let class = format!(
        "cap{}/{}{}",
        if cap == 64 { "64" } else { "small" },
        if cold > 0 { "cold" } else { "hot-only" },
        if st.ndeleted > 0 { "+deletes" } else { "" }
    );
    ok(cold > 0, class, hash_of(c))
}

pub fn register(r: &mut Run) {
    r.subcheck("adjacency", r.cases(6_000, 600_000), adj_case, adjacency);
}
