//! C19 — not built yet.

use crate::driver::Run;

pub fn run(r: &mut Run) {
    r.inconclusive("C19: check not built yet");
}
