use crate::driver::Run;

pub mod c15;

pub fn dispatch(id: &str, r: &mut Run) -> bool {
    match id {
        "C15" => c15::run(r),
        _ => return false,
    }
    true
}
