use crate::driver::Run;

pub mod c01;
pub mod c02;
pub mod c03;
pub mod c04;
pub mod c05;
pub mod c06;
pub mod c07;
pub mod c08;
pub mod c09;
pub mod c10;
pub mod c11;
pub mod c12;
pub mod c13;
pub mod c14;
pub mod c15;
pub mod c16;
pub mod c17;
pub mod c18;
pub mod c19;
pub mod c20;
pub mod walx;

pub fn dispatch(id: &str, r: &mut Run) -> bool {
    match id {
        "C01" => c01::run(r),
        "C02" => c02::run(r),
        "C03" => c03::run(r),
        "C04" => c04::run(r),
        "C05" => c05::run(r),
        "C06" => c06::run(r),
        "C07" => c07::run(r),
        "C08" => c08::run(r),
        "C09" => c09::run(r),
        "C10" => c10::run(r),
        "C11" => c11::run(r),
        "C12" => c12::run(r),
        "C13" => c13::run(r),
        "C14" => c14::run(r),
        "C15" => c15::run(r),
        "C16" => c16::run(r),
        "C17" => c17::run(r),
        "C18" => c18::run(r),
        "C19" => c19::run(r),
        "C20" => c20::run(r),
        _ => return false,
    }
    true
}

/// Requests handled inside a child worker process (`vcheck --worker <kind>`); see `worker.rs`.
pub fn worker_dispatch(kind: &str, request: &str) -> String {
    match kind {
        "c06" => c06::worker(request),
        "c07" => c07::worker(request),
        "c12" => c12::worker(request),
        _ => format!("ERR unknown worker kind {kind}"),
    }
}
