//! Independent reader of the snapshot byte format (version byte, nodes, edges; bincode 2 "standard"
//! configuration: little endian, variable-length integers, zig-zag signed integers, u32 enum
//! discriminants, length-prefixed sequences / strings / maps, raw IEEE floats).
//!
//! Written from the format description, not from the engine's or bincode's code paths, so it serves
//! (a) as the oracle for hostile inputs: it says whether a byte string *is* a snapshot and of which
//! graph; (b) as the map of where the length / id / discriminant fields of a valid snapshot sit, which
//! is what field surgery needs.

use std::collections::BTreeMap;

use super::val::V;

#[derive(Clone, Debug, PartialEq, Eq)]
pub enum PErr {
    /// input ended inside a field
    Eof,
    /// 254 / 255 (or a marker too wide for the field) where a variable-length integer starts
    BadVarint(u8),
    BadBool(u8),
    BadVariant(u32),
    Utf8,
    /// a string length prefix larger than the rest of the input (decoders that allocate first are at risk)
    HugeByteLen(u64),
    /// nesting deeper than this reader follows (1000 levels; it gives no verdict then)
    TooDeep,
}

#[derive(Clone, Copy, Debug, PartialEq, Eq)]
pub enum FieldKind {
    /// number of nodes / edges / labels / properties / list items / map entries / vector dims / bytes
    SeqLen,
    /// byte length of a string
    StrLen,
    NodeId,
    EdgeId,
    Endpoint,
    Variant,
}

#[derive(Clone, Copy, Debug)]
pub struct Field {
    pub off: usize,
    pub width: usize,
    pub value: u64,
    pub kind: FieldKind,
}

#[derive(Clone, Debug, PartialEq, Eq)]
pub struct PNode {
    pub id: u64,
    pub labels: Vec<String>,
    pub props: Vec<(String, V)>,
}

#[derive(Clone, Debug, PartialEq, Eq)]
pub struct PEdge {
    pub id: u64,
    pub src: u64,
    pub dst: u64,
    pub ty: String,
    pub props: Vec<(String, V)>,
}

#[derive(Clone, Debug, Default)]
pub struct Parsed {
    pub version: u8,
    pub nodes: Vec<PNode>,
    pub edges: Vec<PEdge>,
    pub consumed: usize,
    pub fields: Vec<Field>,
    /// deepest container nesting met in a property value
    pub max_depth: u32,
}

const MAX_DEPTH: u32 = 1000;

struct Rd<'a> {
    b: &'a [u8],
    p: usize,
    fields: Vec<Field>,
    max_depth: u32,
}

impl<'a> Rd<'a> {
    fn take(&mut self, n: usize) -> Result<&'a [u8], PErr> {
        if self.b.len() - self.p < n {
            return Err(PErr::Eof);
        }
        let s = &self.b[self.p..self.p + n];
        self.p += n;
        Ok(s)
    }
    fn u8(&mut self) -> Result<u8, PErr> {
        Ok(self.take(1)?[0])
    }
    /// variable-length unsigned integer of at most `max_bytes` payload bytes (4 for u32, 8 for u64)
    fn varint(&mut self, max_bytes: usize, kind: Option<FieldKind>) -> Result<u64, PErr> {
        let off = self.p;
        let d = self.u8()?;
        let v = match d {
            0..=250 => u64::from(d),
            251 => u64::from(u16::from_le_bytes(self.take(2)?.try_into().unwrap())),
            252 if max_bytes >= 4 => u64::from(u32::from_le_bytes(self.take(4)?.try_into().unwrap())),
            253 if max_bytes >= 8 => u64::from_le_bytes(self.take(8)?.try_into().unwrap()),
            _ => return Err(PErr::BadVarint(d)),
        };
        if let Some(kind) = kind {
            self.fields.push(Field { off, width: self.p - off, value: v, kind });
        }
        Ok(v)
    }
    fn i64(&mut self) -> Result<i64, PErr> {
        let u = self.varint(8, None)?;
        Ok(if u % 2 == 0 { (u / 2) as i64 } else { !(u / 2) as i64 })
    }
    fn string(&mut self) -> Result<String, PErr> {
        let len = self.varint(8, Some(FieldKind::StrLen))?;
        if len > (self.b.len() - self.p) as u64 {
            return Err(PErr::HugeByteLen(len));
        }
        let s = self.take(len as usize)?;
        String::from_utf8(s.to_vec()).map_err(|_| PErr::Utf8)
    }
    fn value(&mut self, depth: u32) -> Result<V, PErr> {
        if depth > MAX_DEPTH {
            return Err(PErr::TooDeep);
        }
        self.max_depth = self.max_depth.max(depth);
        let var = self.varint(4, Some(FieldKind::Variant))? as u32;
        Ok(match var {
            0 => V::Null,
            1 => match self.u8()? {
                0 => V::Bool(false),
                1 => V::Bool(true),
                x => return Err(PErr::BadBool(x)),
            },
            2 => V::Int(self.i64()?),
            3 => V::F(u64::from_le_bytes(self.take(8)?.try_into().unwrap())),
            4 => V::Str(self.string()?),
            5 => {
                let n = self.varint(8, Some(FieldKind::SeqLen))?;
                let mut v = Vec::new();
                for _ in 0..n {
                    v.push(self.u8()?);
                }
                V::Bytes(v)
            }
            6 => V::Ts(self.i64()?),
            7 => {
                let n = self.varint(8, Some(FieldKind::SeqLen))?;
                let mut v = Vec::new();
                for _ in 0..n {
                    v.push(self.value(depth + 1)?);
                }
                V::List(v)
            }
            8 => {
                let n = self.varint(8, Some(FieldKind::SeqLen))?;
                let mut m = BTreeMap::new();
                for _ in 0..n {
                    let k = self.string()?;
                    let v = self.value(depth + 1)?;
                    m.insert(k, v); // later duplicate wins, as with any map built by insertion
                }
                V::Map(m)
            }
            9 => {
                let n = self.varint(8, Some(FieldKind::SeqLen))?;
                let mut v = Vec::new();
                for _ in 0..n {
                    v.push(u32::from_le_bytes(self.take(4)?.try_into().unwrap()));
                }
                V::Vec32(v)
            }
            x => return Err(PErr::BadVariant(x)),
        })
    }
    fn props(&mut self) -> Result<Vec<(String, V)>, PErr> {
        let n = self.varint(8, Some(FieldKind::SeqLen))?;
        let mut out = Vec::new();
        for _ in 0..n {
            let k = self.string()?;
            let v = self.value(0)?;
            out.push((k, v));
        }
        Ok(out)
    }
}

/// Reads a snapshot. `Err((e, fields_so_far))` when the bytes are not one.
pub fn parse(bytes: &[u8]) -> Result<Parsed, (PErr, Vec<Field>)> {
    let mut r = Rd { b: bytes, p: 0, fields: Vec::new(), max_depth: 0 };
    match parse_inner(&mut r) {
        Ok(mut p) => {
            p.consumed = r.p;
            p.max_depth = r.max_depth;
            p.fields = r.fields;
            Ok(p)
        }
        Err(e) => Err((e, r.fields)),
    }
}

fn parse_inner(r: &mut Rd<'_>) -> Result<Parsed, PErr> {
    let version = r.u8()?;
    let mut out = Parsed { version, ..Parsed::default() };
    let n_nodes = r.varint(8, Some(FieldKind::SeqLen))?;
    for _ in 0..n_nodes {
        let id = r.varint(8, Some(FieldKind::NodeId))?;
        let n_labels = r.varint(8, Some(FieldKind::SeqLen))?;
        let mut labels = Vec::new();
        for _ in 0..n_labels {
            labels.push(r.string()?);
        }
        let props = r.props()?;
        out.nodes.push(PNode { id, labels, props });
    }
    let n_edges = r.varint(8, Some(FieldKind::SeqLen))?;
    for _ in 0..n_edges {
        let id = r.varint(8, Some(FieldKind::EdgeId))?;
        let src = r.varint(8, Some(FieldKind::Endpoint))?;
        let dst = r.varint(8, Some(FieldKind::Endpoint))?;
        let ty = r.string()?;
        let props = r.props()?;
        out.edges.push(PEdge { id, src, dst, ty, props });
    }
    Ok(out)
}

/// Encodes an unsigned integer the way the format does (shortest form).
pub fn enc_varint(v: u64, out: &mut Vec<u8>) {
    if v <= 250 {
        out.push(v as u8);
    } else if v <= u64::from(u16::MAX) {
        out.push(251);
        out.extend_from_slice(&(v as u16).to_le_bytes());
    } else if v <= u64::from(u32::MAX) {
        out.push(252);
        out.extend_from_slice(&(v as u32).to_le_bytes());
    } else {
        out.push(253);
        out.extend_from_slice(&v.to_le_bytes());
    }
}

/// Encodes an unsigned integer in a chosen (possibly non-minimal) width: 1, 3, 5 or 9 bytes.
pub fn enc_varint_width(v: u64, width: usize, out: &mut Vec<u8>) {
    match width {
        1 => out.push(v.min(250) as u8),
        3 => {
            out.push(251);
            out.extend_from_slice(&(v as u16).to_le_bytes());
        }
        5 => {
            out.push(252);
            out.extend_from_slice(&(v as u32).to_le_bytes());
        }
        _ => {
            out.push(253);
            out.extend_from_slice(&v.to_le_bytes());
        }
    }
}
