//! Mutation histories (plain data), their generator, the abstract model they are interpreted on, the
//! interpreter that drives a real `GrafeoDB`, and the canonical dump used for every comparison.

use std::collections::{BTreeMap, BTreeSet};
use std::path::Path;

use proptest::prelude::*;
use serde::{Deserialize, Serialize};

use grafeo_common::types::{EdgeId, NodeId};
use grafeo_engine::GrafeoDB;

use super::val::{self, V};
use crate::driver::{Failure, fail, pick};

pub const LABELS: [&str; 4] = ["A", "B", "C", "Ünï codé"];
pub const KEYS: [&str; 5] = ["x", "y", "s", "w", "ключ"];
pub const TYPES: [&str; 3] = ["R", "S", "T t"];

pub type Props = Vec<(u8, V)>;

/// A statement executed through a session (inside an explicit transaction or auto-committed).
#[derive(Clone, Debug, Serialize, Deserialize)]
pub enum Stmt {
    /// `INSERT (:L {k: lit, ...})`
    InsertNode { label: u8, props: Vec<(u8, V)> },
    /// `MATCH (a:L1), (b:L2) CREATE (a)-[:T {w: b}]->(b)` — one edge per matched pair; the edges it made
    /// are read back through the session (skipped when the model has more than 9 candidate pairs)
    MatchInsertEdge { l1: u8, l2: u8, ty: u8, w: u8 },
    /// `session.create_node_with_props(labels, props)` — any value type
    ApiNode { labels: Vec<u8>, props: Props },
    /// `session.create_edge(src, dst, type)` between two live nodes
    ApiEdge { s: u16, d: u16, ty: u8 },
}

#[derive(Clone, Debug, Serialize, Deserialize)]
pub enum Op {
    CreateNode { labels: Vec<u8>, props: Props, one_call: bool },
    DeleteNode { i: u16, detach: bool },
    /// shape 0: endpoints picked independently; 1: self-loop on s; 2: parallel to an existing edge (picked by s)
    CreateEdge { s: u16, d: u16, ty: u8, props: Props, shape: u8, one_call: bool },
    DeleteEdge { i: u16 },
    SetNodeProp { i: u16, key: u8, v: V },
    RemoveNodeProp { i: u16, key: u8 },
    SetEdgeProp { i: u16, key: u8, v: V },
    RemoveEdgeProp { i: u16, key: u8 },
    AddLabel { i: u16, label: u8 },
    RemoveLabel { i: u16, label: u8 },
    /// `session.begin_tx()`, the statements, `session.commit()`
    Tx { stmts: Vec<Stmt> },
    /// one statement through `db.session()` outside a transaction
    Auto(Stmt),
}

#[derive(Clone, Debug, Serialize, Deserialize)]
pub struct Hist {
    pub ops: Vec<Op>,
    /// finish with a fresh node + self-loop through the direct API, so that the largest ids are live
    pub cap: bool,
    /// the source is a file-backed database (WAL on) instead of an in-memory one
    pub persistent: bool,
}

// ------------------------------------------------------------------------------------------------
// Dump
// ------------------------------------------------------------------------------------------------

#[derive(Clone, Debug, PartialEq, Eq, Serialize, Deserialize)]
pub struct DNode {
    pub id: u64,
    pub labels: Vec<String>,
    pub props: BTreeMap<String, V>,
}

#[derive(Clone, Debug, PartialEq, Eq, Serialize, Deserialize)]
pub struct DEdge {
    pub id: u64,
    pub src: u64,
    pub ty: String,
    pub dst: u64,
    pub props: BTreeMap<String, V>,
}

#[derive(Clone, Debug, Default, PartialEq, Eq, Serialize, Deserialize)]
pub struct Dump {
    pub nodes: Vec<DNode>,
    pub edges: Vec<DEdge>,
}

impl Dump {
    pub fn sort(&mut self) {
        self.nodes.sort_by(|a, b| a.id.cmp(&b.id).then_with(|| a.labels.cmp(&b.labels)));
        self.edges.sort_by(|a, b| a.id.cmp(&b.id).then_with(|| (a.src, a.dst).cmp(&(b.src, b.dst))));
    }
}

/// Canonical dump through the public iteration API (`iter_nodes` / `iter_edges`). Duplicates are kept.
pub fn dump_db(db: &GrafeoDB) -> Dump {
    let mut d = Dump::default();
    for n in db.iter_nodes() {
        let mut labels: Vec<String> = n.labels.iter().map(|l| l.to_string()).collect();
        labels.sort();
        d.nodes.push(DNode {
            id: n.id.as_u64(),
            labels,
            props: n.properties.iter().map(|(k, v)| (k.as_str().to_string(), V::from_value(v))).collect(),
        });
    }
    for e in db.iter_edges() {
        d.edges.push(DEdge {
            id: e.id.as_u64(),
            src: e.src.as_u64(),
            ty: e.edge_type.to_string(),
            dst: e.dst.as_u64(),
            props: e.properties.iter().map(|(k, v)| (k.as_str().to_string(), V::from_value(v))).collect(),
        });
    }
    d.sort();
    d
}

/// First difference between an expected and an actual dump: (kind for the signature, text).
pub fn diff(expected: &Dump, actual: &Dump) -> Option<(&'static str, String)> {
    let mut seen = BTreeSet::new();
    for n in &actual.nodes {
        if !seen.insert(n.id) {
            return Some(("node-duplicated", format!("node {} enumerated twice", n.id)));
        }
    }
    let mut seen = BTreeSet::new();
    for e in &actual.edges {
        if !seen.insert(e.id) {
            return Some(("edge-duplicated", format!("edge {} enumerated twice", e.id)));
        }
    }
    let en: BTreeMap<u64, &DNode> = expected.nodes.iter().map(|n| (n.id, n)).collect();
    let an: BTreeMap<u64, &DNode> = actual.nodes.iter().map(|n| (n.id, n)).collect();
    for (id, n) in &en {
        match an.get(id) {
            None => return Some(("node-missing", format!("node {id} missing; expected {n:?}"))),
            Some(a) => {
                if a.labels != n.labels {
                    return Some(("node-labels", format!("node {id}: labels {:?}, expected {:?}", a.labels, n.labels)));
                }
                if a.props != n.props {
                    return Some(("node-props", format!("node {id}: props {:?}, expected {:?}", a.props, n.props)));
                }
            }
        }
    }
    for (id, a) in &an {
        if !en.contains_key(id) {
            return Some(("node-extra", format!("unexpected node {a:?}")));
        }
    }
    let ee: BTreeMap<u64, &DEdge> = expected.edges.iter().map(|e| (e.id, e)).collect();
    let ae: BTreeMap<u64, &DEdge> = actual.edges.iter().map(|e| (e.id, e)).collect();
    for (id, e) in &ee {
        match ae.get(id) {
            None => return Some(("edge-missing", format!("edge {id} missing; expected {e:?}"))),
            Some(a) => {
                if (a.src, a.dst, &a.ty) != (e.src, e.dst, &e.ty) {
                    return Some((
                        "edge-fields",
                        format!("edge {id}: ({})-[{}]->({}), expected ({})-[{}]->({})", a.src, a.ty, a.dst, e.src, e.ty, e.dst),
                    ));
                }
                if a.props != e.props {
                    return Some(("edge-props", format!("edge {id}: props {:?}, expected {:?}", a.props, e.props)));
                }
            }
        }
    }
    for (id, a) in &ae {
        if !ee.contains_key(id) {
            return Some(("edge-extra", format!("unexpected edge {a:?}")));
        }
    }
    None
}

// ------------------------------------------------------------------------------------------------
// Model
// ------------------------------------------------------------------------------------------------

#[derive(Clone, Debug)]
pub struct MNode {
    pub labels: BTreeSet<String>,
    pub props: BTreeMap<String, V>,
    /// transaction-manager epoch the creating context carried (0 for every direct-API creation)
    pub epoch: u64,
}

#[derive(Clone, Debug)]
pub struct MEdge {
    pub src: u64,
    pub dst: u64,
    pub ty: String,
    pub props: BTreeMap<String, V>,
    pub epoch: u64,
}

#[derive(Clone, Debug, Default)]
pub struct Model {
    pub nodes: BTreeMap<u64, MNode>,
    pub edges: BTreeMap<u64, MEdge>,
    /// every node id below this has been handed out at some point
    pub next_node: u64,
    pub next_edge: u64,
    /// number of committed explicit transactions so far (= the transaction manager's epoch)
    pub tm_epoch: u64,
    pub deleted_entities: u32,
    pub tx_committed: u32,
    pub self_loops: u32,
    pub parallel: u32,
    pub dangling: u32,
}

impl Model {
    /// Dump of the whole abstract graph; with `without_late` the entities created under a
    /// transaction-manager epoch > 0 are left out (what a store-epoch-0 enumeration can see).
    pub fn dump(&self, without_late: bool) -> Dump {
        let mut d = Dump::default();
        for (id, n) in &self.nodes {
            if without_late && n.epoch > 0 {
                continue;
            }
            d.nodes.push(DNode { id: *id, labels: n.labels.iter().cloned().collect(), props: n.props.clone() });
        }
        for (id, e) in &self.edges {
            if without_late && e.epoch > 0 {
                continue;
            }
            d.edges.push(DEdge { id: *id, src: e.src, ty: e.ty.clone(), dst: e.dst, props: e.props.clone() });
        }
        d.sort();
        d
    }

    pub fn late_entities(&self) -> usize {
        self.nodes.values().filter(|n| n.epoch > 0).count() + self.edges.values().filter(|e| e.epoch > 0).count()
    }

    /// Nodes / edges the direct API can address (visible at the store's epoch 0).
    fn addressable_nodes(&self) -> Vec<u64> {
        self.nodes.iter().filter(|(_, n)| n.epoch == 0).map(|(i, _)| *i).collect()
    }
    fn addressable_edges(&self) -> Vec<u64> {
        self.edges.iter().filter(|(_, e)| e.epoch == 0).map(|(i, _)| *i).collect()
    }
    fn live_nodes(&self) -> Vec<u64> {
        self.nodes.keys().copied().collect()
    }

    pub fn value_tags(&self) -> BTreeSet<u8> {
        let mut t = BTreeSet::new();
        for n in self.nodes.values() {
            n.props.values().for_each(|v| v.tags_into(&mut t));
        }
        for e in self.edges.values() {
            e.props.values().for_each(|v| v.tags_into(&mut t));
        }
        t
    }
}

fn label(i: u8) -> &'static str {
    LABELS[i as usize % LABELS.len()]
}
fn key(i: u8) -> &'static str {
    KEYS[i as usize % KEYS.len()]
}
fn etype(i: u8) -> &'static str {
    TYPES[i as usize % TYPES.len()]
}

fn props_map(p: &Props) -> BTreeMap<String, V> {
    p.iter().map(|(k, v)| (key(*k).to_string(), v.clone())).collect()
}

fn harness<T>(what: String) -> Result<T, Failure> {
    // The model and the database disagree about the *result of a mutation* (not about a copy): either the
    // interpreter/model is wrong or the engine misbehaves outside this property's subject. Never tolerated.
    fail("c07/harness/model-drift", what)
}

/// Renders a statement as GQL text (None for the session-API statements).
pub fn stmt_text(s: &Stmt) -> Option<String> {
    match s {
        Stmt::InsertNode { label: l, props } => {
            let ps: Vec<String> =
                props_map(props).iter().filter_map(|(k, v)| val::gql_literal(v).map(|lit| format!("{k}: {lit}"))).collect();
            Some(if ps.is_empty() { format!("INSERT (:{})", label(*l % 3)) } else { format!("INSERT (:{} {{{}}})", label(*l % 3), ps.join(", ")) })
        }
        Stmt::MatchInsertEdge { l1, l2, ty, w } => Some(format!(
            "MATCH (a:{}), (b:{}) CREATE (a)-[:{} {{w: {w}}}]->(b)",
            label(*l1 % 3),
            label(*l2 % 3),
            etype(*ty % 2)
        )),
        _ => None,
    }
}

/// Interprets the history on a fresh database (in memory, or file-backed under `dir`) and on the model.
/// Every mutation result the API reports is checked against the model on the way.
pub fn build(h: &Hist, dir: Option<&Path>) -> Result<(GrafeoDB, Model), Failure> {
    let db = match dir {
        Some(d) if h.persistent => match GrafeoDB::open(d.join("source")) {
            Ok(db) => db,
            Err(e) => return fail("c07/harness/open-source", format!("open of a fresh directory failed: {e}")),
        },
        _ => GrafeoDB::new_in_memory(),
    };
    let mut m = Model::default();
    for (step, op) in h.ops.iter().enumerate() {
        apply(&db, &mut m, op, step)?;
    }
    if h.cap {
        let n = db.create_node(&[]);
        expect_node_id(&mut m, n.as_u64(), "cap node")?;
        m.nodes.insert(n.as_u64(), MNode { labels: BTreeSet::new(), props: BTreeMap::new(), epoch: 0 });
        let e = db.create_edge(n, n, "R");
        expect_edge_id(&mut m, e.as_u64(), "cap edge")?;
        m.edges.insert(e.as_u64(), MEdge { src: n.as_u64(), dst: n.as_u64(), ty: "R".into(), props: BTreeMap::new(), epoch: 0 });
    }
    m.dangling = m.edges.values().filter(|e| !m.nodes.contains_key(&e.src) || !m.nodes.contains_key(&e.dst)).count() as u32;
    Ok((db, m))
}

fn expect_node_id(m: &mut Model, got: u64, ctx: &str) -> Result<(), Failure> {
    if got != m.next_node {
        return harness(format!("{ctx}: node id {got} handed out, model expected {}", m.next_node));
    }
    m.next_node += 1;
    Ok(())
}

fn expect_edge_id(m: &mut Model, got: u64, ctx: &str) -> Result<(), Failure> {
    if got != m.next_edge {
        return harness(format!("{ctx}: edge id {got} handed out, model expected {}", m.next_edge));
    }
    m.next_edge += 1;
    Ok(())
}

fn apply(db: &GrafeoDB, m: &mut Model, op: &Op, step: usize) -> Result<(), Failure> {
    match op {
        Op::CreateNode { labels, props, one_call } => {
            let ls: Vec<&str> = labels.iter().map(|l| label(*l)).collect();
            let pm = props_map(props);
            let id = if *one_call {
                db.create_node_with_props(&ls, pm.iter().map(|(k, v)| (k.as_str(), v.to_value())))
            } else {
                let id = db.create_node(&ls);
                for (k, v) in &pm {
                    db.set_node_property(id, k, v.to_value());
                }
                id
            };
            expect_node_id(m, id.as_u64(), &format!("step {step} create_node"))?;
            m.nodes.insert(id.as_u64(), MNode { labels: ls.iter().map(|s| (*s).to_string()).collect(), props: pm, epoch: 0 });
        }
        Op::DeleteNode { i, detach } => {
            let cand = m.addressable_nodes();
            if cand.is_empty() {
                return Ok(());
            }
            let id = cand[pick(*i, cand.len())];
            if *detach {
                let incident: Vec<u64> =
                    m.edges.iter().filter(|(_, e)| e.epoch == 0 && (e.src == id || e.dst == id)).map(|(i, _)| *i).collect();
                for e in incident {
                    if !db.delete_edge(EdgeId::new(e)) {
                        return harness(format!("step {step}: delete_edge({e}) of a live edge returned false"));
                    }
                    m.edges.remove(&e);
                    m.deleted_entities += 1;
                }
            }
            if !db.delete_node(NodeId::new(id)) {
                return harness(format!("step {step}: delete_node({id}) of a live node returned false"));
            }
            m.nodes.remove(&id);
            m.deleted_entities += 1;
        }
        Op::CreateEdge { s, d, ty, props, shape, one_call } => {
            let live = m.live_nodes();
            if live.is_empty() {
                return Ok(());
            }
            let (src, dst) = match shape {
                1 => {
                    let n = live[pick(*s, live.len())];
                    m.self_loops += 1;
                    (n, n)
                }
                2 if !m.edges.is_empty() => {
                    let es: Vec<&MEdge> = m.edges.values().collect();
                    let e = es[pick(*s, es.len())];
                    m.parallel += 1;
                    (e.src, e.dst)
                }
                _ => (live[pick(*s, live.len())], live[pick(*d, live.len())]),
            };
            let pm = props_map(props);
            let t = etype(*ty);
            let id = if *one_call {
                db.create_edge_with_props(NodeId::new(src), NodeId::new(dst), t, pm.iter().map(|(k, v)| (k.as_str(), v.to_value())))
            } else {
                let id = db.create_edge(NodeId::new(src), NodeId::new(dst), t);
                for (k, v) in &pm {
                    db.set_edge_property(id, k, v.to_value());
                }
                id
            };
            expect_edge_id(m, id.as_u64(), &format!("step {step} create_edge"))?;
            m.edges.insert(id.as_u64(), MEdge { src, dst, ty: t.to_string(), props: pm, epoch: 0 });
        }
        Op::DeleteEdge { i } => {
            let cand = m.addressable_edges();
            if cand.is_empty() {
                return Ok(());
            }
            let id = cand[pick(*i, cand.len())];
            if !db.delete_edge(EdgeId::new(id)) {
                return harness(format!("step {step}: delete_edge({id}) of a live edge returned false"));
            }
            m.edges.remove(&id);
            m.deleted_entities += 1;
        }
        Op::SetNodeProp { i, key: k, v } => {
            let cand = m.addressable_nodes();
            if cand.is_empty() {
                return Ok(());
            }
            let id = cand[pick(*i, cand.len())];
            db.set_node_property(NodeId::new(id), key(*k), v.to_value());
            m.nodes.get_mut(&id).unwrap().props.insert(key(*k).to_string(), v.clone());
        }
        Op::RemoveNodeProp { i, key: k } => {
            let cand = m.addressable_nodes();
            if cand.is_empty() {
                return Ok(());
            }
            let id = cand[pick(*i, cand.len())];
            let had = m.nodes.get_mut(&id).unwrap().props.remove(key(*k)).is_some();
            let got = db.remove_node_property(NodeId::new(id), key(*k));
            if got != had {
                return harness(format!("step {step}: remove_node_property({id}, {}) returned {got}, model {had}", key(*k)));
            }
        }
        Op::SetEdgeProp { i, key: k, v } => {
            let cand = m.addressable_edges();
            if cand.is_empty() {
                return Ok(());
            }
            let id = cand[pick(*i, cand.len())];
            db.set_edge_property(EdgeId::new(id), key(*k), v.to_value());
            m.edges.get_mut(&id).unwrap().props.insert(key(*k).to_string(), v.clone());
        }
        Op::RemoveEdgeProp { i, key: k } => {
            let cand = m.addressable_edges();
            if cand.is_empty() {
                return Ok(());
            }
            let id = cand[pick(*i, cand.len())];
            let had = m.edges.get_mut(&id).unwrap().props.remove(key(*k)).is_some();
            let got = db.remove_edge_property(EdgeId::new(id), key(*k));
            if got != had {
                return harness(format!("step {step}: remove_edge_property({id}, {}) returned {got}, model {had}", key(*k)));
            }
        }
        Op::AddLabel { i, label: l } => {
            let cand = m.addressable_nodes();
            if cand.is_empty() {
                return Ok(());
            }
            let id = cand[pick(*i, cand.len())];
            let added = m.nodes.get_mut(&id).unwrap().labels.insert(label(*l).to_string());
            let got = db.add_node_label(NodeId::new(id), label(*l));
            if got != added {
                return harness(format!("step {step}: add_node_label({id}, {}) returned {got}, model {added}", label(*l)));
            }
        }
        Op::RemoveLabel { i, label: l } => {
            let cand = m.addressable_nodes();
            if cand.is_empty() {
                return Ok(());
            }
            let id = cand[pick(*i, cand.len())];
            let removed = m.nodes.get_mut(&id).unwrap().labels.remove(label(*l));
            let got = db.remove_node_label(NodeId::new(id), label(*l));
            if got != removed {
                return harness(format!("step {step}: remove_node_label({id}, {}) returned {got}, model {removed}", label(*l)));
            }
        }
        Op::Tx { stmts } => {
            let mut session = db.session();
            if let Err(e) = session.begin_tx() {
                return harness(format!("step {step}: begin_tx failed: {e}"));
            }
            let epoch = m.tm_epoch; // the transaction's start epoch
            for s in stmts {
                run_stmt(&session, m, s, epoch, step)?;
            }
            if let Err(e) = session.commit() {
                return harness(format!("step {step}: commit of a conflict-free transaction failed: {e}"));
            }
            m.tm_epoch += 1;
            m.tx_committed += 1;
        }
        Op::Auto(s) => {
            let session = db.session();
            run_stmt(&session, m, s, m.tm_epoch, step)?;
        }
    }
    Ok(())
}

/// Executes one statement through `session` and mirrors it in the model. The ids the statement produced
/// are read back through the session's own (transaction-manager-epoch) point lookups.
fn run_stmt(session: &grafeo_engine::Session, m: &mut Model, s: &Stmt, epoch: u64, step: usize) -> Result<(), Failure> {
    match s {
        Stmt::InsertNode { label: l, props } => {
            let text = stmt_text(s).unwrap();
            if let Err(e) = session.execute(&text) {
                return harness(format!("step {step}: `{text}` failed: {e}"));
            }
            let id = m.next_node;
            m.next_node += 1;
            let pm: BTreeMap<String, V> = props_map(props).into_iter().filter(|(_, v)| val::gql_literal(v).is_some()).collect();
            let node = MNode { labels: [label(*l % 3).to_string()].into_iter().collect(), props: pm, epoch };
            check_session_node(session, id, &node, &text, step)?;
            m.nodes.insert(id, node);
        }
        Stmt::MatchInsertEdge { l1, l2, ty, w } => {
            let (la, lb) = (label(*l1 % 3), label(*l2 % 3));
            let na = m.nodes.values().filter(|n| n.labels.contains(la)).count();
            let nb = m.nodes.values().filter(|n| n.labels.contains(lb)).count();
            if na * nb > 9 {
                return Ok(());
            }
            let text = stmt_text(s).unwrap();
            if let Err(e) = session.execute(&text) {
                return harness(format!("step {step}: `{text}` failed: {e}"));
            }
            // read back what the statement created (how many pairs a label scan matches is not this property's subject)
            while let Some(got) = session.get_edge(EdgeId::new(m.next_edge)) {
                let id = m.next_edge;
                let props: BTreeMap<String, V> = got.properties.iter().map(|(k, v)| (k.as_str().to_string(), V::from_value(v))).collect();
                let want: BTreeMap<String, V> = [("w".to_string(), V::Int(i64::from(*w)))].into_iter().collect();
                let src_ok = m.nodes.get(&got.src.as_u64()).is_some_and(|n| n.labels.contains(la));
                let dst_ok = m.nodes.get(&got.dst.as_u64()).is_some_and(|n| n.labels.contains(lb));
                if *got.edge_type != *etype(*ty % 2) || props != want || !src_ok || !dst_ok {
                    return harness(format!("step {step}: after `{text}` edge {id} is {got:?}"));
                }
                m.edges.insert(id, MEdge { src: got.src.as_u64(), dst: got.dst.as_u64(), ty: etype(*ty % 2).to_string(), props, epoch });
                m.next_edge += 1;
                if m.next_edge - id > 12 {
                    return harness(format!("step {step}: `{text}` created more than 12 edges"));
                }
            }
        }
        Stmt::ApiNode { labels, props } => {
            let ls: Vec<&str> = labels.iter().map(|l| label(*l)).collect();
            let pm = props_map(props);
            let id = session.create_node_with_props(&ls, pm.iter().map(|(k, v)| (k.as_str(), v.to_value())));
            expect_node_id(m, id.as_u64(), &format!("step {step} session.create_node_with_props"))?;
            m.nodes.insert(id.as_u64(), MNode { labels: ls.iter().map(|s| (*s).to_string()).collect(), props: pm, epoch });
        }
        Stmt::ApiEdge { s, d, ty } => {
            let live = m.live_nodes();
            if live.is_empty() {
                return Ok(());
            }
            let (src, dst) = (live[pick(*s, live.len())], live[pick(*d, live.len())]);
            let id = session.create_edge(NodeId::new(src), NodeId::new(dst), etype(*ty));
            expect_edge_id(m, id.as_u64(), &format!("step {step} session.create_edge"))?;
            m.edges.insert(id.as_u64(), MEdge { src, dst, ty: etype(*ty).to_string(), props: BTreeMap::new(), epoch });
        }
    }
    Ok(())
}

fn check_session_node(session: &grafeo_engine::Session, id: u64, want: &MNode, text: &str, step: usize) -> Result<(), Failure> {
    match session.get_node(NodeId::new(id)) {
        Some(n) => {
            let labels: BTreeSet<String> = n.labels.iter().map(|l| l.to_string()).collect();
            let props: BTreeMap<String, V> = n.properties.iter().map(|(k, v)| (k.as_str().to_string(), V::from_value(v))).collect();
            if labels != want.labels || props != want.props {
                return harness(format!("step {step}: after `{text}` node {id} is {labels:?} {props:?}, model {want:?}"));
            }
            Ok(())
        }
        None => harness(format!("step {step}: after `{text}` session.get_node({id}) is None, model {want:?}")),
    }
}

// ------------------------------------------------------------------------------------------------
// Generators
// ------------------------------------------------------------------------------------------------

fn labels_strategy() -> impl Strategy<Value = Vec<u8>> {
    prop_oneof![
        2 => Just(Vec::new()),
        5 => (0u8..3).prop_map(|l| vec![l]),
        3 => proptest::collection::vec(0u8..4, 2..4),
        1 => Just(vec![3u8]),
    ]
}

fn props_strategy() -> impl Strategy<Value = Props> {
    proptest::collection::btree_map(0u8..5, val::prop_value(), 0..4).prop_map(|m| m.into_iter().collect())
}

fn lit_value() -> impl Strategy<Value = V> {
    prop_oneof![(0i64..50).prop_map(V::Int), "[a-z]{0,5}".prop_map(V::Str), any::<bool>().prop_map(V::Bool)]
}

fn stmt_strategy() -> impl Strategy<Value = Stmt> {
    prop_oneof![
        3 => (0u8..3, proptest::collection::btree_map(0u8..4, lit_value(), 0..3))
            .prop_map(|(label, p)| Stmt::InsertNode { label, props: p.into_iter().collect() }),
        2 => (0u8..3, 0u8..3, 0u8..2, 0u8..20).prop_map(|(l1, l2, ty, w)| Stmt::MatchInsertEdge { l1, l2, ty, w }),
        2 => (labels_strategy(), props_strategy()).prop_map(|(labels, props)| Stmt::ApiNode { labels, props }),
        2 => (any::<u16>(), any::<u16>(), 0u8..3).prop_map(|(s, d, ty)| Stmt::ApiEdge { s, d, ty }),
    ]
}

fn direct_op() -> impl Strategy<Value = Op> {
    prop_oneof![
        6 => (labels_strategy(), props_strategy(), any::<bool>()).prop_map(|(labels, props, one_call)| Op::CreateNode { labels, props, one_call }),
        2 => (any::<u16>(), prop::bool::weighted(0.7)).prop_map(|(i, detach)| Op::DeleteNode { i, detach }),
        6 => (any::<u16>(), any::<u16>(), 0u8..3, props_strategy(), prop_oneof![4 => Just(0u8), 1 => Just(1u8), 1 => Just(2u8)], any::<bool>())
            .prop_map(|(s, d, ty, props, shape, one_call)| Op::CreateEdge { s, d, ty, props, shape, one_call }),
        2 => any::<u16>().prop_map(|i| Op::DeleteEdge { i }),
        4 => (any::<u16>(), 0u8..5, val::prop_value()).prop_map(|(i, key, v)| Op::SetNodeProp { i, key, v }),
        2 => (any::<u16>(), 0u8..5).prop_map(|(i, key)| Op::RemoveNodeProp { i, key }),
        3 => (any::<u16>(), 0u8..5, val::prop_value()).prop_map(|(i, key, v)| Op::SetEdgeProp { i, key, v }),
        1 => (any::<u16>(), 0u8..5).prop_map(|(i, key)| Op::RemoveEdgeProp { i, key }),
        2 => (any::<u16>(), 0u8..4).prop_map(|(i, label)| Op::AddLabel { i, label }),
        2 => (any::<u16>(), 0u8..4).prop_map(|(i, label)| Op::RemoveLabel { i, label }),
    ]
}

fn session_op() -> impl Strategy<Value = Op> {
    prop_oneof![
        3 => proptest::collection::vec(stmt_strategy(), 0..4).prop_map(|stmts| Op::Tx { stmts }),
        1 => stmt_strategy().prop_map(Op::Auto),
    ]
}

/// Histories. `max_ops` bounds the length; about 60 % use the direct API only, the rest mix in committed
/// session transactions and auto-committed statements (1–3 of them, at generated positions); about 30 %
/// are left uncapped (the largest ids may be deleted ones), 15 % run against a file-backed source.
pub fn hist_strategy(max_ops: usize, allow_persistent: bool) -> impl Strategy<Value = Hist> {
    let ops = prop_oneof![
        6 => proptest::collection::vec(direct_op(), 1..max_ops),
        4 => (proptest::collection::vec(direct_op(), 1..max_ops), proptest::collection::vec((any::<u16>(), session_op()), 1..4)).prop_map(
            |(mut ops, inserts)| {
                for (pos, op) in inserts {
                    let at = pick(pos, ops.len() + 1);
                    ops.insert(at, op);
                }
                ops
            }
        ),
    ];
    (ops, prop::bool::weighted(0.7), prop::bool::weighted(if allow_persistent { 0.15 } else { 0.0 }))
        .prop_map(|(ops, cap, persistent)| Hist { ops, cap, persistent })
}

/// Small graphs built through the direct API with detaching deletes only (no dangling edges), for the
/// hostile-bytes sub-checks: their snapshots are small (mostly under 1 KiB).
pub fn small_hist_strategy() -> impl Strategy<Value = Hist> {
    let small_val = prop_oneof![4 => val::scalar().boxed(), 1 => val::value(2)].prop_filter("small", |v| format!("{v:?}").len() < 160);
    let props = proptest::collection::btree_map(0u8..5, small_val, 0..3).prop_map(|m| m.into_iter().collect::<Props>());
    let op = prop_oneof![
        5 => (labels_strategy(), props.clone()).prop_map(|(labels, props)| Op::CreateNode { labels, props, one_call: true }),
        5 => (any::<u16>(), any::<u16>(), 0u8..3, props, prop_oneof![4 => Just(0u8), 1 => Just(1u8), 1 => Just(2u8)])
            .prop_map(|(s, d, ty, props, shape)| Op::CreateEdge { s, d, ty, props, shape, one_call: true }),
        1 => any::<u16>().prop_map(|i| Op::DeleteNode { i, detach: true }),
        1 => any::<u16>().prop_map(|i| Op::DeleteEdge { i }),
    ];
    proptest::collection::vec(op, 6..26).prop_map(|ops| Hist { ops, cap: false, persistent: false })
}
