//! Plain-data mirror of `grafeo_common::types::Value` (floats as bit patterns, so equality is
//! bitwise and the type is `Eq`), its generator (every variant, boundary payloads) and the lossless
//! conversions in both directions.

use std::collections::BTreeMap;
use std::sync::Arc;

use proptest::prelude::*;
use serde::{Deserialize, Serialize};

use grafeo_common::types::{PropertyKey, Timestamp, Value};

#[derive(Clone, Debug, PartialEq, Eq, PartialOrd, Ord, Hash, Serialize, Deserialize)]
pub enum V {
    Null,
    Bool(bool),
    Int(i64),
    /// f64 bit pattern
    F(u64),
    Str(String),
    Bytes(Vec<u8>),
    /// microseconds
    Ts(i64),
    List(Vec<V>),
    Map(BTreeMap<String, V>),
    /// f32 bit patterns
    Vec32(Vec<u32>),
}

impl V {
    /// Variant tag (used for the "≥ 3 value types" non-triviality rule).
    pub fn tag(&self) -> u8 {
        match self {
            V::Null => 0,
            V::Bool(_) => 1,
            V::Int(_) => 2,
            V::F(_) => 3,
            V::Str(_) => 4,
            V::Bytes(_) => 5,
            V::Ts(_) => 6,
            V::List(_) => 7,
            V::Map(_) => 8,
            V::Vec32(_) => 9,
        }
    }

    /// Tags of this value and of everything nested in it.
    pub fn tags_into(&self, out: &mut std::collections::BTreeSet<u8>) {
        out.insert(self.tag());
        match self {
            V::List(l) => l.iter().for_each(|v| v.tags_into(out)),
            V::Map(m) => m.values().for_each(|v| v.tags_into(out)),
            _ => {}
        }
    }

    pub fn to_value(&self) -> Value {
        match self {
            V::Null => Value::Null,
            V::Bool(b) => Value::Bool(*b),
            V::Int(i) => Value::Int64(*i),
            V::F(bits) => Value::Float64(f64::from_bits(*bits)),
            V::Str(s) => Value::String(s.as_str().into()),
            V::Bytes(b) => Value::Bytes(Arc::from(b.as_slice())),
            V::Ts(t) => Value::Timestamp(Timestamp::from_micros(*t)),
            V::List(l) => Value::List(l.iter().map(V::to_value).collect::<Vec<_>>().into()),
            V::Map(m) => Value::Map(Arc::new(
                m.iter().map(|(k, v)| (PropertyKey::new(k.as_str()), v.to_value())).collect::<BTreeMap<_, _>>(),
            )),
            V::Vec32(v) => Value::Vector(v.iter().map(|b| f32::from_bits(*b)).collect::<Vec<_>>().into()),
        }
    }

    pub fn from_value(v: &Value) -> V {
        match v {
            Value::Null => V::Null,
            Value::Bool(b) => V::Bool(*b),
            Value::Int64(i) => V::Int(*i),
            Value::Float64(f) => V::F(f.to_bits()),
            Value::String(s) => V::Str(s.to_string()),
            Value::Bytes(b) => V::Bytes(b.to_vec()),
            Value::Timestamp(t) => V::Ts(t.as_micros()),
            Value::List(l) => V::List(l.iter().map(V::from_value).collect()),
            Value::Map(m) => V::Map(m.iter().map(|(k, v)| (k.as_str().to_string(), V::from_value(v))).collect()),
            Value::Vector(v) => V::Vec32(v.iter().map(|f| f.to_bits()).collect()),
        }
    }
}

pub fn int_value() -> impl Strategy<Value = i64> {
    prop_oneof![
        4 => -5i64..20,
        1 => Just(0i64),
        1 => Just(i64::MIN),
        1 => Just(i64::MAX),
        1 => Just(i64::MIN + 1),
        1 => prop_oneof![Just((1i64 << 53) + 1), Just(-(1i64 << 53) - 1), Just(1i64 << 53), Just(250i64), Just(251), Just(-126), Just(65535), Just(65536), Just(u32::MAX as i64), Just(u32::MAX as i64 + 1)],
        1 => any::<i64>(),
    ]
}

/// f64 bit patterns: ordinary numbers, ±0, ±inf, NaNs with payloads (quiet and signalling, both signs), subnormals.
pub fn f64_bits() -> impl Strategy<Value = u64> {
    prop_oneof![
        3 => (-50i32..50).prop_map(|i| (f64::from(i) * 0.5).to_bits()),
        1 => Just(0.0f64.to_bits()),
        1 => Just((-0.0f64).to_bits()),
        1 => Just(f64::INFINITY.to_bits()),
        1 => Just(f64::NEG_INFINITY.to_bits()),
        1 => Just(f64::NAN.to_bits()),
        2 => (any::<bool>(), 1u64..(1u64 << 52)).prop_map(|(neg, payload)| (u64::from(neg) << 63) | 0x7ff0_0000_0000_0000 | payload),
        1 => (any::<bool>(), 1u64..(1u64 << 52)).prop_map(|(neg, m)| (u64::from(neg) << 63) | m),
        1 => Just(1u64),
        1 => Just(f64::MAX.to_bits()),
        1 => Just(f64::MIN_POSITIVE.to_bits()),
        1 => Just(9007199254740993.0f64.to_bits()),
        1 => any::<u64>(),
    ]
}

pub fn f32_bits() -> impl Strategy<Value = u32> {
    prop_oneof![
        3 => (-8i16..8).prop_map(|i| (f32::from(i) * 0.25).to_bits()),
        1 => Just((-0.0f32).to_bits()),
        1 => Just(f32::NAN.to_bits()),
        1 => (1u32..(1u32 << 23)).prop_map(|p| 0x7f80_0000 | p),
        1 => Just(1u32),
        1 => any::<u32>(),
    ]
}

pub fn string_value() -> impl Strategy<Value = String> {
    prop_oneof![
        2 => Just(String::new()),
        4 => "[a-z]{1,6}",
        2 => prop_oneof![
            Just("héllo wörld".to_string()),
            Just("日本語".to_string()),
            Just("𝄞 clef 🎼".to_string()),
            Just("it's \"quoted\" \\ back".to_string()),
            Just("line\nbreak\ttab\0nul".to_string()),
            Just("\u{feff}bom".to_string()),
        ],
        1 => "\\PC{0,12}",
        // lengths around the varint boundary (250 / 251) and the bit-flip neighbours of the u64 marker (125, 189, 253)
        1 => prop_oneof![Just(125usize), Just(189), Just(249), Just(250), Just(251), Just(252), Just(253), Just(300), Just(700)]
            .prop_map(|n| "x".repeat(n)),
        1 => (100usize..140).prop_map(|n| "é".repeat(n)),
    ]
}

pub fn bytes_value() -> impl Strategy<Value = Vec<u8>> {
    prop_oneof![
        1 => Just(Vec::new()),
        3 => proptest::collection::vec(any::<u8>(), 1..8),
        1 => Just(vec![0u8, 255, 251, 252, 253, 254]),
        1 => prop_oneof![Just(250usize), Just(251), Just(300)].prop_map(|n| (0..n).map(|i| (i % 256) as u8).collect()),
    ]
}

pub fn scalar() -> impl Strategy<Value = V> {
    prop_oneof![
        1 => Just(V::Null),
        1 => any::<bool>().prop_map(V::Bool),
        3 => int_value().prop_map(V::Int),
        3 => f64_bits().prop_map(V::F),
        3 => string_value().prop_map(V::Str),
        1 => bytes_value().prop_map(V::Bytes),
        1 => prop_oneof![Just(0i64), Just(i64::MIN), Just(i64::MAX), Just(1_700_000_000_000_000i64), any::<i64>()].prop_map(V::Ts),
        1 => prop_oneof![
            1 => Just(Vec::new()),
            3 => proptest::collection::vec(f32_bits(), 1..6),
            1 => Just(vec![0x3f80_0000u32; 260]),
        ].prop_map(V::Vec32),
    ]
}

fn map_key() -> impl Strategy<Value = String> {
    prop_oneof![3 => "[a-c]", 1 => Just(String::new()), 1 => Just("ключ".to_string()), 1 => "[a-z]{2,5}"]
}

/// Any value; containers nested up to `depth` levels (a scalar inside 4 containers at depth 4).
pub fn value(depth: u32) -> BoxedStrategy<V> {
    if depth == 0 {
        return scalar().boxed();
    }
    let inner = value(depth - 1);
    let inner2 = value(depth - 1);
    prop_oneof![
        6 => scalar(),
        1 => prop_oneof![
            1 => Just(Vec::new()),
            4 => proptest::collection::vec(inner.clone(), 1..4),
            1 => Just(vec![V::Int(7); 255]),
        ].prop_map(V::List),
        1 => proptest::collection::btree_map(map_key(), inner2, 0..4).prop_map(V::Map),
        // a chain that always reaches the full depth
        1 => inner.prop_map(|v| V::List(vec![v])),
    ]
    .boxed()
}

/// The property-value strategy used by the histories: mostly scalars, a share of containers to depth 4.
pub fn prop_value() -> BoxedStrategy<V> {
    prop_oneof![5 => scalar().boxed(), 1 => value(1), 1 => value(2), 1 => value(4)].boxed()
}

/// Renders a value as a GQL literal if it has one that the engine parses back to the same value
/// (used only for statement-driven inserts): ints in a modest range, simple ASCII strings, bools.
pub fn gql_literal(v: &V) -> Option<String> {
    match v {
        V::Bool(b) => Some(b.to_string()),
        V::Int(i) if (-1_000_000..=1_000_000).contains(i) && *i >= 0 => Some(i.to_string()),
        V::Str(s) if s.chars().all(|c| c.is_ascii_alphanumeric() || c == ' ') => Some(format!("'{s}'")),
        _ => None,
    }
}
